(* C03 — Ledger state equals a replay of the longest chain.
   Only statements here; proofs are in proofs/Chain{Basics,Inv,Wind,Add,Proofs,Check}.v.

   Model: model/Chain.v (Blockchain::add_block with blockring / ringitem, no-purge
   regime: every block id <= 2 * genesis_period).  Universe of blocks U
   ([univ_ok]: distinct non-zero hashes, 1 <= id <= 2 gp, child id = parent id + 1)
   whose VALID blocks are ledger-well-formed on the replay of their (valid)
   ancestors ([valid_wf]; this is what block validation is meant to guarantee, C01).

   Known class excluded by hypothesis (listed finding of the real code): a block
   delivered before its parent.  [parent_ok U st b] = the store is empty and b is
   a root of U, or b's parent is stored; [orphan_free] asks it at every delivery.
   Invalid blocks, duplicates, forks, repeated and failing reorganisations are
   all covered.  [Inv c U st] = exists lcr (the longest chain, tip first), InvW c U st lcr. *)
From Saito Require Import Base Chain ChainBasics ChainInv ChainWind ChainAdd ChainProofs ChainCheck.
From Saito Require Import PurgeInv PurgeWind PurgeAdd PurgeProofs PurgeCheck ChainPurge.

(* ---- ledger algebra ---- *)
Theorem C03_undo_apply : forall u b,
  usorted u -> wf_against u b -> undo_block (apply_block u b) b = u.
Proof. exact undo_apply. Qed.

Theorem C03_apply_undo : forall u b,
  usorted u -> wf_applied u b -> apply_block (undo_block u b) b = u.
Proof. exact apply_undo. Qed.

Theorem C03_uins_sorted : forall k u, usorted u -> usorted (uins k u).
Proof. exact uins_sorted. Qed.
Theorem C03_udel_sorted : forall k u, usorted u -> usorted (udel k u).
Proof. exact udel_sorted. Qed.
Theorem C03_apply_block_sorted : forall u b, usorted u -> usorted (apply_block u b).
Proof. exact apply_block_sorted. Qed.
Theorem C03_undo_block_sorted : forall u b, usorted u -> usorted (undo_block u b).
Proof. exact undo_block_sorted. Qed.

(* ---- the invariant ---- *)
Theorem C03_inv_init : forall c U, InvW c U (init c) [].
Proof. exact inv_init. Qed.

Theorem C03_inv_step : forall c U, univ_ok c U -> valid_wf U ->
  forall st b st' r,
  Inv c U st -> In b U -> parent_ok U st b -> add_block c st b = Ok (st', r) -> Inv c U st'.
Proof. exact inv_step. Qed.

(* no panic site of the model (SITE_RING_INDEX, SITE_ID_UNDERFLOW, SITE_UNWRAP_BLOCK) is
   reachable, and the call is inside the modelled regime *)
Theorem C03_add_block_total : forall c U, univ_ok c U -> valid_wf U ->
  forall st b, Inv c U st -> In b U -> parent_ok U st b -> exists st' r, add_block c st b = Ok (st', r).
Proof. exact add_block_total. Qed.

(* what the invariant says; lc = rev lcr is the chain listed from the root *)
Theorem C03_inv_meaning : forall c U, univ_ok c U ->
  forall st lcr, InvW c U st lcr -> 1 <= 2 * gp_of c ->
    let lc := rev lcr in
    chain_ok U lcr
    /\ (forall b, In b lc -> get_block st (b_hash b) = Some (mkSB b true))
    /\ (forall h sb, get_block st h = Some sb -> s_lc sb = true -> In h (hashes lc))
    /\ utxo st = fold_left apply_block lc []
    /\ (forall id h, lc_hash_at c (ring st) id = Some h <-> chain_index lc id h)
    /\ latest_id st = Ok (tip_id lcr) /\ latest_hash st = Ok (tip_hash lcr)
    /\ last_id st = tip_id lcr /\ last_hash st = tip_hash lcr
    /\ (forall h sb, get_block st h = Some sb ->
          In (h, b_id (s_b sb)) (ri_ent (item_at (ring st) (slot c (b_id (s_b sb))))))
    /\ (forall p e, (p < nslots c)%nat -> In e (ri_ent (item_at (ring st) p)) ->
          exists sb, get_block st (fst e) = Some sb /\ b_id (s_b sb) = snd e /\ slot c (snd e) = p)
    /\ (forall p, (p < nslots c)%nat -> NoDup (map fst (ri_ent (item_at (ring st) p))))
    /\ length (ring st) = nslots c.
Proof. exact inv_meaning. Qed.

(* the property: after every orphan-free delivery list (valid, invalid, duplicate blocks,
   forks, reorganisations back and forth, failed reorganisations) add_block never
   panicked, and there is a chain lc (root first) of valid blocks of U, linked by
   b_prev and starting at a root, such that: exactly the blocks of lc carry the
   on-chain flag; the spendable set is the replay of lc from the empty set; the
   by-height index answers exactly the blocks of lc; the reported tip id / hash are
   those of the last block of lc (0 / 0 for the empty chain), and so are
   Blockchain.last_block_id / last_block_hash; every stored block has
   exactly one ring entry, in the slot of its id, and there are no other entries *)
Theorem C03_ledger_is_replay : forall c U, univ_ok c U -> valid_wf U ->
  forall bs, 1 <= 2 * gp_of c -> orphan_free c U (init c) bs ->
    exists st lc,
      deliver c (init c) bs = Ok st
      /\ chain_ok U (rev lc)
      /\ (forall b, In b lc -> get_block st (b_hash b) = Some (mkSB b true))
      /\ (forall h sb, get_block st h = Some sb -> s_lc sb = true -> In h (hashes lc))
      /\ utxo st = fold_left apply_block lc []
      /\ (forall id h, lc_hash_at c (ring st) id = Some h <-> chain_index lc id h)
      /\ latest_id st = Ok (tip_id (rev lc)) /\ latest_hash st = Ok (tip_hash (rev lc))
      /\ last_id st = tip_id (rev lc) /\ last_hash st = tip_hash (rev lc)
      /\ (forall h sb, get_block st h = Some sb ->
            In (h, b_id (s_b sb)) (ri_ent (item_at (ring st) (slot c (b_id (s_b sb))))))
      /\ (forall p e, (p < nslots c)%nat -> In e (ri_ent (item_at (ring st) p)) ->
            exists sb, get_block st (fst e) = Some sb /\ b_id (s_b sb) = snd e /\ slot c (snd e) = p)
      /\ (forall p, (p < nslots c)%nat -> NoDup (map fst (ri_ent (item_at (ring st) p))))
      /\ length (ring st) = nslots c.
Proof. exact ledger_is_replay. Qed.

(* Blockchain.last_block_id / last_block_hash ARE the reported tip in every state of an
   orphan-free history (0 / 0 while the chain is empty) — holds since the repair of
   FinishWithFailure (resync_last); before it a failed multi-block reorganisation left
   them on a block of the abandoned chain *)
Theorem C03_last_is_tip : forall c U, univ_ok c U ->
  forall st, Inv c U st ->
  exists i h, latest_id st = Ok i /\ latest_hash st = Ok h /\ last_id st = i /\ last_hash st = h.
Proof. exact last_is_tip. Qed.

(* the executable checker of the hypotheses is sound *)
Theorem C03_history_check_sound : forall c U order, history_check c U order = true ->
  univ_ok c U /\ valid_wf U
  /\ exists bs, lookup U order = Some bs /\ (forall b, In b bs -> In b U) /\ orphan_free c U (init c) bs.
Proof. exact history_check_ok. Qed.

(* regression example of the repaired defect: the failed reorganisation 12,13,14,(15 invalid)
   against 1,2,3 takes 11 dispatcher steps and leaves last_block_* on the tip 3; they
   follow the extension by 4 *)
Example C03_last_is_tip_example :
  exists st7 st,
    history_check wit_cfg wit_last_U (hashes wit_last_U) = true
    /\ deliver wit_cfg (init wit_cfg) (firstn 7 wit_last_U) = Ok st7
    /\ latest_id st7 = Ok 3 /\ latest_hash st7 = Ok 3 /\ last_id st7 = 3 /\ last_hash st7 = 3
    /\ wsteps st7 = 11
    /\ deliver wit_cfg (init wit_cfg) wit_last_U = Ok st
    /\ latest_id st = Ok 4 /\ latest_hash st = Ok 4
    /\ last_id st = 4 /\ last_hash st = 4.
Proof. exact last_is_tip_example. Qed.

(* non-vacuity: the worked universe and delivery order meet every hypothesis *)
Example C03_universe_example :
  univ_ok ex_cfg ex_U /\ valid_wf ex_U
  /\ exists bs, lookup ex_U ex_order = Some bs /\ (forall b, In b bs -> In b ex_U)
                /\ orphan_free ex_cfg ex_U (init ex_cfg) bs.
Proof. apply history_check_ok. vm_compute. reflexivity. Qed.

(* non-vacuity: a universe with transfers, four forks, invalid blocks at the first /
   middle / last position of a candidate chain, a successful reorganisation and a
   duplicate satisfies the hypotheses; the final ledger is the replay of 1,12,13,14 *)
Example C03_example :
  history_check ex_cfg ex_U ex_order = true
  /\ exists bs st, lookup ex_U ex_order = Some bs /\ deliver ex_cfg (init ex_cfg) bs = Ok st
       /\ utxo st = [11; 42; 43] /\ latest_hash st = Ok 14.
Proof.
  split; [vm_compute; reflexivity|]. eexists. eexists.
  split; [vm_compute; reflexivity|]. split; [vm_compute; reflexivity|].
  split; vm_compute; reflexivity.
Qed.

Print Assumptions C03_undo_apply.
Print Assumptions C03_apply_undo.
Print Assumptions C03_inv_init.
Print Assumptions C03_inv_step.
Print Assumptions C03_add_block_total.
Print Assumptions C03_inv_meaning.
Print Assumptions C03_ledger_is_replay.
Print Assumptions C03_last_is_tip.
Print Assumptions C03_history_check_sound.

(* ================================================================================== *)
(* ALL BLOCK IDS (purge regime): model/ChainPurge.v = model/Chain.v + the purge that     *)
(* update_genesis_period / delete_blocks perform once the tip is beyond 2 * gp.          *)
(* State: pstate = (core : Chain.state, gid = genesis_block_id).  Universe [puniv]: as   *)
(* univ_ok without the bound id <= 2 gp, plus: a slip key identifies the id of the block *)
(* that created it, and a block only spends slips created at a lower id.                 *)
(* Hypothesis on each delivery, [step_ok c U ps b] (decidable: step_ok_b):               *)
(*   conn    - b is the first block (a root), or the walk from b through stored           *)
(*             off-chain blocks reaches a stored chain block (with ids <= 2 gp this is    *)
(*             "the parent is stored"; after a purge a stored fork may have lost its fork  *)
(*             point: C05p_disconnected_fork_refuted);                                     *)
(*   no_late - not: the candidate chain contains an invalid block and, before it, a valid *)
(*             block above both last_block_id and 2 gp (C04p_late_failure_*_refuted).      *)
(* [PInvW c U ps lcs lcp]: lcs = stored part of the longest chain (tip first), lcp = its   *)
(* purged part (ghost); lcs ++ lcp is the whole chain down to its root.                    *)
(* ================================================================================== *)
Theorem C03p_inv_init : forall c U, PInvW c U (pinit c) [] [].
Proof. exact pinv_init. Qed.

(* totality: no panic site is reachable (in particular blocks.get(hash).unwrap() of delete_block) *)
Theorem C03p_add_block_total : forall c U, puniv c U -> valid_wf U ->
  forall ps b, PInvQ c U ps -> step_ok c U ps b -> exists ps' r, add_block_p c ps b = Ok (ps', r).
Proof. exact add_block_p_total. Qed.

Theorem C03p_inv_step : forall c U, puniv c U -> valid_wf U ->
  forall ps b ps' r,
  PInvQ c U ps -> step_ok c U ps b -> add_block_p c ps b = Ok (ps', r) -> PInvQ c U ps'.
Proof. exact pinv_step. Qed.

Theorem C03p_deliver_inv : forall c U, puniv c U -> valid_wf U ->
  forall bs ps, PInvQ c U ps -> steps_ok c U ps bs ->
  exists ps', deliver_p c ps bs = Ok ps' /\ PInvQ c U ps'.
Proof. exact deliver_p_inv. Qed.

(* what the invariant says.  Ledger: FULL statement (refuted, C03p_ledger_exact_refuted):
     forall k, In k (utxo st) <-> In k (replay (lcs ++ lcp)) /\ lc_outs lcs k
   i.e. "the spendable set is the replay of the whole chain from its root, restricted to the
   slips created by blocks that are still stored".  PARTIAL (proved): the two inclusions
     utxo st  is contained in  replay (lcs ++ lcp),  and
     replay (lcs ++ lcp) restricted to slips created by stored chain blocks  is contained in  utxo st;
   missing: utxo st contains no slip created by a purged block. *)
Theorem C03p_inv_meaning_partial : forall c U, puniv c U ->
  forall ps lcs lcp, PInvW c U ps lcs lcp ->
    let st := core ps in
    chain_ok U (lcs ++ lcp)
    /\ (forall b, In b lcs -> get_block st (b_hash b) = Some (mkSB b true))
    /\ (forall b, In b lcp -> get_block st (b_hash b) = None)
    /\ (forall h sb, get_block st h = Some sb -> s_lc sb = true -> In h (hashes lcs))
    /\ (forall k, In k (utxo st) -> In k (replay (lcs ++ lcp)))
    /\ (forall k, In k (replay (lcs ++ lcp)) -> lc_outs lcs k -> In k (utxo st))
    /\ (forall id h, lc_hash_at c (ring st) id = Some h <-> chain_index lcs id h)
    /\ latest_id st = Ok (tip_id lcs) /\ latest_hash st = Ok (tip_hash lcs)
    /\ last_id st = tip_id lcs /\ last_hash st = tip_hash lcs
    /\ gid ps = (if 2 * gp_of c + 1 <=? tip_id lcs then tip_id lcs - gp_of c else 0)
    /\ (forall h sb, get_block st h = Some sb -> tip_id lcs < b_id (s_b sb) + 2 * gp_of c)
    /\ (forall y, In y lcp -> b_id y + 2 * gp_of c <= tip_id lcs)
    /\ (forall h sb, get_block st h = Some sb ->
          In (h, b_id (s_b sb)) (ri_ent (item_at (ring st) (slot c (b_id (s_b sb))))))
    /\ (forall p e, (p < nslots c)%nat -> In e (ri_ent (item_at (ring st) p)) ->
          exists sb, get_block st (fst e) = Some sb /\ b_id (s_b sb) = snd e /\ slot c (snd e) = p)
    /\ (forall p, (p < nslots c)%nat -> NoDup (map fst (ri_ent (item_at (ring st) p)))).
Proof. exact pinv_meaning. Qed.

(* REFUTED: exact ledger after a purge.  gp = 2; block 4 spends slip 20 of block 2; block 2 is
   purged when the tip reaches 6; a reorganisation from block 3 (still stored) unwinds 4 and
   puts slip 20 back, although no stored block created it; it stays spendable for ever.
   Every delivery of this history satisfies step_ok (phistory_check) *)
Lemma C03p_ledger_exact_refuted :
  exists ps,
    phistory_check pw_cfg (pw_main ++ pw_deep) (hashes (pw_main ++ pw_deep)) = true
    /\ deliver_p pw_cfg (pinit pw_cfg) (pw_main ++ pw_deep) = Ok ps
    /\ latest_hash (core ps) = Ok 17
    /\ utxo (core ps) = [20; 41; 51; 61; 71]
    /\ get_block (core ps) 2 = None
    /\ forallb (fun hb => negb (memb 20 (blk_outs (s_b (snd hb))))) (blocks (core ps)) = true.
Proof. exact purge_resurrected_output_witness. Qed.

Theorem C03p_history_check_sound : forall c U order, phistory_check c U order = true ->
  puniv c U /\ valid_wf U
  /\ exists bs, lookup U order = Some bs /\ (forall b, In b bs -> In b U) /\ steps_ok c U (pinit c) bs.
Proof. exact phistory_check_ok. Qed.

Print Assumptions C03p_inv_init.
Print Assumptions C03p_add_block_total.
Print Assumptions C03p_inv_step.
Print Assumptions C03p_deliver_inv.
Print Assumptions C03p_inv_meaning_partial.
Print Assumptions C03p_ledger_exact_refuted.
Print Assumptions C03p_history_check_sound.
