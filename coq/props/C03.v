(* C03 — Ledger state equals a replay of the longest chain.
   Only statements here; proofs are in proofs/Chain{Basics,Inv,Wind,Add,Proofs,Check}.v.

   Model: model/Chain.v (Blockchain::add_block with blockring / ringitem, no-purge
   regime: every block id <= 2 * genesis_period).  Universe of blocks U
   ([univ_ok]: distinct non-zero hashes, 1 <= id <= 2 gp, child id = parent id + 1)
   whose VALID blocks are ledger-well-formed on the replay of their (valid)
   ancestors ([valid_wf]; this is what block validation is meant to guarantee, C01).

   Known class excluded by hypothesis (listed finding of the real code): a block
   delivered before its parent.  [parent_ok U st b] = the store is empty and b is
   a root of U, or b's parent is stored; [orphan_free] asks it at every delivery.
   Invalid blocks, duplicates, forks, repeated and failing reorganisations are
   all covered.  [Inv c U st] = exists lcr (the longest chain, tip first), InvW c U st lcr. *)
From Saito Require Import Base Chain ChainBasics ChainInv ChainWind ChainAdd ChainProofs ChainCheck.

(* ---- ledger algebra ---- *)
Theorem C03_undo_apply : forall u b,
  usorted u -> wf_against u b -> undo_block (apply_block u b) b = u.
Proof. exact undo_apply. Qed.

Theorem C03_apply_undo : forall u b,
  usorted u -> wf_applied u b -> apply_block (undo_block u b) b = u.
Proof. exact apply_undo. Qed.

Theorem C03_uins_sorted : forall k u, usorted u -> usorted (uins k u).
Proof. exact uins_sorted. Qed.
Theorem C03_udel_sorted : forall k u, usorted u -> usorted (udel k u).
Proof. exact udel_sorted. Qed.
Theorem C03_apply_block_sorted : forall u b, usorted u -> usorted (apply_block u b).
Proof. exact apply_block_sorted. Qed.
Theorem C03_undo_block_sorted : forall u b, usorted u -> usorted (undo_block u b).
Proof. exact undo_block_sorted. Qed.

(* ---- the invariant ---- *)
Theorem C03_inv_init : forall c U, InvW c U (init c) [].
Proof. exact inv_init. Qed.

Theorem C03_inv_step : forall c U, univ_ok c U -> valid_wf U ->
  forall st b st' r,
  Inv c U st -> In b U -> parent_ok U st b -> add_block c st b = Ok (st', r) -> Inv c U st'.
Proof. exact inv_step. Qed.

(* no panic site of the model (SITE_RING_INDEX, SITE_ID_UNDERFLOW, SITE_UNWRAP_BLOCK) is
   reachable, and the call is inside the modelled regime *)
Theorem C03_add_block_total : forall c U, univ_ok c U -> valid_wf U ->
  forall st b, Inv c U st -> In b U -> parent_ok U st b -> exists st' r, add_block c st b = Ok (st', r).
Proof. exact add_block_total. Qed.

(* what the invariant says; lc = rev lcr is the chain listed from the root *)
Theorem C03_inv_meaning : forall c U, univ_ok c U ->
  forall st lcr, InvW c U st lcr -> 1 <= 2 * gp_of c ->
    let lc := rev lcr in
    chain_ok U lcr
    /\ (forall b, In b lc -> get_block st (b_hash b) = Some (mkSB b true))
    /\ (forall h sb, get_block st h = Some sb -> s_lc sb = true -> In h (hashes lc))
    /\ utxo st = fold_left apply_block lc []
    /\ (forall id h, lc_hash_at c (ring st) id = Some h <-> chain_index lc id h)
    /\ latest_id st = Ok (tip_id lcr) /\ latest_hash st = Ok (tip_hash lcr)
    /\ last_id st = tip_id lcr /\ last_hash st = tip_hash lcr
    /\ (forall h sb, get_block st h = Some sb ->
          In (h, b_id (s_b sb)) (ri_ent (item_at (ring st) (slot c (b_id (s_b sb))))))
    /\ (forall p e, (p < nslots c)%nat -> In e (ri_ent (item_at (ring st) p)) ->
          exists sb, get_block st (fst e) = Some sb /\ b_id (s_b sb) = snd e /\ slot c (snd e) = p)
    /\ (forall p, (p < nslots c)%nat -> NoDup (map fst (ri_ent (item_at (ring st) p))))
    /\ length (ring st) = nslots c.
Proof. exact inv_meaning. Qed.

(* the property: after every orphan-free delivery list (valid, invalid, duplicate blocks,
   forks, reorganisations back and forth, failed reorganisations) add_block never
   panicked, and there is a chain lc (root first) of valid blocks of U, linked by
   b_prev and starting at a root, such that: exactly the blocks of lc carry the
   on-chain flag; the spendable set is the replay of lc from the empty set; the
   by-height index answers exactly the blocks of lc; the reported tip id / hash are
   those of the last block of lc (0 / 0 for the empty chain), and so are
   Blockchain.last_block_id / last_block_hash; every stored block has
   exactly one ring entry, in the slot of its id, and there are no other entries *)
Theorem C03_ledger_is_replay : forall c U, univ_ok c U -> valid_wf U ->
  forall bs, 1 <= 2 * gp_of c -> orphan_free c U (init c) bs ->
    exists st lc,
      deliver c (init c) bs = Ok st
      /\ chain_ok U (rev lc)
      /\ (forall b, In b lc -> get_block st (b_hash b) = Some (mkSB b true))
      /\ (forall h sb, get_block st h = Some sb -> s_lc sb = true -> In h (hashes lc))
      /\ utxo st = fold_left apply_block lc []
      /\ (forall id h, lc_hash_at c (ring st) id = Some h <-> chain_index lc id h)
      /\ latest_id st = Ok (tip_id (rev lc)) /\ latest_hash st = Ok (tip_hash (rev lc))
      /\ last_id st = tip_id (rev lc) /\ last_hash st = tip_hash (rev lc)
      /\ (forall h sb, get_block st h = Some sb ->
            In (h, b_id (s_b sb)) (ri_ent (item_at (ring st) (slot c (b_id (s_b sb))))))
      /\ (forall p e, (p < nslots c)%nat -> In e (ri_ent (item_at (ring st) p)) ->
            exists sb, get_block st (fst e) = Some sb /\ b_id (s_b sb) = snd e /\ slot c (snd e) = p)
      /\ (forall p, (p < nslots c)%nat -> NoDup (map fst (ri_ent (item_at (ring st) p))))
      /\ length (ring st) = nslots c.
Proof. exact ledger_is_replay. Qed.

(* Blockchain.last_block_id / last_block_hash ARE the reported tip in every state of an
   orphan-free history (0 / 0 while the chain is empty) — holds since the repair of
   FinishWithFailure (resync_last); before it a failed multi-block reorganisation left
   them on a block of the abandoned chain *)
Theorem C03_last_is_tip : forall c U, univ_ok c U ->
  forall st, Inv c U st ->
  exists i h, latest_id st = Ok i /\ latest_hash st = Ok h /\ last_id st = i /\ last_hash st = h.
Proof. exact last_is_tip. Qed.

(* the executable checker of the hypotheses is sound *)
Theorem C03_history_check_sound : forall c U order, history_check c U order = true ->
  univ_ok c U /\ valid_wf U
  /\ exists bs, lookup U order = Some bs /\ (forall b, In b bs -> In b U) /\ orphan_free c U (init c) bs.
Proof. exact history_check_ok. Qed.

(* regression example of the repaired defect: the failed reorganisation 12,13,14,(15 invalid)
   against 1,2,3 takes 11 dispatcher steps and leaves last_block_* on the tip 3; they
   follow the extension by 4 *)
Example C03_last_is_tip_example :
  exists st7 st,
    history_check wit_cfg wit_last_U (hashes wit_last_U) = true
    /\ deliver wit_cfg (init wit_cfg) (firstn 7 wit_last_U) = Ok st7
    /\ latest_id st7 = Ok 3 /\ latest_hash st7 = Ok 3 /\ last_id st7 = 3 /\ last_hash st7 = 3
    /\ wsteps st7 = 11
    /\ deliver wit_cfg (init wit_cfg) wit_last_U = Ok st
    /\ latest_id st = Ok 4 /\ latest_hash st = Ok 4
    /\ last_id st = 4 /\ last_hash st = 4.
Proof. exact last_is_tip_example. Qed.

(* non-vacuity: the worked universe and delivery order meet every hypothesis *)
Example C03_universe_example :
  univ_ok ex_cfg ex_U /\ valid_wf ex_U
  /\ exists bs, lookup ex_U ex_order = Some bs /\ (forall b, In b bs -> In b ex_U)
                /\ orphan_free ex_cfg ex_U (init ex_cfg) bs.
Proof. apply history_check_ok. vm_compute. reflexivity. Qed.

(* non-vacuity: a universe with transfers, four forks, invalid blocks at the first /
   middle / last position of a candidate chain, a successful reorganisation and a
   duplicate satisfies the hypotheses; the final ledger is the replay of 1,12,13,14 *)
Example C03_example :
  history_check ex_cfg ex_U ex_order = true
  /\ exists bs st, lookup ex_U ex_order = Some bs /\ deliver ex_cfg (init ex_cfg) bs = Ok st
       /\ utxo st = [11; 42; 43] /\ latest_hash st = Ok 14.
Proof.
  split; [vm_compute; reflexivity|]. eexists. eexists.
  split; [vm_compute; reflexivity|]. split; [vm_compute; reflexivity|].
  split; vm_compute; reflexivity.
Qed.

Print Assumptions C03_undo_apply.
Print Assumptions C03_apply_undo.
Print Assumptions C03_inv_init.
Print Assumptions C03_inv_step.
Print Assumptions C03_add_block_total.
Print Assumptions C03_inv_meaning.
Print Assumptions C03_ledger_is_replay.
Print Assumptions C03_last_is_tip.
Print Assumptions C03_history_check_sound.
