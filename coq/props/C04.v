(* C04 — A rejected block leaves no trace and block processing always returns.
   Only statements here; proofs are in proofs/Chain*.v.  Setting as in props/C03.v
   (model/Chain.v with the repaired dispatcher; orphan histories are the listed
   known finding and are excluded by [parent_ok]). *)
From Saito Require Import Base Chain ChainBasics ChainInv ChainWind ChainAdd ChainProofs ChainCheck.

(* the observation: stored blocks with their flags, spendable set, by-height index at
   every id, reported tip id and hash, Blockchain.last_block_id / last_block_hash.  (A record of these with function
   extensionality is avoided: [obs_eq c st st'] is the component-wise equality
     blocks st' = blocks st /\ utxo st' = utxo st
     /\ (forall id, lc_hash_at c (ring st') id = lc_hash_at c (ring st) id)
     /\ latest_id st' = latest_id st /\ latest_hash st' = latest_hash st
     /\ last_id st' = last_id st /\ last_hash st' = last_hash st.) *)

(* a block that is not accepted — already known, too old / retry, invalid on its own,
   or triggering a reorganisation that fails at the first, a middle or the last block
   of the candidate chain, with empty or non-empty competing chain — leaves no trace *)
Theorem C04_rejected_no_trace : forall c U, univ_ok c U -> valid_wf U ->
  forall st b st' r,
  Inv c U st -> In b U -> parent_ok U st b -> add_block c st b = Ok (st', r) ->
  r = Invalid \/ r = Exists \/ r = Retry -> obs_eq c st st'.
Proof. exact rejected_no_trace. Qed.

(* termination: all functions of the model are total; the content is the bound on the
   number of wind_chain / unwind_chain calls of the dispatcher (ghost counter wsteps,
   counted on the implementation by the cfg(saito_verif) hook) *)
Theorem C04_validate_steps_bounded : forall c st new old st' ok,
  validate c st new old = Ok (st', ok) -> wsteps st' <= 2 * (Nlen new + Nlen old).
Proof. exact validate_steps. Qed.

(* for every state whatsoever (no invariant, orphans included) *)
Theorem C04_steps_bounded_any : forall c st b st' r,
  add_block c st b = Ok (st', r) ->
  wsteps st' = wsteps st \/ wsteps st' <= 4 * N.of_nat (length (blocks st)) + 8.
Proof. exact steps_bounded_any. Qed.

(* under the invariant: new / old are the two competing segments of that call *)
Theorem C04_steps_bounded : forall c U, univ_ok c U -> valid_wf U ->
  forall st b st' r,
  Inv c U st -> In b U -> parent_ok U st b -> add_block c st b = Ok (st', r) ->
  wsteps st' = wsteps st
  \/ exists new old : list blk, (length new + length old <= S (length (blocks st)))%nat
                                /\ wsteps st' <= 2 * (Nlen new + Nlen old).
Proof. exact steps_bounded. Qed.

(* non-vacuity: in the worked history (see proofs/ChainCheck.v) the deliveries 24 (invalid child
   of the tip, empty competing chain), 35 (candidate 32,33,34,35 with the MIDDLE block 33
   invalid), 44 (candidate 42,43,44 with the FIRST block invalid), 54 (candidate 52,53,54
   with the LAST block invalid), 15 and the duplicate 2 are rejected — result codes
   5 = Invalid, 3 = Exists — after 1, 7, 5, 9, 1 dispatcher steps *)
Example C04_example :
  history_check ex_cfg ex_U ex_order = true
  /\ ex_results = [[1; 1]; [1; 1]; [1; 1]; [5; 1]; [2; 1]; [2; 1]; [2; 1]; [5; 7]; [2; 7]; [2; 7];
                   [5; 5]; [2; 5]; [2; 5]; [5; 9]; [2; 9]; [2; 9]; [1; 5]; [5; 1]; [3; 1]].
Proof. split; vm_compute; reflexivity. Qed.

Print Assumptions C04_rejected_no_trace.
Print Assumptions C04_validate_steps_bounded.
Print Assumptions C04_steps_bounded_any.
Print Assumptions C04_steps_bounded.
