(* C04 — A rejected block leaves no trace and block processing always returns.
   Only statements here; proofs are in proofs/Chain*.v.  Setting as in props/C03.v
   (model/Chain.v with the repaired dispatcher; orphan histories are the listed
   known finding and are excluded by [parent_ok]). *)
From Saito Require Import Base Chain ChainBasics ChainInv ChainWind ChainAdd ChainProofs ChainCheck.
From Saito Require Import PurgeInv PurgeWind PurgeAdd PurgeProofs PurgeCheck ChainPurge.

(* the observation: stored blocks with their flags, spendable set, by-height index at
   every id, reported tip id and hash, Blockchain.last_block_id / last_block_hash.  (A record of these with function
   extensionality is avoided: [obs_eq c st st'] is the component-wise equality
     blocks st' = blocks st /\ utxo st' = utxo st
     /\ (forall id, lc_hash_at c (ring st') id = lc_hash_at c (ring st) id)
     /\ latest_id st' = latest_id st /\ latest_hash st' = latest_hash st
     /\ last_id st' = last_id st /\ last_hash st' = last_hash st.) *)

(* a block that is not accepted — already known, too old / retry, invalid on its own,
   or triggering a reorganisation that fails at the first, a middle or the last block
   of the candidate chain, with empty or non-empty competing chain — leaves no trace *)
Theorem C04_rejected_no_trace : forall c U, univ_ok c U -> valid_wf U ->
  forall st b st' r,
  Inv c U st -> In b U -> parent_ok U st b -> add_block c st b = Ok (st', r) ->
  r = Invalid \/ r = Exists \/ r = Retry -> obs_eq c st st'.
Proof. exact rejected_no_trace. Qed.

(* termination: all functions of the model are total; the content is the bound on the
   number of wind_chain / unwind_chain calls of the dispatcher (ghost counter wsteps,
   counted on the implementation by the cfg(saito_verif) hook) *)
Theorem C04_validate_steps_bounded : forall c st new old st' ok,
  validate c st new old = Ok (st', ok) -> wsteps st' <= 2 * (Nlen new + Nlen old).
Proof. exact validate_steps. Qed.

(* for every state whatsoever (no invariant, orphans included) *)
Theorem C04_steps_bounded_any : forall c st b st' r,
  add_block c st b = Ok (st', r) ->
  wsteps st' = wsteps st \/ wsteps st' <= 4 * N.of_nat (length (blocks st)) + 8.
Proof. exact steps_bounded_any. Qed.

(* under the invariant: new / old are the two competing segments of that call *)
Theorem C04_steps_bounded : forall c U, univ_ok c U -> valid_wf U ->
  forall st b st' r,
  Inv c U st -> In b U -> parent_ok U st b -> add_block c st b = Ok (st', r) ->
  wsteps st' = wsteps st
  \/ exists new old : list blk, (length new + length old <= S (length (blocks st)))%nat
                                /\ wsteps st' <= 2 * (Nlen new + Nlen old).
Proof. exact steps_bounded. Qed.

(* non-vacuity: in the worked history (see proofs/ChainCheck.v) the deliveries 24 (invalid child
   of the tip, empty competing chain), 35 (candidate 32,33,34,35 with the MIDDLE block 33
   invalid), 44 (candidate 42,43,44 with the FIRST block invalid), 54 (candidate 52,53,54
   with the LAST block invalid), 15 and the duplicate 2 are rejected — result codes
   5 = Invalid, 3 = Exists — after 1, 7, 5, 9, 1 dispatcher steps *)
Example C04_example :
  history_check ex_cfg ex_U ex_order = true
  /\ ex_results = [[1; 1]; [1; 1]; [1; 1]; [5; 1]; [2; 1]; [2; 1]; [2; 1]; [5; 7]; [2; 7]; [2; 7];
                   [5; 5]; [2; 5]; [2; 5]; [5; 9]; [2; 9]; [2; 9]; [1; 5]; [5; 1]; [3; 1]].
Proof. split; vm_compute; reflexivity. Qed.

Print Assumptions C04_rejected_no_trace.
Print Assumptions C04_validate_steps_bounded.
Print Assumptions C04_steps_bounded_any.
Print Assumptions C04_steps_bounded.

(* ================================================================================== *)
(* ALL BLOCK IDS (model/ChainPurge.v, see the header in props/C03.v)                      *)
(* ================================================================================== *)
(* PARTIAL: a rejected block leaves stored blocks with flags, by-height index, reported tip,
   last block and genesis_block_id exactly as they were, and the invariant with the same chain
   (hence the ledger bounds of C03p_inv_meaning_partial); missing: equality of the spendable
   set itself (it is not a function of the chain once slips of purged blocks can be resurrected,
   C03p_ledger_exact_refuted), and the step bound of the dispatcher for the new model *)
Theorem C04p_rejected_no_trace_partial : forall c U, puniv c U -> valid_wf U ->
  forall ps lcs lcp b ps' r,
  PInvW c U ps lcs lcp -> step_ok c U ps b -> add_block_p c ps b = Ok (ps', r) ->
  r = Invalid \/ r = Exists \/ r = Retry ->
  PInvW c U ps' lcs lcp
  /\ blocks (core ps') = blocks (core ps)
  /\ (forall id, lc_hash_at c (ring (core ps')) id = lc_hash_at c (ring (core ps)) id)
  /\ latest_id (core ps') = latest_id (core ps) /\ latest_hash (core ps') = latest_hash (core ps)
  /\ last_id (core ps') = last_id (core ps) /\ last_hash (core ps') = last_hash (core ps)
  /\ gid ps' = gid ps.
Proof. exact rejected_no_trace_p_partial. Qed.

(* REFUTED without no_late: the purge runs inside wind_chain, i.e. also on behalf of a candidate
   chain that is rejected afterwards.  gp = 2, chain 1..6; side chain 26 <- 27 on block 5, lighter;
   then 28 (inflated burn fee, invalid): winding 27 (id 7) purges block 3; after the rejection the
   tip is 6 again but block 3, its slip 30 and genesis_block_id = 4 are gone *)
Lemma C04p_late_failure_trace_refuted :
  exists ps ps',
    phistory_check pw_cfg (pw_main ++ pw_late ++ [pw_late_b]) (hashes (pw_main ++ pw_late)) = true
    /\ deliver_p pw_cfg (pinit pw_cfg) (pw_main ++ pw_late) = Ok ps
    /\ step_ok_b pw_cfg (pw_main ++ pw_late ++ [pw_late_b]) ps pw_late_b = false
    /\ get_block (core ps) (b_prev pw_late_b) <> None
    /\ add_block_p pw_cfg ps pw_late_b = Ok (ps', Invalid)
    /\ latest_hash (core ps) = Ok 6 /\ latest_hash (core ps') = Ok 6
    /\ get_block (core ps) 3 <> None /\ get_block (core ps') 3 = None
    /\ utxo (core ps) = [30; 40; 50; 60] /\ utxo (core ps') = [40; 50; 60]
    /\ gid ps = 4 /\ gid ps' = 5.
Proof. exact purge_late_failure_witness. Qed.

(* REFUTED without no_late: with a candidate of five valid blocks the purge reaches the old tip;
   restoring the old chain then unwraps a deleted block: add_block panics *)
Lemma C04p_late_failure_panic_refuted :
  exists ps,
    phistory_check pw_cfg (pw_main ++ pw_long ++ [pw_long_b]) (hashes (pw_main ++ pw_long)) = true
    /\ deliver_p pw_cfg (pinit pw_cfg) (pw_main ++ pw_long) = Ok ps
    /\ step_ok_b pw_cfg (pw_main ++ pw_long ++ [pw_long_b]) ps pw_long_b = false
    /\ get_block (core ps) (b_prev pw_long_b) <> None
    /\ add_block_p pw_cfg ps pw_long_b = Panic SITE_UNWRAP_BLOCK.
Proof. exact purge_late_failure_panic_witness. Qed.

Print Assumptions C04p_rejected_no_trace_partial.
Print Assumptions C04p_late_failure_trace_refuted.
Print Assumptions C04p_late_failure_panic_refuted.
