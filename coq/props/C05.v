(* C05 — Fork choice: longest, heavy-enough, valid chain with enough golden tickets.
   Only statements here; proofs are in proofs/Chain*.v.  Setting as in props/C03.v.
   [InvW c U st lcr]: lcr is the longest chain of st, tip first.  In the statements
   the candidate chain is b :: newtl (tip first) sitting on the chain block
   [hd common]; oldb is the part of the current chain above that block, so
   lcr = oldb ++ common and the new chain is (b :: newtl) ++ common. *)
From Saito Require Import Base Chain ChainBasics ChainInv ChainWind ChainAdd ChainProofs ChainCheck.
From Saito Require Import PurgeInv PurgeWind PurgeAdd PurgeProofs PurgeCheck ChainPurge.

(* the tip moves only to a chain that is strictly longer over the diverging segment,
   at least as heavy in burn fee, valid block by block, and passes the golden-ticket
   density test at the new tip; the answer is then OnChain *)
Theorem C05_tip_moves_only_if : forall c U, univ_ok c U -> valid_wf U ->
  forall st lcr b st' r,
  InvW c U st lcr -> In b U -> parent_ok U st b -> add_block c st b = Ok (st', r) ->
  latest_hash st' <> latest_hash st ->
  r = OnChain
  /\ exists newtl oldb common,
       lcr = oldb ++ common /\ InvW c U st' ((b :: newtl) ++ common)
       /\ linked_dn U (b :: newtl) common
       /\ (forall y, In y newtl -> sget (blocks st) (b_hash y) = Some y /\ ~ In y lcr)
       /\ (length oldb < length (b :: newtl))%nat
       /\ bf_total oldb <= bf_total (b :: newtl)
       /\ forallb b_valid (b :: newtl) = true
       /\ gt_count_valid st (b_prev b) (b_gt b) = true
       /\ tip_id lcr - gp_of c < b_id b /\ tip_id lcr < b_id b
       /\ latest_hash st' = Ok (b_hash b).
Proof. exact tip_moves_only_if. Qed.

(* ... and OnChain is answered only together with such a move *)
Theorem C05_onchain_moves_tip : forall c U, univ_ok c U -> valid_wf U ->
  forall st lcr b st',
  InvW c U st lcr -> In b U -> parent_ok U st b -> add_block c st b = Ok (st', OnChain) ->
  latest_hash st' = Ok (b_hash b) /\ latest_hash st' <> latest_hash st.
Proof. exact onchain_moves_tip. Qed.

(* complete characterisation of one call (the three cases: already known; answered
   Retry / Invalid without touching anything; main case, see [main_case] in
   proofs/ChainProofs.v: the answer is OnChain / Invalid / OffChain according to
   [fork_choice] (window, strictly longer, burn fee) and [cand_valid] (golden-ticket
   window at the new tip, every block of the candidate valid), the new chain is
   (b :: newtl) ++ common or the old one, a rejected block is removed again) *)
Theorem C05_add_block_characterisation : forall c U, univ_ok c U -> valid_wf U ->
  forall st lcr b,
  InvW c U st lcr -> In b U -> parent_ok U st b ->
  exists st' r, add_block c st b = Ok (st', r) /\
    ((get_block st (b_hash b) <> None /\ r = Exists /\ st' = st)
     \/ (get_block st (b_hash b) = None /\ (r = Retry \/ r = Invalid) /\ st' = st
         /\ blocks st = [] /\ ring_empty st = false /\ b_prev b <> 0 /\ snd c = true)
     \/ (get_block st (b_hash b) = None
         /\ (blocks st = [] -> ring_empty st = true \/ b_prev b = 0 \/ snd c = false)
         /\ exists newtl oldb common, main_case c U st lcr b st' r newtl oldb common)).
Proof. exact add_block_spec. Qed.

(* the reported height never decreases, whatever the answer *)
Theorem C05_height_monotone : forall c U, univ_ok c U -> valid_wf U ->
  forall st lcr b st' r,
  InvW c U st lcr -> In b U -> parent_ok U st b -> add_block c st b = Ok (st', r) ->
  exists i i', latest_id st = Ok i /\ latest_id st' = Ok i' /\ i <= i'.
Proof. exact height_monotone. Qed.

(* conversely, a block whose arrival completes such a chain is adopted *)
Theorem C05_adopts : forall c U, univ_ok c U -> valid_wf U ->
  forall st lcr b newtl oldb common,
  InvW c U st lcr -> In b U -> get_block st (b_hash b) = None ->
  lcr = oldb ++ common -> common <> [] ->
  linked_dn U (b :: newtl) common ->
  (forall y, In y newtl -> sget (blocks st) (b_hash y) = Some y /\ ~ In y lcr) ->
  (length oldb < length (b :: newtl))%nat ->
  bf_total oldb <= bf_total (b :: newtl) ->
  forallb b_valid (b :: newtl) = true ->
  gt_count_valid st (b_prev b) (b_gt b) = true ->
  tip_id lcr - gp_of c < b_id b ->
  exists st', add_block c st b = Ok (st', OnChain)
              /\ InvW c U st' ((b :: newtl) ++ common) /\ latest_hash st' = Ok (b_hash b).
Proof. exact adopts. Qed.

(* the first block: a valid root offered to an empty store is adopted (after a rejected
   first block the code answers Retry / Invalid to a root with non-zero parent hash
   when initial_loading_completed is set; hence the last hypothesis) *)
Theorem C05_adopts_first : forall c U, univ_ok c U -> valid_wf U ->
  forall st b,
  Inv c U st -> In b U -> blocks st = [] -> is_root U b -> b_valid b = true ->
  (ring_empty st = true \/ b_prev b = 0 \/ snd c = false) ->
  exists st', add_block c st b = Ok (st', OnChain)
              /\ InvW c U st' [b] /\ latest_hash st' = Ok (b_hash b).
Proof. exact adopts_first. Qed.

(* the last hypothesis of C05_adopts_first cannot be dropped: with
   initial_loading_completed, after the very first block offered was rejected, a valid
   root with a non-zero previous-block hash is answered Retry for ever *)
Lemma C05_adopts_first_needs_cfg_refuted :
  exists st st',
    history_check wit_boot_cfg wit_boot_U [1; 2] = true
    /\ deliver wit_boot_cfg (init wit_boot_cfg) [wB 1 0 1 1 true false] = Ok st
    /\ blocks st = [] /\ ring_empty st = false
    /\ is_root wit_boot_U (wB 2 77 3 1 true true)
    /\ add_block wit_boot_cfg st (wB 2 77 3 1 true true) = Ok (st', Retry) /\ st' = st.
Proof. exact bootstrap_after_rejected_first_witness. Qed.

(* a block that arrives before its (non-zero) parent: with initial_loading_completed the
   answer is Retry / Invalid and the state is untouched *)
Theorem C05_orphan_inert_with_loading_completed : forall c U, univ_ok c U ->
  forall st b,
  Inv c U st -> snd c = true -> ring_empty st = false -> b_id b <= 2 * gp_of c ->
  get_block st (b_hash b) = None -> get_block st (b_prev b) = None -> b_prev b <> 0 ->
  add_block c st b = Ok (st, Retry) \/ add_block c st b = Ok (st, Invalid).
Proof. exact orphan_inert_loading_completed. Qed.

(* REFUTED (listed finding): without initial_loading_completed — no crate ever sets it —
   "a block that arrives before its parent neither moves the tip nor disturbs the chain
   index" fails.  Chain 1 <- 2 <- 3 delivered in order; block 20 (id 2, unknown parent 19)
   is answered by the out-of-order branch, which clears the index above id 2: the
   reported tip goes back from (3, hash 3) to (2, hash 2), block 3 loses its flag *)
Lemma C05_orphan_disturbs_refuted :
  exists st st' r,
    history_check wit_cfg wit_orphan_U [1; 2; 3] = true
    /\ deliver wit_cfg (init wit_cfg) wit_orphan_U = Ok st
    /\ snd wit_cfg = false /\ b_prev wit_orphan_b <> 0
    /\ get_block st (b_prev wit_orphan_b) = None /\ get_block st (b_hash wit_orphan_b) = None
    /\ add_block wit_cfg st wit_orphan_b = Ok (st', r)
    /\ latest_id st = Ok 3 /\ latest_hash st = Ok 3
    /\ latest_id st' = Ok 2 /\ latest_hash st' = Ok 2
    /\ lc_hash_at wit_cfg (ring st) 3 = Some 3 /\ lc_hash_at wit_cfg (ring st') 3 = None
    /\ (exists sb, get_block st' 3 = Some sb /\ s_lc sb = false).
Proof. exact orphan_disturbs_witness. Qed.

(* REFUTED (listed finding): "at least two golden tickets in EVERY window of six
   consecutive blocks" fails: the density test runs once per adoption, for the window
   that ends at the new tip (C05_tip_moves_only_if is all that is checked).  Main chain
   1..7, side chain 12..18 on block 1 with tickets only in 17 and 18: the side chain is
   adopted when 18 arrives although the six consecutive chain blocks 12..17 hold one ticket *)
Lemma C05_gt_window_every_six_refuted :
  exists st,
    history_check wit_cfg wit_gt_U (hashes wit_gt_U) = true
    /\ deliver wit_cfg (init wit_cfg) wit_gt_U = Ok st
    /\ latest_hash st = Ok 18
    /\ (forall b, In b wit_gt_chain -> get_block st (b_hash b) = Some (mkSB b true))
    /\ chain_ok wit_gt_U (rev wit_gt_chain)
    /\ length (firstn 6 (skipn 1 wit_gt_chain)) = 6%nat
    /\ countb b_gt (firstn 6 (skipn 1 wit_gt_chain)) = 1
    (* the same blocks offered one by one on their own: block 16 is refused *)
    /\ (exists st5 st6, deliver wit_cfg (init wit_cfg) (firstn 5 wit_gt_chain) = Ok st5
          /\ add_block wit_cfg st5 (wB 16 15 6 1 false true) = Ok (st6, Invalid)).
Proof. exact gt_window_witness. Qed.

(* non-vacuity: in the worked history the arrival of 14 completes 12 <- 13 <- 14 on block 1
   (longer than 2 <- 3, same burn fee per block) and is adopted after 5 dispatcher steps *)
Example C05_example :
  history_check ex_cfg ex_U ex_order = true /\ nth 16 ex_results [] = [1; 5].
Proof. split; vm_compute; reflexivity. Qed.

Print Assumptions C05_tip_moves_only_if.
Print Assumptions C05_onchain_moves_tip.
Print Assumptions C05_add_block_characterisation.
Print Assumptions C05_height_monotone.
Print Assumptions C05_adopts.
Print Assumptions C05_adopts_first.
Print Assumptions C05_orphan_inert_with_loading_completed.
Print Assumptions C05_adopts_first_needs_cfg_refuted.
Print Assumptions C05_orphan_disturbs_refuted.
Print Assumptions C05_gt_window_every_six_refuted.

(* ================================================================================== *)
(* ALL BLOCK IDS (model/ChainPurge.v, see the header in props/C03.v)                      *)
(* ================================================================================== *)
Theorem C05p_tip_moves_only_if : forall c U, puniv c U -> valid_wf U ->
  forall ps lcs lcp b ps' r,
  PInvW c U ps lcs lcp -> step_ok c U ps b -> add_block_p c ps b = Ok (ps', r) ->
  latest_hash (core ps') <> latest_hash (core ps) ->
  r = OnChain
  /\ exists newtl oldb common lcs' lcp',
       lcs = oldb ++ common /\ PInvW c U ps' lcs' lcp'
       /\ lcs' ++ lcp' = (b :: newtl) ++ common ++ lcp /\ (exists r0, lcs' = b :: r0)
       /\ linked_dn U (b :: newtl) (common ++ lcp)
       /\ (length oldb < length (b :: newtl))%nat
       /\ bf_total oldb <= bf_total (b :: newtl)
       /\ forallb b_valid (b :: newtl) = true
       /\ gt_count_valid (core ps) (b_prev b) (b_gt b) = true
       /\ tip_id lcs - gp_of c < b_id b /\ tip_id lcs < b_id b
       /\ latest_hash (core ps') = Ok (b_hash b).
Proof. exact tip_moves_only_if_p. Qed.

Theorem C05p_height_monotone : forall c U, puniv c U -> valid_wf U ->
  forall ps lcs lcp b ps' r,
  PInvW c U ps lcs lcp -> step_ok c U ps b -> add_block_p c ps b = Ok (ps', r) ->
  exists i i', latest_id (core ps) = Ok i /\ latest_id (core ps') = Ok i' /\ i <= i'.
Proof. exact height_monotone_p. Qed.

(* complete characterisation of one call (record pmain in proofs/PurgeProofs.v); the converse
   direction of fork choice ("adopts") is the q_res / q_on part of it *)
Theorem C05p_add_block_characterisation : forall c U, puniv c U -> valid_wf U ->
  forall ps lcs lcp b,
  PInvW c U ps lcs lcp -> step_ok c U ps b ->
  exists ps' r, add_block_p c ps b = Ok (ps', r) /\
    ((get_block (core ps) (b_hash b) <> None /\ r = Exists /\ ps' = ps)
     \/ (get_block (core ps) (b_hash b) = None /\ (r = Retry \/ r = Invalid) /\ ps' = ps
         /\ blocks (core ps) = [] /\ ring_empty (core ps) = false /\ b_prev b <> 0 /\ snd c = true)
     \/ (get_block (core ps) (b_hash b) = None
         /\ exists newtl oldb common, pmain c U ps lcs lcp b ps' r newtl oldb common)).
Proof. exact add_block_p_spec. Qed.

(* REFUTED without conn: a block whose parent IS stored, on a stored fork whose fork point has
   been purged, takes the out-of-order branch of add_block (the listed finding orphan-branch
   without any orphan): gp = 2, fork 13 <- 14 on block 2, chain up to 6 (block 2 purged), then 15
   on 14: the reported tip goes back from 6 to 5 and block 6 loses its on-chain flag *)
Lemma C05p_disconnected_fork_refuted :
  exists ps ps' r,
    phistory_check pw_cfg (pw_fork ++ [pw_fork_b]) (hashes pw_fork) = true
    /\ deliver_p pw_cfg (pinit pw_cfg) pw_fork = Ok ps
    /\ step_ok_b pw_cfg (pw_fork ++ [pw_fork_b]) ps pw_fork_b = false
    /\ get_block (core ps) (b_prev pw_fork_b) <> None
    /\ add_block_p pw_cfg ps pw_fork_b = Ok (ps', r)
    /\ latest_id (core ps) = Ok 6 /\ latest_id (core ps') = Ok 5
    /\ lc_hash_at pw_cfg (ring (core ps)) 6 = Some 6 /\ lc_hash_at pw_cfg (ring (core ps')) 6 = None
    /\ (exists sb, get_block (core ps') 6 = Some sb /\ s_lc sb = false).
Proof. exact purge_disconnected_fork_witness. Qed.

Print Assumptions C05p_tip_moves_only_if.
Print Assumptions C05p_height_monotone.
Print Assumptions C05p_add_block_characterisation.
Print Assumptions C05p_disconnected_fork_refuted.
