(* C06 — A block's identity binds its content and its creator.
   Statements only; proofs in proofs/BlockIdProofs.v.  Model: model/BlockId.v over
   model/Merkle.v.  Hashes are free terms: the theorems are the statement
   "... or the real hash has a collision" with the collision case idealised away;
   the merkle tree of merkle.rs has no domain separation between a leaf and an
   inner node, which the free-term model also idealises away (leaves are opaque
   values distinct from inner nodes) — both are named in the trusted base. *)
From Saito Require Import Base Bytes BytesProofs Merkle BlockId BlockIdProofs HashBridge.

(* the signed header bytes determine every signed field (fixed-width big-endian
   fields in the order of Block::serialize_for_signature) *)
Theorem C06_header_bytes_injective : forall h1 h2,
  wf_header h1 -> wf_header h2 -> hdr_bytes h1 = hdr_bytes h2 ->
  h_id h1 = h_id h2 /\ h_ts h1 = h_ts h2 /\ h_prev h1 = h_prev h2
  /\ h_creator h1 = h_creator h2 /\ h_nums h1 = h_nums h2.
Proof. exact hdr_bytes_inj. Qed.

(* the merkle root (as computed by MerkleTree::generate, odd nodes carried up)
   determines the ordered list of transaction hashes *)
Theorem C06_root_determines_leaves : forall txs1 txs2 r ids1 ids2,
  txs1 <> [] -> txs2 <> [] ->
  merkle_root_of txs1 = Ok r -> merkle_root_of txs2 = Ok r ->
  leaf_ids (leaves txs1) = Some ids1 -> leaf_ids (leaves txs2) = Some ids2 ->
  ids1 = ids2.
Proof. exact merkle_root_determines_leaves. Qed.

(* two blocks that pass the identity checks of block validation under the same
   hash carry the same ordered list of transaction hashes, the same creator and
   the same signed header fields *)
Theorem C06_same_hash_same_content : forall b1 b2 ids1 ids2,
  wf_header (ab_hdr b1) -> wf_header (ab_hdr b2) ->
  identity_checks b1 = true -> identity_checks b2 = true ->
  ab_txs b1 <> [] -> ab_txs b2 <> [] ->
  leaf_ids (leaves (ab_txs b1)) = Some ids1 -> leaf_ids (leaves (ab_txs b2)) = Some ids2 ->
  block_identity (ab_hdr b1) = block_identity (ab_hdr b2) ->
  ids1 = ids2
  /\ h_creator (ab_hdr b1) = h_creator (ab_hdr b2)
  /\ h_id (ab_hdr b1) = h_id (ab_hdr b2) /\ h_ts (ab_hdr b1) = h_ts (ab_hdr b2)
  /\ h_nums (ab_hdr b1) = h_nums (ab_hdr b2).
Proof. exact same_identity_same_content. Qed.

(* the header is signed by the stated creator *)
Theorem C06_creator_bound : forall b, identity_checks b = true -> ab_creator_sig_ok b = true.
Proof. exact accepted_is_signed. Qed.

(* changing, adding, removing or reordering a transaction after signing (same
   header, hence same hash) makes the block unacceptable *)
Theorem C06_edit_rejected : forall b b' ids ids',
  identity_checks b = true -> ab_hdr b' = ab_hdr b ->
  ab_txs b <> [] -> ab_txs b' <> [] ->
  leaf_ids (leaves (ab_txs b)) = Some ids -> leaf_ids (leaves (ab_txs b')) = Some ids' ->
  ids <> ids' -> identity_checks b' = false.
Proof. exact edit_rejected. Qed.

(* non-vacuity: a three-transaction block passes the checks; swapping two transactions fails them *)
Example C06_example :
  let t n := Merkle.mkTx 0 1 0 0 0 [] [] 0 0 0 (Some (Leaf n)) in
  let txs := [t 5; t 6; t 7] in
  match merkle_root_of txs with
  | Ok r => identity_checks (mkAB (mkH 1 2 [] [] r []) txs true) = true
            /\ identity_checks (mkAB (mkH 1 2 [] [] r []) [t 6; t 5; t 7] true) = false
  | _ => False
  end.
Proof. vm_compute. split; reflexivity. Qed.

(* ------------------------------------------------------------------------------
   The same statements for an ARBITRARY concrete hash function H (bytes -> 32 bytes)
   instead of free terms: the collision case is an explicit disjunct, and the missing
   leaf/inner-node domain separation of merkle.rs is replaced by the premise that the
   signed bytes of a transaction are never exactly 64 bytes long (an inner node hashes
   exactly 64 bytes).  [bytes_of] maps an interned transaction-hash id to the bytes that
   are hashed.  Proofs in proofs/HashBridge.v. *)

(* the 32-byte value of a term is injective up to an exhibited collision *)
Theorem C06_hash_terms_faithful : forall (H : list N -> list N) (bytes_of : N -> list N),
  (forall x, length (H x) = 32%nat) -> (forall a b, bytes_of a = bytes_of b -> a = b) ->
  forall t1 t2, leaf_ok bytes_of t1 -> leaf_ok bytes_of t2 ->
  ev H bytes_of t1 = ev H bytes_of t2 -> t1 = t2 \/ Collision H.
Proof. exact ev_inj. Qed.

(* the merkle root computed over concrete 32-byte leaf values (the loop of merkle.rs) is
   the value of the symbolic root *)
Theorem C06_concrete_root_is_term_value : forall (H : list N -> list N) (bytes_of : N -> list N) txs ts r,
  txs <> [] -> all_some (leaves txs) = Some ts -> merkle_root_of txs = Ok r ->
  cmerkle_root H (map (ev H bytes_of) ts) = Some (ev H bytes_of r).
Proof. exact cmerkle_root_is_ev. Qed.

(* equal concrete block hashes H (prev ++ H (signed bytes)): equal identity, or a collision *)
Theorem C06_concrete_hash_binds : forall (H : list N -> list N) (bytes_of : N -> list N),
  (forall x, length (H x) = 32%nat) -> (forall a b, bytes_of a = bytes_of b -> a = b) ->
  forall h1 h2, wf_header h1 -> wf_header h2 ->
  leaf_ok bytes_of (h_root h1) -> leaf_ok bytes_of (h_root h2) ->
  cblock_hash H bytes_of h1 = cblock_hash H bytes_of h2 ->
  block_identity h1 = block_identity h2 \/ Collision H.
Proof. exact cblock_hash_binds. Qed.

(* C06 end to end: two blocks that pass the identity checks and have the same concrete
   hash carry the same ordered transaction hashes, creator and signed header fields, or
   two different byte strings with the same hash are exhibited *)
Theorem C06_same_concrete_hash_same_content :
  forall (H : list N -> list N) (bytes_of : N -> list N),
  (forall x, length (H x) = 32%nat) -> (forall a b, bytes_of a = bytes_of b -> a = b) ->
  forall b1 b2 ids1 ids2,
  wf_header (ab_hdr b1) -> wf_header (ab_hdr b2) ->
  identity_checks b1 = true -> identity_checks b2 = true ->
  ab_txs b1 <> [] -> ab_txs b2 <> [] ->
  leaf_ids (leaves (ab_txs b1)) = Some ids1 -> leaf_ids (leaves (ab_txs b2)) = Some ids2 ->
  Forall (fun i => length (bytes_of i) <> 64%nat) ids1 ->
  Forall (fun i => length (bytes_of i) <> 64%nat) ids2 ->
  cblock_hash H bytes_of (ab_hdr b1) = cblock_hash H bytes_of (ab_hdr b2) ->
  (ids1 = ids2
   /\ h_creator (ab_hdr b1) = h_creator (ab_hdr b2)
   /\ h_id (ab_hdr b1) = h_id (ab_hdr b2) /\ h_ts (ab_hdr b1) = h_ts (ab_hdr b2)
   /\ h_nums (ab_hdr b1) = h_nums (ab_hdr b2))
  \/ Collision H.
Proof. exact same_concrete_hash_same_content. Qed.

(* the premises on H and bytes_of are satisfiable *)
Example C06_hash_premises_satisfiable :
  exists (H : list N -> list N) (bytes_of : N -> list N),
    (forall x, length (H x) = 32%nat) /\ (forall a b, bytes_of a = bytes_of b -> a = b)
    /\ (forall i, length (bytes_of i) <> 64%nat).
Proof.
  exists (fun x => firstn 32 (x ++ repeat 0 32)), (fun i => [i]). repeat split.
  - intros x. rewrite firstn_length, app_length, repeat_length. lia.
  - intros a b E. now inversion E.
  - intros i. cbn. lia.
Qed.

Print Assumptions C06_header_bytes_injective.
Print Assumptions C06_root_determines_leaves.
Print Assumptions C06_same_hash_same_content.
Print Assumptions C06_creator_bound.
Print Assumptions C06_edit_rejected.
Print Assumptions C06_hash_terms_faithful.
Print Assumptions C06_concrete_root_is_term_value.
Print Assumptions C06_concrete_hash_binds.
Print Assumptions C06_same_concrete_hash_same_content.
