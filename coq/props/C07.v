(* C07 -- Every block the node produces is one every node accepts.
   Statements only; proofs in proofs/ProducerProofs.v, model in model/Producer.v
   (= /repo HEAD incl. the fixes f62222f, e0300b2, 1214e31, 9879695).

   Block::create / Mempool::bundle_block / Mempool::can_bundle_block and Block::validate are
   modelled as written; the economic part of generate_consensus_values is the abstract
   function [cv] (chain, ledger, BLOCK |-> values): in create it runs on the half-built
   block (golden ticket + drained pool, header fields still zero; once more after create
   has left out pooled transactions that collide with a rebroadcast), in validate on the
   finished block (rebroadcast and fee transactions appended, header filled).

   FULL STATEMENT (false on the code as it is -- see the *_refuted witnesses, which are
   recorded runs of the real code):
       forall pool golden-ticket timestamp chain,
         bundle ... = Ok (Bundled b, _) -> node_accepts n b = Ok true /\ node_accepts n2 b = Ok true
   What is proved: the same for every production outside the decidable class [Known_C07]
   (the findings listed in known_findings.txt under property=C07), under the structural
   side conditions spelled out in C07_bundle_produced_validates.  Every hypothesis of that
   theorem is either a listed defect class or an obligation on [cv] / on the pool. *)
From Saito Require Import Base Producer ProducerProofs.

Section C07.
  Variable chain : Type.
  Variable view : chain -> chainview.
  Variable cv : chain -> list N -> block -> cvrec.
  Variable tx_valid : chain -> list N -> tx -> bool.
  Variable gt_ok : chain -> tx -> bool.
  Variable work_needed : N -> N -> N -> N -> N.
  Variable supply_ok : chain -> list N -> block -> bool.
  Variable hchain : list N -> N.
  Variable mroot : list N -> N.

  Notation create := (create chain view cv hchain mroot).
  Notation validate := (validate chain view cv tx_valid gt_ok work_needed mroot).
  Notation node_accepts := (node_accepts chain view cv tx_valid gt_ok work_needed supply_ok mroot).
  Notation bundle := (bundle chain view cv tx_valid gt_ok work_needed hchain mroot).
  Notation can_bundle := (can_bundle chain view work_needed).
  Notation intake := (add_transaction_if_validates chain tx_valid).
  Notation screen := (screen_ticket chain view gt_ok).
  Notation Known_C07 := (Known_C07 chain view cv tx_valid hchain).
  Notation tip_hash := (tip_hash_of chain view).

  (* [agreesb cC cV], field by field: what Block::validate recomputes on the finished block
     equals what Block::create wrote from the values computed on the half-built block *)
  Theorem C07_agrees_fields : forall dbg cC cV,
    agreesb dbg hchain cC cV = true <->
    let C := c_econ cC in let V := c_econ cV in
    uadd dbg (e_total_fees_new C) (e_total_fees_atr C) = Ok (e_total_fees V)
    /\ e_total_fees_new V = e_total_fees_new C
    /\ e_total_fees_atr V = e_total_fees_atr C
    /\ e_total_fees_cumulative V = e_total_fees_cumulative C
    /\ e_avg_total_fees V = e_avg_total_fees C
    /\ e_avg_total_fees_new V = e_avg_total_fees_new C
    /\ e_avg_total_fees_atr V = e_avg_total_fees_atr C
    /\ e_total_payout_routing V = e_total_payout_routing C
    /\ e_total_payout_mining V = e_total_payout_mining C
    /\ e_total_payout_treasury V = e_total_payout_treasury C
    /\ e_total_payout_graveyard V = e_total_payout_graveyard C
    /\ e_total_payout_atr V = e_total_payout_atr C
    /\ e_avg_payout_routing V = e_avg_payout_routing C
    /\ e_avg_payout_mining V = e_avg_payout_mining C
    /\ e_avg_payout_treasury V = e_avg_payout_treasury C
    /\ e_avg_payout_graveyard V = e_avg_payout_graveyard C
    /\ e_avg_payout_atr V = e_avg_payout_atr C
    /\ e_avg_fee_per_byte V = e_avg_fee_per_byte C
    /\ e_fee_per_byte V = e_fee_per_byte C
    /\ e_avg_nolan_rebroadcast_per_block V = e_avg_nolan_rebroadcast_per_block C
    /\ e_burnfee V = e_burnfee C
    /\ e_difficulty V = e_difficulty C
    /\ c_total_rebroadcast_slips cV = nsum (map t_atr_slips (c_rebroadcasts cC))
    /\ c_rebroadcast_hash cV = hchain (map t_id (c_rebroadcasts cC))
    /\ match c_fee_tx cC with
       | Some f => exists f', c_fee_tx cV = Some f' /\ t_id f' = t_id f
       | None => True
       end.
  Proof. exact (agreesb_fields hchain). Qed.

  (* Block::create's block passes Block::validate on the same node.  [kept] = the drained pool
     minus the transactions create leaves out because they spend an input of a rebroadcast.
     Hypotheses:
     (cv)   agreesb: cv of the finished block agrees, field by field, with the header
            written from cv of the half-built block; the transactions cv hands over are
            ATR- resp. Fee-typed; a fee transaction only together with a golden ticket;
     (gt)   the golden ticket handed to create is a GoldenTicket transaction whose solution
            validates against the parent (bundle_block guarantees the second: C07_bundled_ticket_solves);
     (pool) the drained pool holds no GoldenTicket/Fee/ATR-typed and no Issuance-typed
            transaction; what is kept is not empty and holds exactly one BlockStake transaction
            if staking is required; every transaction of the block validates on the parent state;
     (work) the kept transactions carry the work validate asks for. *)
  Theorem C07_produced_validates : forall dbg (n : node chain) creator ts gt drained b p,
    v_tip (view (n_chain _ n)) = Some p ->
    create dbg n creator ts gt drained = Ok b ->
    let c0 := cv (n_chain _ n) (n_ledger _ n) (pre_block (Some p) (par_hash p) creator ts gt drained) in
    let kept := kept_pool c0 drained in
    let cC := cv (n_chain _ n) (n_ledger _ n) (pre_block (Some p) (par_hash p) creator ts gt kept) in
    let cV := cv (n_chain _ n) (n_ledger _ n) b in
    agreesb dbg hchain cC cV = true ->
    cv_types_ok cC = true ->
    (c_fee_tx cC <> None -> gt <> None) ->
    (forall g, gt = Some g -> is_type TGoldenTicket g = true /\ gt_ok (n_chain _ n) g = true) ->
    pool_types_ok drained = true ->
    kept <> [] ->
    count_type TIssuance drained = 0 ->
    (v_stake_req (view (n_chain _ n)) = 0 \/ count_type TBlockStake kept = 1) ->
    forallb (tx_valid (n_chain _ n) (n_ledger _ n)) (b_txs b) = true ->
    work_needed (par_burnfee p) ts (par_ts p) (v_heartbeat (view (n_chain _ n))) <= nsum (map t_work kept) ->
    validate dbg n true b = Ok true.
  Proof. exact (produced_validates_F chain view cv tx_valid gt_ok work_needed hchain mroot). Qed.

  (* the same as "forall x, ~ Known_C07 x -> P x" *)
  Theorem C07_produced_validates_outside_known : forall dbg (n : node chain) creator ts gt drained b p,
    v_tip (view (n_chain _ n)) = Some p ->
    create dbg n creator ts gt drained = Ok b ->
    Known_C07 dbg n creator ts gt drained b = false ->
    let c0 := cv (n_chain _ n) (n_ledger _ n) (pre_block (Some p) (par_hash p) creator ts gt drained) in
    let kept := kept_pool c0 drained in
    let cC := cv (n_chain _ n) (n_ledger _ n) (pre_block (Some p) (par_hash p) creator ts gt kept) in
    cv_types_ok cC = true ->
    (c_fee_tx cC <> None -> gt <> None) ->
    (forall g, gt = Some g -> is_type TGoldenTicket g = true /\ gt_ok (n_chain _ n) g = true) ->
    pool_types_ok drained = true ->
    kept <> [] ->
    (v_stake_req (view (n_chain _ n)) = 0 \/ count_type TBlockStake kept = 1) ->
    work_needed (par_burnfee p) ts (par_ts p) (v_heartbeat (view (n_chain _ n))) <= nsum (map t_work kept) ->
    validate dbg n true b = Ok true.
  Proof. exact (produced_validates_outside_known chain view cv tx_valid gt_ok work_needed hchain mroot). Qed.

  (* Block::create = the plain steps (no filter) on the pool that is left *)
  Theorem C07_create_filters : forall dbg (n : node chain) creator ts gt d p,
    v_tip (view (n_chain _ n)) = Some p ->
    (forall g, gt = Some g -> is_type TGoldenTicket g = true) ->
    create dbg n creator ts gt d
    = create_plain chain view cv hchain mroot dbg n creator ts gt
        (kept_pool (cv (n_chain _ n) (n_ledger _ n) (pre_block (Some p) (par_hash p) creator ts gt d)) d).
  Proof. exact (create_bridge chain view cv work_needed hchain mroot). Qed.

  (* bundle allowed => a block built from a list that holds the cached work has the work validate
     asks for: both sides use the same function on the same burn fee / timestamps / heartbeat *)
  Theorem C07_gate_implies_work : forall dbg (n : node chain) creator m ts gt w p drained b,
    v_tip (view (n_chain _ n)) = Some p ->
    can_bundle n m ts (is_some gt) = Some w ->
    m_work m <= nsum (map t_work drained) ->
    create_plain chain view cv hchain mroot dbg n creator ts gt drained = Ok b ->
    work_needed (par_burnfee p) (b_ts b) (par_ts p) (v_heartbeat (view (n_chain _ n))) <= b_total_work b.
  Proof. exact (gate_implies_work chain view cv work_needed hchain mroot). Qed.

  (* the producer's path: bundle_block returned a block => Blockchain::add_block accepts it
     (golden-ticket count of Blockchain::validate + Block::validate + check_total_supply; the
     last one is C02's subject and enters as the hypothesis [supply_ok], see C07_dust_spend_witness).
     No hypothesis on the solution of the pooled ticket any more (fix e0300b2).  New with fix
     1214e31: the hypothesis that what create leaves out did not carry the work the gate counted
     (listed finding left-out-transaction-carried-the-work). *)
  Theorem C07_bundle_produced_validates : forall dbg (n : node chain) creator m ts gt stake order b m' p,
    v_tip (view (n_chain _ n)) = Some p ->
    bundle dbg n creator m ts gt stake order = Ok (Bundled b, m') ->
    forall gt' m0 s m1,
    screen n m gt = (gt', m0) ->
    stake = Some s -> intake dbg n m0 s = Ok m1 ->
    let drained := drain_in order (m_txs m1) in
    let c0 := cv (n_chain _ n) (n_ledger _ n) (pre_block (Some p) (par_hash p) creator ts gt' drained) in
    let kept := kept_pool c0 drained in
    let cC := cv (n_chain _ n) (n_ledger _ n) (pre_block (Some p) (par_hash p) creator ts gt' kept) in
    let cV := cv (n_chain _ n) (n_ledger _ n) b in
    agreesb dbg hchain cC cV = true ->
    cv_types_ok cC = true ->
    (c_fee_tx cC <> None -> gt' <> None) ->
    (forall g, gt = Some g -> is_type TGoldenTicket g = true) ->
    pool_types_ok (m_txs m1) = true ->
    count_type TIssuance (m_txs m1) = 0 ->
    (v_stake_req (view (n_chain _ n)) = 0 \/ count_type TBlockStake kept = 1) ->
    forallb (tx_valid (n_chain _ n) (n_ledger _ n)) (b_txs b) = true ->
    m_work m <= nsum (map t_work (m_txs m)) ->
    kept <> [] ->
    nsum (map t_work (m_txs m1)) <= nsum (map t_work kept)
      \/ work_needed (par_burnfee p) ts (par_ts p) (v_heartbeat (view (n_chain _ n))) <= nsum (map t_work kept) ->
    supply_ok (n_chain _ n) (n_ledger _ n) b = true ->
    node_accepts dbg n b = Ok true.
  Proof. exact (bundle_produced_validates chain view cv tx_valid gt_ok work_needed supply_ok hchain mroot). Qed.

  (* any other node holding the same chain answers the same: validation reads the chain and
     the ledger, and the ledger is the replay of the chain on every node (C03's invariant,
     here a hypothesis) *)
  Theorem C07_second_node : forall (replay : chain -> list N) dbg (n n2 : node chain) b,
    n_chain _ n2 = n_chain _ n ->
    n_ledger _ n = replay (n_chain _ n) ->
    n_ledger _ n2 = replay (n_chain _ n2) ->
    node_accepts dbg n2 b = node_accepts dbg n b.
  Proof. exact (second_node_same chain view cv tx_valid gt_ok work_needed supply_ok mroot). Qed.

  (* ---- golden tickets (fix e0300b2) ---- *)

  (* why the ticket has to be screened: a block built with a ticket that does not solve the
     tip is never valid *)
  Theorem C07_invalid_gt_rejected : forall dbg (n : node chain) creator ts g drained b p vu,
    v_tip (view (n_chain _ n)) = Some p ->
    par_ghost p = false ->
    create dbg n creator ts (Some g) drained = Ok b ->
    is_type TGoldenTicket g = true ->
    gt_ok (n_chain _ n) g = false ->
    pool_types_ok drained = true ->
    (forall b0, cv_types_ok (cv (n_chain _ n) (n_ledger _ n) b0) = true) ->
    validate dbg n vu b <> Ok true.
  Proof. exact (invalid_gt_rejected chain view cv tx_valid gt_ok work_needed hchain mroot). Qed.

  (* a ticket that reaches Block::create through bundle_block solves the tip *)
  Theorem C07_bundled_ticket_solves : forall dbg (n : node chain) creator m ts gt stake order b m' p g,
    v_tip (view (n_chain _ n)) = Some p ->
    bundle dbg n creator m ts gt stake order = Ok (Bundled b, m') ->
    fst (screen n m gt) = Some g ->
    gt = Some g /\ gt_ok (n_chain _ n) g = true.
  Proof. exact (bundled_ticket_solves chain view cv tx_valid gt_ok work_needed hchain mroot). Qed.

  (* the producer recovers: with a pooled ticket for the tip that does not solve it, ONE call of
     bundle_block (clock after the tip) behaves exactly like the call without a ticket on the pool
     without that ticket, and afterwards the pool holds no ticket for the tip -- whatever the
     outcome of the call (no block, block accepted, block rejected for another reason) *)
  Theorem C07_invalid_gt_recovers : forall dbg (n : node chain) creator m ts g stake order out m',
    (match v_tip (view (n_chain _ n)) with Some p => par_ts p | None => 0 end) < ts ->
    pick_gt m (tip_hash n) = Some g ->
    gt_ok (n_chain _ n) g = false ->
    bundle dbg n creator m ts (pick_gt m (tip_hash n)) stake order = Ok (out, m') ->
    pick_gt m' (tip_hash n) = None
    /\ bundle dbg n creator (drop_ticket chain view n m g) ts None stake order = Ok (out, m').
  Proof. exact (producer_recovers chain view cv tx_valid gt_ok work_needed hchain mroot). Qed.

  (* ---- staking transactions of other keys are not pooled (fix 9879695) ---- *)
  Theorem C07_foreign_stake_refused : forall dbg (n : node chain) m t,
    is_type TBlockStake t = true -> t_own t = false -> intake dbg n m t = Ok m.
  Proof. exact (foreign_stake_refused chain tx_valid). Qed.

  (* ---- timestamps (fix f62222f) ---- *)
  Theorem C07_bundle_ts_declines : forall dbg (n : node chain) creator m ts gt stake order p,
    v_tip (view (n_chain _ n)) = Some p -> ts <= par_ts p ->
    bundle dbg n creator m ts gt stake order = Ok (GateClosed, m).
  Proof. exact (bundle_ts_declines chain view cv tx_valid gt_ok work_needed hchain mroot). Qed.

  (* ---- Block::create failing (fix 1214e31) ---- *)

  (* it fails only on a double spend among what it kept, its rebroadcasts and the fee
     transaction -- and no kept pooled transaction collides with a rebroadcast *)
  Theorem C07_create_error_is_double_spend : forall dbg (n : node chain) creator ts gt drained p,
    v_tip (view (n_chain _ n)) = Some p ->
    (forall g, gt = Some g -> is_type TGoldenTicket g = true) ->
    create dbg n creator ts gt drained = Err ->
    let c0 := cv (n_chain _ n) (n_ledger _ n) (pre_block (Some p) (par_hash p) creator ts gt drained) in
    let kept := kept_pool c0 drained in
    let cC := cv (n_chain _ n) (n_ledger _ n) (pre_block (Some p) (par_hash p) creator ts gt kept) in
    dup_spend ((opt_list gt ++ kept) ++ c_rebroadcasts cC ++ opt_list (c_fee_tx cC)) = true
    /\ (c_rebroadcasts c0 <> [] ->
        forall t, In t kept -> is_type TGoldenTicket t = true \/ collides (rb_inputs c0) t = false).
  Proof. exact (create_err_is_double_spend chain view cv work_needed hchain mroot). Qed.

  (* and then the pool gets back what create had drained and not left out, with reservations
     and work cache recomputed from it *)
  Theorem C07_create_failure_restores : forall dbg (n : node chain) creator m ts gt stake order m',
    bundle dbg n creator m ts gt stake order = Ok (CreateFailed, m') ->
    exists gt' m0 s m1,
      screen n m gt = (gt', m0) /\ stake = Some s /\ intake dbg n m0 s = Ok m1
      /\ m_txs m' = handed_back chain view cv n creator ts gt' (drain_in order (m_txs m1))
      /\ m_work m' = nsum (map t_work (m_txs m'))
      /\ m_umap m' = flat_map t_inputs (m_txs m')
      /\ m_gts m' = m_gts m0.
  Proof. exact (create_failure_restores chain view cv tx_valid gt_ok work_needed hchain mroot). Qed.
End C07.

(* ---------------------------------------------------------------- witnesses and regressions
   Recorded rounds of the REAL code at /repo HEAD (harness/src/bin/c07.rs, scripted scenarios,
   seed 1): the pool, the chain view, the ConsensusValues computed by Block::create ([rc_cvC] =
   block.cv) and by generate_consensus_values on the finished block on the second node
   ([rc_cvV]), the verdicts of Transaction::validate / the golden-ticket check, the observed
   outcome ([rc_expected]).  The work function is the constant the real function returned in
   that round. *)
Definition wn0 : N -> N -> N -> N -> N := fun _ _ _ _ => 0.

(* cap: {"label": "dust-profile", "tip": 5, "gap_ms": 25000, "pool_ops": [{"op": "transfer", "payer": 2, "input": "5:2:1 amount 613335", "fee": 20000, "hops": 1, "pooled": true}, {"op": "transfer", "payer": 3, "input": "5:4:0 amount 606669", "fee": 20000, "hops": 1, "pooled": true}, {"op": "transfer", "payer": 4, "input": "5:1:0 amount 600003", "fee": 20000, "hops": 1, "pooled": true}, {"op": "transfer", "payer": 5, "input": "5:3:0 amount 593337", "fee": 20000, "hops": 1, "pooled": true}], "pool_size": 4, "cached_work": 80000, "work_needed": 0, "gt_for_tip": false, "outcome": "Rejected", "detail": "block 6 txs(types) [0, 0, 0, 0, 3] producer Invalid second node Invalid; atr multiplier 3; diffs [\"rebroadcast_hash: hash over the block's rebroadcast transactions differs from the recomputed one\"]; create-vs-validate cv []"} *)
Definition wit_cap : rcase :=
  mkRC (mkView (Some (mkPar 65 5 1100000 40000 2 96428 12649111 false)) false 0 10000 3263 true true) (mkM [(mkTx 69 70 TNormal 20000 [71] 0 0 false); (mkTx 72 73 TNormal 20000 [74] 0 0 false); (mkTx 75 76 TNormal 20000 [77] 0 0 false); (mkTx 78 79 TNormal 20000 [80] 0 0 false)] [71; 74; 77; 80] 80000 true true []) 18 1125000 (Some (mkTx 14 15 TBlockStake 0 [] 0 0 true)) [76; 79; 70; 73] 81 (mkCv (mkE 80000 80000 0 95600 73115 69464 3651 0 0 0 0 0 21728 12840 0 0 0 44 56 112540 8000000 0) [(mkTx 82 9 TATR 0 [83] 1 0 false)] 1 84 None) (mkCv (mkE 80000 80000 0 95600 73115 69464 3651 0 0 0 0 0 21728 12840 0 0 0 44 56 112540 8000000 0) [(mkTx 82 9 TATR 0 [83] 1 0 false)] 1 84 None) [(69, true); (72, true); (75, true); (78, true); (14, false); (82, false)] [] [([82], 85); ([], 0)] [([75; 78; 69; 72; 82], 86)] true [[4]; [75; 78; 69; 72; 82]; [6; 1125000; 65; 96428; 40000; 2]; [80000; 80000; 0; 95600; 73115; 69464; 3651; 0; 0; 0; 0; 0; 21728; 12840; 0; 0; 0; 44; 56; 112540; 8000000; 0]; [80000; 1; 85; 86]; [0; 0]; [70; 73; 76; 79]; [80000; 1]; []].

(* gt: {"label": "invalid-golden-ticket", "tip": 4, "gap_ms": 25000, "pool_ops": [{"op": "transfer", "payer": 2, "input": "1:9:0 amount 401002", "fee": 5000, "hops": 1, "pooled": true}, {"op": "transfer", "payer": 3, "input": "3:3:0 amount 401703", "fee": 300, "hops": 2, "pooled": true}, {"op": "transfer", "payer": 4, "input": "1:29:0 amount 405004", "fee": 0, "hops": 0, "pooled": true}, {"op": "golden-ticket", "kind": "Invalid", "tip_difficulty": 2}], "pool_size": 3, "cached_work": 5150, "work_needed": 0, "gt_for_tip": true, "outcome": "Accepted", "detail": "block 5 txs(types) [0, 0, 0] producer OnChain second node OnChain; atr multiplier 1; diffs []; create-vs-validate cv []"} *)
Definition wit_gt : rcase :=
  mkRC (mkView (Some (mkPar 46 4 1075000 0 2120 5300 20000000 false)) false 0 10000 4414 true true) (mkM [(mkTx 50 51 TNormal 0 [52] 0 0 false); (mkTx 53 54 TNormal 150 [55] 0 0 false); (mkTx 56 57 TNormal 5000 [58] 0 0 false)] [52; 55; 58] 5150 true true [(46, mkTx 59 60 TGoldenTicket 0 [] 0 46 true)]) 19 1100000 (Some (mkTx 13 14 TBlockStake 0 [] 0 0 true)) [57; 54; 51] 61 (mkCv (mkE 5300 5300 0 5300 3128 3128 0 0 0 0 0 0 628 628 0 0 0 1 5 0 12649111 2) [] 0 0 None) (mkCv (mkE 5300 5300 0 5300 3128 3128 0 0 0 0 0 0 628 628 0 0 0 1 5 0 12649111 2) [] 0 0 None) [(50, true); (53, true); (56, true); (13, false)] [(59, false)] [([], 0)] [([56; 53; 50], 62)] true [[4]; [56; 53; 50]; [5; 1100000; 46; 5300; 0; 2120]; [5300; 5300; 0; 5300; 3128; 3128; 0; 0; 0; 0; 0; 0; 628; 628; 0; 0; 0; 1; 5; 0; 12649111; 2]; [5150; 0; 0; 62]; [1; 1]; []; [0; 0]; []].

(* issuance: {"label": "issuance", "tip": 3, "gap_ms": 25000, "pool_ops": [{"op": "transfer", "payer": 2, "input": "1:14:0 amount 406002", "fee": 5000, "hops": 1, "pooled": true}, {"op": "transfer", "payer": 3, "input": "1:20:0 amount 404003", "fee": 300, "hops": 2, "pooled": true}, {"op": "transfer", "payer": 4, "input": "2:1:0 amount 404004", "fee": 0, "hops": 0, "pooled": true}, {"op": "issuance-typed", "pooled": true}], "pool_size": 4, "cached_work": 5150, "work_needed": 0, "gt_for_tip": false, "outcome": "Rejected", "detail": "block 4 txs(types) [0, 6, 0, 0] producer Invalid second node Invalid; atr multiplier 1; diffs []; create-vs-validate cv []"} *)
Definition wit_issuance : rcase :=
  mkRC (mkView (Some (mkPar 27 3 1050000 0 2120 5300 31622777 false)) false 0 10000 3348 true true) (mkM [(mkTx 31 32 TNormal 150 [33] 0 0 false); (mkTx 34 35 TNormal 0 [36] 0 0 false); (mkTx 37 38 TNormal 5000 [39] 0 0 false); (mkTx 40 41 TIssuance 0 [] 0 0 true)] [33; 36; 39] 5150 true true []) 15 1075000 (Some (mkTx 11 12 TBlockStake 0 [] 0 0 true)) [35; 41; 32; 38] 42 (mkCv (mkE 5300 5300 0 5300 2586 2586 0 0 0 0 0 0 255 255 0 0 0 1 5 0 20000000 0) [] 0 0 None) (mkCv (mkE 5300 5300 0 5300 2586 2586 0 0 0 0 0 0 255 255 0 0 0 1 5 0 20000000 0) [] 0 0 None) [(31, true); (34, true); (37, true); (40, true); (11, false)] [] [([], 0)] [([34; 40; 31; 37], 43)] true [[4]; [34; 40; 31; 37]; [4; 1075000; 27; 5300; 0; 2120]; [5300; 5300; 0; 5300; 2586; 2586; 0; 0; 0; 0; 0; 0; 255; 255; 0; 0; 0; 1; 5; 0; 20000000; 0]; [5150; 0; 0; 43]; [0; 0]; [32; 35; 38]; [5150; 1]; []].

(* stake: {"label": "foreign-stake", "tip": 3, "gap_ms": 25000, "pool_ops": [{"op": "transfer", "payer": 2, "input": "1:14:0 amount 406002", "fee": 5000, "hops": 1, "pooled": true}, {"op": "transfer", "payer": 3, "input": "1:20:0 amount 404003", "fee": 300, "hops": 2, "pooled": true}, {"op": "transfer", "payer": 4, "input": "2:1:0 amount 404004", "fee": 0, "hops": 0, "pooled": true}, {"op": "blockstake-typed-from-peer", "payer": 5, "pooled": false}], "pool_size": 3, "cached_work": 5150, "work_needed": 0, "gt_for_tip": false, "outcome": "Accepted", "detail": "block 4 txs(types) [0, 7, 0, 0] producer OnChain second node OnChain; atr multiplier 1; diffs []; create-vs-validate cv []"} *)
Definition wit_stake : rcase :=
  mkRC (mkView (Some (mkPar 31 3 1050000 0 2120 5300 31622777 false)) false 50000 10000 3803 true true) (mkM [(mkTx 35 36 TNormal 150 [37] 0 0 false); (mkTx 38 39 TNormal 0 [40] 0 0 false); (mkTx 41 42 TNormal 5000 [43] 0 0 false)] [37; 40; 43] 5150 true true []) 16 1075000 (Some (mkTx 44 45 TBlockStake 0 [46] 0 0 true)) [36; 45; 42; 39] 47 (mkCv (mkE 5300 5300 0 5300 2586 2586 0 0 0 0 0 0 255 255 0 0 0 1 5 0 20000000 0) [] 0 0 None) (mkCv (mkE 5300 5300 0 5300 2586 2586 0 0 0 0 0 0 255 255 0 0 0 1 5 0 20000000 0) [] 0 0 None) [(35, true); (38, true); (41, true); (44, true)] [] [([], 0)] [([35; 44; 41; 38], 48)] true [[4]; [35; 44; 41; 38]; [4; 1075000; 31; 5300; 0; 2120]; [5300; 5300; 0; 5300; 2586; 2586; 0; 0; 0; 0; 0; 0; 255; 255; 0; 0; 0; 1; 5; 0; 20000000; 0]; [5150; 0; 0; 48]; [1; 1]; []; [0; 0]; []].

(* clash: {"label": "rebroadcast-clash", "tip": 4, "gap_ms": 25000, "pool_ops": [{"op": "transfer", "payer": 2, "input": "3:3:0 amount 398002", "fee": 5000, "hops": 1, "pooled": true}, {"op": "transfer", "payer": 3, "input": "3:1:0 amount 401703", "fee": 300, "hops": 2, "pooled": true}, {"op": "transfer", "payer": 4, "input": "4:2:0 amount 404004", "fee": 0, "hops": 0, "pooled": true}, {"op": "spend-output-due-for-rebroadcast", "payer": 5, "input": "1:32:0 amount 400005", "pooled": true}, {"op": "golden-ticket", "kind": "Valid", "tip_difficulty": 0}], "pool_size": 4, "cached_work": 5650, "work_needed": 0, "gt_for_tip": true, "outcome": "Accepted", "detail": "block 5 txs(types) [2, 0, 0, 0, 3, 3, 3, 3, 3, 3, 3, 3, 3, 3, 3, 3, 3, 3, 3, 3, 3, 3, 3, 3, 3, 3, 3, 3, 3, 3, 3, 3, 3, 3, 3, 3, 1] producer OnChain second node OnChain; atr multiplier 1; diffs []; create-vs-validate cv []"} *)
Definition wit_clash : rcase :=
  mkRC (mkView (Some (mkPar 40 4 1075000 0 2 5300 20000000 false)) false 0 10000 1452 true true) (mkM [(mkTx 42 43 TNormal 500 [44] 0 0 false); (mkTx 45 46 TNormal 5000 [47] 0 0 false); (mkTx 48 49 TNormal 150 [50] 0 0 false); (mkTx 51 52 TNormal 0 [53] 0 0 false)] [44; 47; 50; 53] 5650 true true [(40, mkTx 54 55 TGoldenTicket 0 [] 0 40 true)]) 15 1100000 (Some (mkTx 11 12 TBlockStake 0 [] 0 0 true)) [46; 49; 52] 56 (mkCv (mkE 15028 5300 9728 15028 7495 4252 3242 5300 2650 2650 0 0 2159 1276 883 0 0 2 3 8560372 12649111 0) [(mkTx 57 58 TATR 0 [59] 1 0 true); (mkTx 60 61 TATR 0 [62] 1 0 true); (mkTx 63 64 TATR 0 [65] 1 0 true); (mkTx 66 67 TATR 0 [68] 1 0 true); (mkTx 69 70 TATR 0 [71] 1 0 true); (mkTx 72 73 TATR 0 [74] 1 0 true); (mkTx 75 76 TATR 0 [77] 1 0 true); (mkTx 78 79 TATR 0 [80] 1 0 true); (mkTx 81 82 TATR 0 [83] 1 0 false); (mkTx 84 85 TATR 0 [86] 1 0 false); (mkTx 87 88 TATR 0 [89] 1 0 false); (mkTx 90 91 TATR 0 [92] 1 0 false); (mkTx 93 94 TATR 0 [95] 1 0 false); (mkTx 96 97 TATR 0 [98] 1 0 false); (mkTx 99 100 TATR 0 [101] 1 0 false); (mkTx 102 103 TATR 0 [104] 1 0 false); (mkTx 105 106 TATR 0 [107] 1 0 false); (mkTx 108 109 TATR 0 [110] 1 0 false); (mkTx 111 112 TATR 0 [113] 1 0 false); (mkTx 114 115 TATR 0 [116] 1 0 false); (mkTx 117 118 TATR 0 [119] 1 0 false); (mkTx 120 121 TATR 0 [122] 1 0 false); (mkTx 123 124 TATR 0 [125] 1 0 false); (mkTx 126 127 TATR 0 [128] 1 0 false); (mkTx 129 130 TATR 0 [44] 1 0 false); (mkTx 131 132 TATR 0 [133] 1 0 false); (mkTx 134 135 TATR 0 [136] 1 0 false); (mkTx 137 138 TATR 0 [139] 1 0 false); (mkTx 140 141 TATR 0 [142] 1 0 false); (mkTx 143 144 TATR 0 [145] 1 0 false); (mkTx 146 147 TATR 0 [148] 1 0 false); (mkTx 149 150 TATR 0 [151] 1 0 false)] 32 154 (Some (mkTx 152 0 TFee 0 [] 0 0 true))) (mkCv (mkE 15028 5300 9728 15028 7495 4252 3242 5300 2650 2650 0 0 2159 1276 883 0 0 2 3 8560372 12649111 0) [(mkTx 57 58 TATR 0 [59] 1 0 true); (mkTx 60 61 TATR 0 [62] 1 0 true); (mkTx 63 64 TATR 0 [65] 1 0 true); (mkTx 66 67 TATR 0 [68] 1 0 true); (mkTx 69 70 TATR 0 [71] 1 0 true); (mkTx 72 73 TATR 0 [74] 1 0 true); (mkTx 75 76 TATR 0 [77] 1 0 true); (mkTx 78 79 TATR 0 [80] 1 0 true); (mkTx 81 82 TATR 0 [83] 1 0 false); (mkTx 84 85 TATR 0 [86] 1 0 false); (mkTx 87 88 TATR 0 [89] 1 0 false); (mkTx 90 91 TATR 0 [92] 1 0 false); (mkTx 93 94 TATR 0 [95] 1 0 false); (mkTx 96 97 TATR 0 [98] 1 0 false); (mkTx 99 100 TATR 0 [101] 1 0 false); (mkTx 102 103 TATR 0 [104] 1 0 false); (mkTx 105 106 TATR 0 [107] 1 0 false); (mkTx 108 109 TATR 0 [110] 1 0 false); (mkTx 111 112 TATR 0 [113] 1 0 false); (mkTx 114 115 TATR 0 [116] 1 0 false); (mkTx 117 118 TATR 0 [119] 1 0 false); (mkTx 120 121 TATR 0 [122] 1 0 false); (mkTx 123 124 TATR 0 [125] 1 0 false); (mkTx 126 127 TATR 0 [128] 1 0 false); (mkTx 129 130 TATR 0 [44] 1 0 false); (mkTx 131 132 TATR 0 [133] 1 0 false); (mkTx 134 135 TATR 0 [136] 1 0 false); (mkTx 137 138 TATR 0 [139] 1 0 false); (mkTx 140 141 TATR 0 [142] 1 0 false); (mkTx 143 144 TATR 0 [145] 1 0 false); (mkTx 146 147 TATR 0 [148] 1 0 false); (mkTx 149 150 TATR 0 [151] 1 0 false)] 32 154 (Some (mkTx 152 0 TFee 0 [] 0 0 true))) [(42, true); (45, true); (48, true); (51, true); (11, false); (54, true); (57, true); (60, true); (63, true); (66, true); (69, true); (72, true); (75, true); (78, true); (81, true); (84, true); (87, true); (90, true); (93, true); (96, true); (99, true); (102, true); (105, true); (108, true); (111, true); (114, true); (117, true); (120, true); (123, true); (126, true); (129, true); (131, true); (134, true); (137, true); (140, true); (143, true); (146, true); (149, true); (152, true)] [(54, true)] [([57; 60; 63; 66; 69; 72; 75; 78; 81; 84; 87; 90; 93; 96; 99; 102; 105; 108; 111; 114; 117; 120; 123; 126; 129; 131; 134; 137; 140; 143; 146; 149], 154); ([], 0)] [([54; 45; 48; 51; 57; 60; 63; 66; 69; 72; 75; 78; 81; 84; 87; 90; 93; 96; 99; 102; 105; 108; 111; 114; 117; 120; 123; 126; 129; 131; 134; 137; 140; 143; 146; 149; 152], 155)] true [[4]; [54; 45; 48; 51; 57; 60; 63; 66; 69; 72; 75; 78; 81; 84; 87; 90; 93; 96; 99; 102; 105; 108; 111; 114; 117; 120; 123; 126; 129; 131; 134; 137; 140; 143; 146; 149; 152]; [5; 1100000; 40; 0; 2650; 2]; [15028; 5300; 9728; 15028; 7495; 4252; 3242; 5300; 2650; 2650; 0; 0; 2159; 1276; 883; 0; 0; 2; 3; 8560372; 12649111; 0]; [5150; 32; 154; 155]; [1; 1]; []; [0; 0]; []].

(* ts: {"label": "timestamp-order", "tip": 3, "gap_ms": 0, "pool_ops": [{"op": "transfer", "payer": 2, "input": "1:14:0 amount 406002", "fee": 5000, "hops": 1, "pooled": true}, {"op": "transfer", "payer": 3, "input": "1:20:0 amount 404003", "fee": 300, "hops": 2, "pooled": true}, {"op": "transfer", "payer": 4, "input": "2:0:0 amount 404004", "fee": 0, "hops": 0, "pooled": true}], "pool_size": 3, "cached_work": 5150, "work_needed": 10000000000000000000, "gt_for_tip": false, "outcome": "GateClosed", "detail": ""} *)
Definition wit_ts : rcase :=
  mkRC (mkView (Some (mkPar 27 3 1050000 0 2120 5300 31622777 false)) false 0 10000 2203 true true) (mkM [(mkTx 31 32 TNormal 150 [33] 0 0 false); (mkTx 34 35 TNormal 0 [36] 0 0 false); (mkTx 37 38 TNormal 5000 [39] 0 0 false)] [33; 36; 39] 5150 true true []) 15 1050000 (Some (mkTx 11 12 TBlockStake 0 [] 0 0 true)) [32; 35; 38; 12] 0 (mkCv econ0 [] 0 0 None) (mkCv econ0 [] 0 0 None) [(31, true); (34, true); (37, true); (11, false)] [] [([], 0)] [] true [[1]; [32; 35; 38]; [5150; 1]; []].

(* dust: {"label": "dust-spend", "tip": 4, "gap_ms": 25000, "pool_ops": [{"op": "transfer", "payer": 2, "input": "4:3:0 amount 940002", "fee": 20000, "hops": 1, "pooled": true}, {"op": "transfer", "payer": 3, "input": "4:0:1 amount 626669", "fee": 20000, "hops": 1, "pooled": true}, {"op": "transfer", "payer": 4, "input": "4:1:0 amount 620003", "fee": 20000, "hops": 1, "pooled": true}, {"op": "transfer", "payer": 5, "input": "4:2:0 amount 613337", "fee": 20000, "hops": 1, "pooled": true}, {"op": "spend-output-due-for-rebroadcast", "payer": 2, "input": "1:1:0 amount 2002", "pooled": true}, {"op": "golden-ticket", "kind": "Valid", "tip_difficulty": 0}], "pool_size": 5, "cached_work": 80500, "work_needed": 0, "gt_for_tip": true, "outcome": "Rejected", "detail": "block 5 txs(types) [2, 0, 0, 0, 0, 0, 1] producer Panicked second node Panicked; atr multiplier 1; diffs []; create-vs-validate cv []"} *)
Definition wit_dust : rcase :=
  mkRC (mkView (Some (mkPar 49 4 1075000 0 2 80000 20000000 false)) false 0 10000 1658 true true) (mkM [(mkTx 51 52 TNormal 20000 [53] 0 0 false); (mkTx 54 55 TNormal 20000 [56] 0 0 false); (mkTx 57 58 TNormal 20000 [59] 0 0 false); (mkTx 60 61 TNormal 500 [62] 0 0 false); (mkTx 63 64 TNormal 20000 [65] 0 0 false)] [53; 56; 59; 62; 65] 80500 true true [(49, mkTx 66 67 TGoldenTicket 0 [] 0 49 true)]) 18 1100000 (Some (mkTx 14 15 TBlockStake 0 [] 0 0 true)) [52; 58; 61; 64; 55] 68 (mkCv (mkE 96928 80500 16428 80500 69840 64364 5476 80000 40000 40000 0 0 32592 19259 13333 0 0 36 37 5476 12649111 0) [] 0 0 (Some (mkTx 69 0 TFee 0 [] 0 0 true))) (mkCv (mkE 96928 80500 16428 80500 69840 64364 5476 80000 40000 40000 0 0 32592 19259 13333 0 0 36 37 5476 12649111 0) [] 0 0 (Some (mkTx 69 0 TFee 0 [] 0 0 true))) [(51, true); (54, true); (57, true); (60, true); (63, true); (14, false); (66, true); (69, true)] [(66, true)] [([], 0)] [([66; 51; 57; 60; 63; 54; 69], 71)] false [[4]; [66; 51; 57; 60; 63; 54; 69]; [5; 1100000; 49; 0; 40000; 2]; [96928; 80500; 16428; 80500; 69840; 64364; 5476; 80000; 40000; 40000; 0; 0; 32592; 19259; 13333; 0; 0; 36; 37; 5476; 12649111; 0]; [80500; 0; 0; 71]; [905; 905]; []; [0; 0]; [49]].

(* leftout: {"label": "left-out-transaction-carried-the-work", "tip": 8, "gap_ms": 15000, "pool_ops": [{"op": "spend-output-due-for-rebroadcast", "payer": 5, "input": "5:28:0 amount 399701", "pooled": true}, {"op": "transfer", "payer": 4, "input": "8:4:0 amount 402700", "fee": 0, "hops": 0, "pooled": true}], "pool_size": 2, "cached_work": 60000, "work_needed": 213, "gt_for_tip": false, "outcome": "Rejected", "detail": "block 9 txs(types) [0, 3, 3, 3, 3, 3, 3, 3, 3, 3, 3, 3, 3, 3, 3, 3, 3, 3, 3, 3, 3, 3, 3, 3, 3, 3, 3, 3, 3, 3] producer Invalid second node Invalid; atr multiplier 1; diffs [\"total_work 0 below work needed 213 (cached pool work was 60000)\"]; create-vs-validate cv []"} *)
Definition wit_leftout : rcase :=
  mkRC (mkView (Some (mkPar 216 8 1175000 2650 7516 6924 3200000 false)) false 0 10000 3055 true true) (mkM [(mkTx 225 226 TNormal 60000 [227] 0 0 false); (mkTx 228 229 TNormal 0 [230] 0 0 false)] [227; 230] 60000 true true []) 15 1190000 (Some (mkTx 11 12 TBlockStake 0 [] 0 0 true)) [229] 231 (mkCv (mkE 20148 0 20148 20148 11392 3326 8065 0 0 0 0 0 2412 2237 0 0 0 2 0 9758781 2612789 3) [(mkTx 232 49 TATR 0 [233] 1 0 false); (mkTx 234 43 TATR 0 [235] 1 0 false); (mkTx 236 55 TATR 0 [237] 1 0 true); (mkTx 238 58 TATR 0 [239] 1 0 true); (mkTx 240 61 TATR 0 [241] 1 0 true); (mkTx 242 64 TATR 0 [243] 1 0 true); (mkTx 244 67 TATR 0 [245] 1 0 true); (mkTx 246 70 TATR 0 [247] 1 0 true); (mkTx 248 73 TATR 0 [249] 1 0 true); (mkTx 250 76 TATR 0 [251] 1 0 true); (mkTx 252 82 TATR 0 [253] 1 0 false); (mkTx 254 91 TATR 0 [255] 1 0 false); (mkTx 256 94 TATR 0 [257] 1 0 false); (mkTx 258 97 TATR 0 [259] 1 0 false); (mkTx 260 103 TATR 0 [261] 1 0 false); (mkTx 262 109 TATR 0 [263] 1 0 false); (mkTx 264 112 TATR 0 [265] 1 0 false); (mkTx 266 121 TATR 0 [267] 1 0 false); (mkTx 268 127 TATR 0 [227] 1 0 false); (mkTx 269 130 TATR 0 [270] 1 0 false); (mkTx 271 133 TATR 0 [272] 1 0 false); (mkTx 273 136 TATR 0 [274] 1 0 false); (mkTx 275 139 TATR 0 [276] 1 0 false); (mkTx 277 142 TATR 0 [278] 1 0 false); (mkTx 279 145 TATR 0 [280] 1 0 false); (mkTx 281 148 TATR 0 [282] 1 0 false); (mkTx 283 151 TATR 0 [284] 1 0 true); (mkTx 285 151 TATR 0 [286] 1 0 true); (mkTx 287 151 TATR 0 [288] 1 0 true)] 29 289 None) (mkCv (mkE 20148 0 20148 20148 11392 3326 8065 0 0 0 0 0 2412 2237 0 0 0 2 0 9758781 2612789 3) [(mkTx 232 49 TATR 0 [233] 1 0 false); (mkTx 234 43 TATR 0 [235] 1 0 false); (mkTx 236 55 TATR 0 [237] 1 0 true); (mkTx 238 58 TATR 0 [239] 1 0 true); (mkTx 240 61 TATR 0 [241] 1 0 true); (mkTx 242 64 TATR 0 [243] 1 0 true); (mkTx 244 67 TATR 0 [245] 1 0 true); (mkTx 246 70 TATR 0 [247] 1 0 true); (mkTx 248 73 TATR 0 [249] 1 0 true); (mkTx 250 76 TATR 0 [251] 1 0 true); (mkTx 252 82 TATR 0 [253] 1 0 false); (mkTx 254 91 TATR 0 [255] 1 0 false); (mkTx 256 94 TATR 0 [257] 1 0 false); (mkTx 258 97 TATR 0 [259] 1 0 false); (mkTx 260 103 TATR 0 [261] 1 0 false); (mkTx 262 109 TATR 0 [263] 1 0 false); (mkTx 264 112 TATR 0 [265] 1 0 false); (mkTx 266 121 TATR 0 [267] 1 0 false); (mkTx 268 127 TATR 0 [227] 1 0 false); (mkTx 269 130 TATR 0 [270] 1 0 false); (mkTx 271 133 TATR 0 [272] 1 0 false); (mkTx 273 136 TATR 0 [274] 1 0 false); (mkTx 275 139 TATR 0 [276] 1 0 false); (mkTx 277 142 TATR 0 [278] 1 0 false); (mkTx 279 145 TATR 0 [280] 1 0 false); (mkTx 281 148 TATR 0 [282] 1 0 false); (mkTx 283 151 TATR 0 [284] 1 0 true); (mkTx 285 151 TATR 0 [286] 1 0 true); (mkTx 287 151 TATR 0 [288] 1 0 true)] 29 289 None) [(225, true); (228, true); (11, false); (232, true); (234, true); (236, true); (238, true); (240, true); (242, true); (244, true); (246, true); (248, true); (250, true); (252, true); (254, true); (256, true); (258, true); (260, true); (262, true); (264, true); (266, true); (268, true); (269, true); (271, true); (273, true); (275, true); (277, true); (279, true); (281, true); (283, true); (285, true); (287, true)] [] [([232; 234; 236; 238; 240; 242; 244; 246; 248; 250; 252; 254; 256; 258; 260; 262; 264; 266; 268; 269; 271; 273; 275; 277; 279; 281; 283; 285; 287], 289); ([], 0)] [([228; 232; 234; 236; 238; 240; 242; 244; 246; 248; 250; 252; 254; 256; 258; 260; 262; 264; 266; 268; 269; 271; 273; 275; 277; 279; 281; 283; 285; 287], 290)] true [[4]; [228; 232; 234; 236; 238; 240; 242; 244; 246; 248; 250; 252; 254; 256; 258; 260; 262; 264; 266; 268; 269; 271; 273; 275; 277; 279; 281; 283; 285; 287]; [9; 1190000; 216; 6924; 2650; 7516]; [20148; 0; 20148; 20148; 11392; 3326; 8065; 0; 0; 0; 0; 0; 2412; 2237; 0; 0; 0; 2; 0; 9758781; 2612789; 3]; [0; 29; 289; 290]; [0; 0]; [229]; [0; 1]; []].

(* ok: {"label": "work-gated", "tip": 10, "gap_ms": 10000, "pool_ops": [{"op": "transfer", "payer": 2, "input": "10:9:0 amount 402002", "fee": 5000, "hops": 1, "pooled": true}, {"op": "transfer", "payer": 3, "input": "9:2:0 amount 406403", "fee": 300, "hops": 2, "pooled": true}, {"op": "transfer", "payer": 4, "input": "10:17:0 amount 407004", "fee": 0, "hops": 0, "pooled": true}, {"op": "golden-ticket", "kind": "Valid", "tip_difficulty": 0}], "pool_size": 3, "cached_work": 5150, "work_needed": 2000, "gt_for_tip": true, "outcome": "Accepted", "detail": "block 11 txs(types) [2, 0, 7, 0, 0, 3, 1] producer OnChain second node OnChain; atr multiplier 1; diffs []; create-vs-validate cv []"} *)
Definition wit_ok : rcase :=
  mkRC (mkView (Some (mkPar 135 10 1124998 7922 3426 5300 20001000 false)) false 50000 10000 3915 true true) (mkM [(mkTx 204 205 TNormal 5000 [206] 0 0 false); (mkTx 207 208 TNormal 150 [209] 0 0 false); (mkTx 210 211 TNormal 0 [212] 0 0 false)] [206; 209; 212] 5150 true true [(135, mkTx 213 214 TGoldenTicket 0 [] 0 135 true)]) 16 1134998 (Some (mkTx 76 77 TBlockStake 0 [215] 0 0 true)) [208; 77; 205; 211] 216 (mkCv (mkE 5300 5300 0 5300 3903 3903 0 5300 2650 2650 0 0 1895 969 331 0 0 0 3 1912930 20001000 0) [(mkTx 217 12 TATR 0 [218] 1 0 true)] 1 221 (Some (mkTx 219 0 TFee 0 [] 0 0 true))) (mkCv (mkE 5300 5300 0 5300 3903 3903 0 5300 2650 2650 0 0 1895 969 331 0 0 0 3 1912930 20001000 0) [(mkTx 217 12 TATR 0 [218] 1 0 true)] 1 221 (Some (mkTx 219 0 TFee 0 [] 0 0 true))) [(204, true); (207, true); (210, true); (76, true); (213, true); (217, true); (219, true)] [(213, true)] [([217], 221); ([], 0)] [([213; 207; 76; 204; 210; 217; 219], 222)] true [[4]; [213; 207; 76; 204; 210; 217; 219]; [11; 1134998; 135; 0; 10572; 3426]; [5300; 5300; 0; 5300; 3903; 3903; 0; 5300; 2650; 2650; 0; 0; 1895; 969; 331; 0; 0; 0; 3; 1912930; 20001000; 0]; [5150; 1; 221; 222]; [1; 1]; []; [0; 0]; []].


(* STILL REFUTED.  The full statement fails: parent.treasury >= genesis_period * parent.avg_nolan_rebroadcast_per_block > 0
   and one output is rebroadcast.  cv's own rebroadcast hash (taken before the 5%-of-treasury
   cap rewrites the output amounts; in create the cap compares with the still-zero header
   treasury) is not the hash of the transactions it returns, and the rebroadcast's input
   carries the paid-out amount: both nodes reject the producer's block *)
Example C07_produced_validates_refuted_cap : exists b,
  rc_created wit_cap = Ok b
  /\ rc_known wit_cap b = true
  /\ agreesb true (lookup_l (rc_hchain wit_cap)) (rc_cvC wit_cap) (rc_cvV wit_cap) = false
  /\ rc_accepts wn0 wit_cap b = Ok false
  /\ run_rcase wn0 wit_cap = rc_expected wit_cap.
Proof. eexists. split; [vm_compute; reflexivity|]. repeat split; vm_compute; reflexivity. Qed.

(* STILL REFUTED.  Issuance-typed transaction in the pool *)
Example C07_produced_validates_refuted_issuance : exists b,
  rc_created wit_issuance = Ok b
  /\ 0 < count_type TIssuance (rc_drained wit_issuance)
  /\ rc_known wit_issuance b = true
  /\ rc_accepts wn0 wit_issuance b = Ok false
  /\ run_rcase wn0 wit_issuance = rc_expected wit_issuance.
Proof. eexists. split; [vm_compute; reflexivity|]. repeat split; vm_compute; reflexivity. Qed.

(* STILL REFUTED (new with fix 1214e31).  The only routing work of the pool sits in a transaction
   that Block::create leaves out (it spends an output this block rebroadcasts): can_bundle_block
   passed on the cached work 60000 >= 213 needed, the block is built from what is left (work 0)
   and fails the routing-work check of its own validation on both nodes *)
Definition wn_leftout : N -> N -> N -> N -> N := fun _ _ _ _ => 213.
Example C07_left_out_work_refuted : exists b w,
  rc_created wit_leftout = Ok b
  /\ can_bundle unit (rc_viewf wit_leftout) wn_leftout rc_node (rc_pool wit_leftout) (rc_ts wit_leftout)
                (is_some (rc_gt wit_leftout)) = Some w
  /\ rc_known wit_leftout b = false
  /\ nsum (map t_work (b_txs (fst (rc_pre wit_leftout)))) < 213 <= w
  /\ Nlen (b_txs (fst (rc_pre wit_leftout))) < Nlen (rc_drained wit_leftout)
  /\ rc_accepts wn_leftout wit_leftout b = Ok false
  /\ run_rcase wn_leftout wit_leftout = rc_expected wit_leftout.
Proof.
  eexists. eexists. split; [vm_compute; reflexivity|]. split; [vm_compute; reflexivity|].
  repeat split; vm_compute; try reflexivity; try discriminate.
Qed.

(* REGRESSION (fix e0300b2; was C07_produced_validates_refuted_gt).  The pool holds a ticket for
   the tip whose solution does not validate: bundle_block goes on without a ticket, the block is
   accepted by both nodes, and the ticket is gone from the pool *)
Example C07_invalid_ticket_regression : exists g,
  pick_gt (rc_pool wit_gt) (rc_tip_hash wit_gt) = Some g /\ rc_gtf wit_gt tt g = false
  /\ rc_gt wit_gt = None
  /\ hd [] (run_rcase wn0 wit_gt) = [4]
  /\ nth 5 (run_rcase wn0 wit_gt) [] = [1; 1]
  /\ nth 8 (run_rcase wn0 wit_gt) [7] = []
  /\ run_rcase wn0 wit_gt = rc_expected wit_gt.
Proof. eexists. split; [vm_compute; reflexivity|]. repeat split; vm_compute; reflexivity. Qed.

(* REGRESSION (fix 9879695; was C07_produced_validates_refuted_stake).  Staking required, a peer
   submitted a BlockStake transaction: it is not pooled, the block carries exactly the producer's
   own staking transaction and is accepted by both nodes *)
Example C07_foreign_stake_regression : exists b,
  rc_created wit_stake = Ok b
  /\ v_stake_req (rc_view wit_stake) <> 0
  /\ count_type TBlockStake (b_txs b) = 1
  /\ rc_known wit_stake b = false
  /\ rc_accepts wn0 wit_stake b = Ok true
  /\ run_rcase wn0 wit_stake = rc_expected wit_stake.
Proof. eexists. split; [vm_compute; reflexivity|]. repeat split; try (vm_compute; reflexivity). vm_compute. discriminate. Qed.

(* REGRESSION (fix 1214e31; was C07_rebroadcast_clash_witness).  A pooled transaction spends an
   output that this block rebroadcasts: create leaves it out, the block is built from the rest
   and accepted by both nodes *)
Example C07_rebroadcast_clash_regression : exists b,
  rc_created wit_clash = Ok b
  /\ existsb (collides (rb_inputs (rc_cvC wit_clash))) (rc_drained wit_clash) = true
  /\ existsb (collides (rb_inputs (rc_cvC wit_clash))) (filter (fun t => negb (is_type TATR t)) (b_txs b)) = false
  /\ rc_accepts wn0 wit_clash b = Ok true
  /\ run_rcase wn0 wit_clash = rc_expected wit_clash.
Proof. eexists. split; [vm_compute; reflexivity|]. repeat split; vm_compute; reflexivity. Qed.

(* STILL REFUTED (supply, C02's subject).  A pooled transaction spends an output that is due at
   this block but too small to be rebroadcast: no double-spend signal, the block validates on both
   nodes, and both panic in check_total_supply *)
Example C07_dust_spend_witness : exists b,
  rc_created wit_dust = Ok b
  /\ rc_known wit_dust b = false
  /\ rc_supply_ok wit_dust = false
  /\ rc_accepts wn0 wit_dust b = Panic SITE_SUPPLY
  /\ run_rcase wn0 wit_dust = rc_expected wit_dust.
Proof. eexists. split; [vm_compute; reflexivity|]. repeat split; vm_compute; reflexivity. Qed.

(* REGRESSION (fix f62222f).  Timestamp not after the tip's: no block, pool unchanged *)
Example C07_timestamp_declined_witness :
  rc_ts wit_ts <= match v_tip (rc_view wit_ts) with Some p => par_ts p | None => 0 end
  /\ hd [] (run_rcase wn0 wit_ts) = [1]
  /\ run_rcase wn0 wit_ts = rc_expected wit_ts.
Proof. repeat split; vm_compute; try reflexivity; discriminate. Qed.

(* non-vacuity: a recorded round (golden ticket, staking transaction, three transfers,
   rebroadcasts, fee transaction; staking on, window wrapped) that is outside Known_C07,
   meets the structural hypotheses, and is accepted by both nodes *)
Example C07_example : exists b p,
  v_tip (rc_view wit_ok) = Some p
  /\ rc_created wit_ok = Ok b
  /\ rc_known wit_ok b = false
  /\ cv_types_ok (rc_cvC wit_ok) = true
  /\ is_some (c_fee_tx (rc_cvC wit_ok)) = true /\ is_some (rc_gt wit_ok) = true
  /\ c_rebroadcasts (rc_cvC wit_ok) <> []
  /\ pool_types_ok (rc_drained wit_ok) = true
  /\ rc_drained wit_ok <> []
  /\ rc_accepts wn0 wit_ok b = Ok true
  /\ run_rcase wn0 wit_ok = rc_expected wit_ok.
Proof.
  eexists. eexists. split; [vm_compute; reflexivity|]. split; [vm_compute; reflexivity|].
  repeat split; try (vm_compute; reflexivity); vm_compute; discriminate.
Qed.

(* the cache hypothesis of C07_gate_implies_work cannot be dropped: can_bundle_block compares
   the CACHED routing work, Block::validate the work recomputed from the block's
   transactions; a cache that over-reports (pool work 10, cache 60, work needed 50) lets the
   gate pass and every node reject.  (Toy instance of the Section variables; on the real
   code the cache was exact in every round of the harness: dimension "cache".) *)
Example C07_gate_needs_honest_cache :
  let p := mkPar 1 1 1000 0 0 0 7 false in
  let vw := fun _ : unit => mkView (Some p) false 0 100 0 true true in
  let c0 := mkCv econ0 [] 0 0 None in
  let cvf := fun (_ : unit) (_ : list N) (_ : block) => c0 in
  let valid := fun (_ : unit) (_ : list N) (_ : tx) => true in
  let gtf := fun (_ : unit) (_ : tx) => true in
  let wn := fun _ _ _ _ : N => 50 in
  let h0 := fun _ : list N => 0 in
  let t := mkTx 5 6 TNormal 10 [9] 0 0 false in
  let m := mkM [t] [9] 60 true true [] in
  let nd := mkNode unit tt [] in
  can_bundle unit vw wn nd m 1100 false = Some 60
  /\ exists b, create unit vw cvf h0 h0 true nd 3 1100 None [t] = Ok b
       /\ Known_C07 unit vw cvf valid h0 true nd 3 1100 None [t] b = false
       /\ validate unit vw cvf valid gtf wn h0 true nd true b = Ok false.
Proof. cbv zeta. split; [vm_compute; reflexivity|]. eexists. split; [vm_compute; reflexivity|]. split; vm_compute; reflexivity. Qed.

Print Assumptions C07_agrees_fields.
Print Assumptions C07_produced_validates.
Print Assumptions C07_produced_validates_outside_known.
Print Assumptions C07_create_filters.
Print Assumptions C07_gate_implies_work.
Print Assumptions C07_bundle_produced_validates.
Print Assumptions C07_second_node.
Print Assumptions C07_invalid_gt_rejected.
Print Assumptions C07_bundled_ticket_solves.
Print Assumptions C07_invalid_gt_recovers.
Print Assumptions C07_foreign_stake_refused.
Print Assumptions C07_bundle_ts_declines.
Print Assumptions C07_create_error_is_double_spend.
Print Assumptions C07_create_failure_restores.
Print Assumptions C07_produced_validates_refuted_cap.
Print Assumptions C07_produced_validates_refuted_issuance.
Print Assumptions C07_left_out_work_refuted.
Print Assumptions C07_invalid_ticket_regression.
Print Assumptions C07_foreign_stake_regression.
Print Assumptions C07_rebroadcast_clash_regression.
Print Assumptions C07_dust_spend_witness.
Print Assumptions C07_timestamp_declined_witness.
Print Assumptions C07_example.
Print Assumptions C07_gate_needs_honest_cache.
