(* C07 -- Every block the node produces is one every node accepts.
   Statements only; proofs in proofs/ProducerProofs.v, model in model/Producer.v
   (= /repo HEAD e1b5241 incl. the fixes f62222f, e0300b2, 1214e31, 9879695, ffb4da9, 6b3137c,
   60ba6d1, b8552b5, bb88717, f640126, e1b5241).

   Block::create / Mempool::bundle_block / Mempool::can_bundle_block and Block::validate are
   modelled as written; the economic part of generate_consensus_values is the abstract
   function [cv] (chain, ledger, BLOCK |-> values): in create it runs on the half-built
   block (golden ticket + drained pool, header fields still zero; once more after create
   has left out pooled transactions that collide with a rebroadcast), in validate on the
   finished block (rebroadcast and fee transactions appended, header filled).

   FULL STATEMENT (false on the code as it is -- see the *_refuted witnesses, which are
   recorded runs of the real code):
       forall pool golden-ticket timestamp chain,
         bundle ... = Ok (Bundled b, _) -> node_accepts n b = Ok true /\ node_accepts n2 b = Ok true
   What is proved: the same for every production outside the decidable class [Known_C07]
   (the findings listed in known_findings.txt under property=C07), under the structural
   side conditions spelled out in C07_bundle_produced_validates.  Every hypothesis of that
   theorem is either a listed defect class or an obligation on [cv] / on the pool. *)
From Saito Require Import Base Producer ProducerProofs.

Section C07.
  Variable chain : Type.
  Variable view : chain -> chainview.
  Variable cv : chain -> list N -> block -> cvrec.
  Variable tx_valid : chain -> list N -> tx -> bool.
  Variable gt_ok : chain -> tx -> bool.
  Variable gt_screen : chain -> tx -> bool.
  Variable work_needed : N -> N -> N -> N -> N.
  Variable supply_ok : chain -> list N -> block -> bool.
  Variable hchain : list N -> N.
  Variable mroot : list N -> N.

  Notation create := (create chain view cv hchain mroot).
  Notation validate := (validate chain view cv tx_valid gt_ok work_needed mroot).
  Notation node_accepts := (node_accepts chain view cv tx_valid gt_ok work_needed supply_ok mroot).
  Notation bundle := (bundle chain view cv tx_valid gt_screen work_needed hchain mroot).
  Notation can_bundle := (can_bundle chain view work_needed).
  Notation intake := (add_transaction_if_validates chain tx_valid).
  Notation screen := (screen_ticket chain view gt_screen).
  Notation Known_C07 := (Known_C07 chain view cv tx_valid gt_ok work_needed).
  Notation tip_hash := (tip_hash_of chain view).

  (* [agreesb cC cV], field by field: what Block::validate recomputes on the finished block
     equals what Block::create wrote from the values computed on the half-built block *)
  Theorem C07_agrees_fields : forall dbg cC cV,
    agreesb dbg hchain cC cV = true <->
    let C := c_econ cC in let V := c_econ cV in
    uadd dbg (e_total_fees_new C) (e_total_fees_atr C) = Ok (e_total_fees V)
    /\ e_total_fees_new V = e_total_fees_new C
    /\ e_total_fees_atr V = e_total_fees_atr C
    /\ e_total_fees_cumulative V = e_total_fees_cumulative C
    /\ e_avg_total_fees V = e_avg_total_fees C
    /\ e_avg_total_fees_new V = e_avg_total_fees_new C
    /\ e_avg_total_fees_atr V = e_avg_total_fees_atr C
    /\ e_total_payout_routing V = e_total_payout_routing C
    /\ e_total_payout_mining V = e_total_payout_mining C
    /\ e_total_payout_treasury V = e_total_payout_treasury C
    /\ e_total_payout_graveyard V = e_total_payout_graveyard C
    /\ e_total_payout_atr V = e_total_payout_atr C
    /\ e_avg_payout_routing V = e_avg_payout_routing C
    /\ e_avg_payout_mining V = e_avg_payout_mining C
    /\ e_avg_payout_treasury V = e_avg_payout_treasury C
    /\ e_avg_payout_graveyard V = e_avg_payout_graveyard C
    /\ e_avg_payout_atr V = e_avg_payout_atr C
    /\ e_avg_fee_per_byte V = e_avg_fee_per_byte C
    /\ e_fee_per_byte V = e_fee_per_byte C
    /\ e_avg_nolan_rebroadcast_per_block V = e_avg_nolan_rebroadcast_per_block C
    /\ e_burnfee V = e_burnfee C
    /\ e_difficulty V = e_difficulty C
    /\ c_total_rebroadcast_slips cV = nsum (map t_atr_slips (c_rebroadcasts cC))
    /\ c_rebroadcast_hash cV = hchain (map t_id (c_rebroadcasts cC))
    /\ same_inputs (c_rebroadcasts cC) (c_rebroadcasts cV) = true
    /\ match c_fee_tx cC with
       | Some f => exists f', c_fee_tx cV = Some f' /\ t_id f' = t_id f
       | None => c_fee_tx cV = None
       end.
  Proof. exact (agreesb_fields hchain). Qed.

  (* Block::create's block passes Block::validate on the same node.  [kept] = the drained pool
     minus the transactions create leaves out because they spend an input of a rebroadcast.
     Hypotheses:
     (cv)   agreesb: cv of the finished block agrees, field by field, with the header
            written from cv of the half-built block; the transactions cv hands over are
            ATR- resp. Fee-typed; a fee transaction only together with a golden ticket;
     (gt)   the golden ticket handed to create is a GoldenTicket transaction whose solution
            validates against the parent (bundle_block guarantees the second: C07_bundled_ticket_solves);
     (pool) the drained pool holds no GoldenTicket/Fee/ATR-typed and no Issuance-typed
            transaction; what is kept is not empty and holds exactly one BlockStake transaction
            if staking is required; every transaction of the block validates on the parent state;
     (work) the kept transactions carry the work validate asks for. *)
  Theorem C07_produced_validates : forall dbg (n : node chain) creator ts gt drained b p,
    v_tip (view (n_chain _ n)) = Some p ->
    create dbg n creator ts gt drained = Ok b ->
    let c0 := cv (n_chain _ n) (n_ledger _ n) (pre_block (Some p) (par_hash p) creator ts gt drained) in
    let kept := kept_pool c0 drained in
    let cC := cv (n_chain _ n) (n_ledger _ n) (pre_block (Some p) (par_hash p) creator ts gt kept) in
    let cV := cv (n_chain _ n) (n_ledger _ n) b in
    agreesb dbg hchain cC cV = true ->
    cv_types_ok cC = true ->
    (c_fee_tx cC <> None -> gt <> None) ->
    (forall g, gt = Some g -> is_type TGoldenTicket g = true /\ gt_ok (n_chain _ n) g = true) ->
    pool_types_ok drained = true ->
    kept <> [] ->
    count_type TIssuance drained = 0 ->
    (v_stake_req (view (n_chain _ n)) = 0 \/ count_type TBlockStake kept = 1) ->
    forallb (tx_valid (n_chain _ n) (n_ledger _ n)) (b_txs b) = true ->
    work_needed (par_burnfee p) ts (par_ts p) (v_heartbeat (view (n_chain _ n)))
      <= nsum (map t_work (opt_list gt ++ kept)) ->
    validate dbg n true b = Ok true.
  Proof. exact (produced_validates_F chain view cv tx_valid gt_ok gt_screen work_needed hchain mroot). Qed.

  (* the same as "forall x, ~ Known_C07 x -> P x": Known_C07 = an Issuance-typed pooled transaction,
     a transaction of the block that does not validate (a pooled input that left the window), kept
     transactions carrying less than the work needed, a ticket that fails Block::validate's check *)
  Theorem C07_produced_validates_outside_known : forall dbg (n : node chain) creator ts gt drained b p,
    v_tip (view (n_chain _ n)) = Some p ->
    create dbg n creator ts gt drained = Ok b ->
    Known_C07 dbg n creator ts gt drained b = false ->
    let c0 := cv (n_chain _ n) (n_ledger _ n) (pre_block (Some p) (par_hash p) creator ts gt drained) in
    let kept := kept_pool c0 drained in
    let cC := cv (n_chain _ n) (n_ledger _ n) (pre_block (Some p) (par_hash p) creator ts gt kept) in
    let cV := cv (n_chain _ n) (n_ledger _ n) b in
    agreesb dbg hchain cC cV = true ->
    cv_types_ok cC = true ->
    (c_fee_tx cC <> None -> gt <> None) ->
    (forall g, gt = Some g -> is_type TGoldenTicket g = true) ->
    pool_types_ok drained = true ->
    kept <> [] ->
    (v_stake_req (view (n_chain _ n)) = 0 \/ count_type TBlockStake kept = 1) ->
    validate dbg n true b = Ok true.
  Proof. exact (produced_validates_outside_known chain view cv tx_valid gt_ok gt_screen work_needed hchain mroot). Qed.

  (* Block::create = the plain steps (no filter) on the pool that is left *)
  Theorem C07_create_filters : forall dbg (n : node chain) creator ts gt d p,
    v_tip (view (n_chain _ n)) = Some p ->
    (forall g, gt = Some g -> is_type TGoldenTicket g = true) ->
    create dbg n creator ts gt d
    = create_plain chain view cv hchain mroot dbg n creator ts gt
        (kept_pool (cv (n_chain _ n) (n_ledger _ n) (pre_block (Some p) (par_hash p) creator ts gt d)) d).
  Proof. exact (create_bridge chain view cv work_needed hchain mroot). Qed.

  (* bundle allowed => a block built from a list that holds the cached work has the work validate
     asks for: both sides use the same function on the same burn fee / timestamps / heartbeat *)
  Theorem C07_gate_implies_work : forall dbg (n : node chain) creator m ts gt w p drained b,
    v_tip (view (n_chain _ n)) = Some p ->
    can_bundle n m ts (is_some gt) = Some w ->
    m_work m <= nsum (map t_work drained) ->
    create_plain chain view cv hchain mroot dbg n creator ts gt drained = Ok b ->
    work_needed (par_burnfee p) (b_ts b) (par_ts p) (v_heartbeat (view (n_chain _ n))) <= b_total_work b.
  Proof. exact (gate_implies_work chain view cv work_needed hchain mroot). Qed.

  (* the producer's path: bundle_block returned a block => Blockchain::add_block accepts it
     (golden-ticket count of Blockchain::validate + Block::validate + check_total_supply; the
     last one is C02's subject and enters as the hypothesis [supply_ok], see C07_dust_spend_witness).
     No hypothesis on the solution of the pooled ticket (fix e0300b2) -- but what passes the screen
     of bundle_block must pass Block::validate's ticket check, which since b8552b5 also refuses the
     all-zero key (listed finding zero-key-ticket-passes-screen).  Since fix 1214e31: what create
     leaves out must not have carried the work the gate counted (listed finding
     left-out-transaction-carried-the-work; dead branch for a young pool, C07_young_pool_nothing_left_out). *)
  Theorem C07_bundle_produced_validates : forall dbg (n : node chain) creator m ts gt stake order b m' p,
    v_tip (view (n_chain _ n)) = Some p ->
    bundle dbg n creator m ts gt stake order = Ok (Bundled b, m') ->
    forall gt' m0 s m1,
    screen n m gt = (gt', m0) ->
    stake = Some s -> intake dbg n m0 s = Ok m1 ->
    let drained := drain_in order (m_txs m1) in
    let c0 := cv (n_chain _ n) (n_ledger _ n) (pre_block (Some p) (par_hash p) creator ts gt' drained) in
    let kept := kept_pool c0 drained in
    let cC := cv (n_chain _ n) (n_ledger _ n) (pre_block (Some p) (par_hash p) creator ts gt' kept) in
    let cV := cv (n_chain _ n) (n_ledger _ n) b in
    agreesb dbg hchain cC cV = true ->
    cv_types_ok cC = true ->
    (c_fee_tx cC <> None -> gt' <> None) ->
    (forall g, gt = Some g -> is_type TGoldenTicket g = true) ->
    (forall g, gt = Some g -> gt_screen (n_chain _ n) g = true -> gt_ok (n_chain _ n) g = true) ->
    pool_types_ok (m_txs m1) = true ->
    count_type TIssuance (m_txs m1) = 0 ->
    (v_stake_req (view (n_chain _ n)) = 0 \/ count_type TBlockStake kept = 1) ->
    forallb (tx_valid (n_chain _ n) (n_ledger _ n)) (b_txs b) = true ->
    m_work m <= nsum (map t_work (m_txs m)) ->
    kept <> [] ->
    nsum (map t_work (m_txs m1)) <= nsum (map t_work kept)
      \/ work_needed (par_burnfee p) ts (par_ts p) (v_heartbeat (view (n_chain _ n))) <= nsum (map t_work kept) ->
    supply_ok (n_chain _ n) (n_ledger _ n) b = true ->
    node_accepts dbg n b = Ok true.
  Proof. exact (bundle_produced_validates chain view cv tx_valid gt_ok gt_screen work_needed supply_ok hchain mroot). Qed.

  (* any other node holding the same chain answers the same: validation reads the chain and
     the ledger, and the ledger is the replay of the chain on every node (C03's invariant,
     here a hypothesis) *)
  Theorem C07_second_node : forall (replay : chain -> list N) dbg (n n2 : node chain) b,
    n_chain _ n2 = n_chain _ n ->
    n_ledger _ n = replay (n_chain _ n) ->
    n_ledger _ n2 = replay (n_chain _ n2) ->
    node_accepts dbg n2 b = node_accepts dbg n b.
  Proof. exact (second_node_same chain view cv tx_valid gt_ok work_needed supply_ok mroot). Qed.

  (* ---- golden tickets (fix e0300b2) ---- *)

  (* why the ticket has to be screened: a block built with a ticket that does not solve the
     tip is never valid *)
  Theorem C07_invalid_gt_rejected : forall dbg (n : node chain) creator ts g drained b p vu,
    v_tip (view (n_chain _ n)) = Some p ->
    par_ghost p = false ->
    create dbg n creator ts (Some g) drained = Ok b ->
    is_type TGoldenTicket g = true ->
    gt_ok (n_chain _ n) g = false ->
    pool_types_ok drained = true ->
    (forall b0, cv_types_ok (cv (n_chain _ n) (n_ledger _ n) b0) = true) ->
    validate dbg n vu b <> Ok true.
  Proof. exact (invalid_gt_rejected chain view cv tx_valid gt_ok work_needed hchain mroot). Qed.

  (* a ticket that reaches Block::create through bundle_block has passed its screen (solves the tip) *)
  Theorem C07_bundled_ticket_solves : forall dbg (n : node chain) creator m ts gt stake order b m' p g,
    v_tip (view (n_chain _ n)) = Some p ->
    bundle dbg n creator m ts gt stake order = Ok (Bundled b, m') ->
    fst (screen n m gt) = Some g ->
    gt = Some g /\ gt_screen (n_chain _ n) g = true.
  Proof. exact (bundled_ticket_solves chain view cv tx_valid gt_screen work_needed hchain mroot). Qed.

  (* the producer recovers: with a pooled ticket for the tip that does not solve it, ONE call of
     bundle_block (clock after the tip) behaves exactly like the call without a ticket on the pool
     without that ticket, and afterwards the pool holds no ticket for the tip -- whatever the
     outcome of the call (no block, block accepted, block rejected for another reason) *)
  Theorem C07_invalid_gt_recovers : forall dbg (n : node chain) creator m ts g stake order out m',
    (match v_tip (view (n_chain _ n)) with Some p => par_ts p | None => 0 end) < ts ->
    pick_gt m (tip_hash n) = Some g ->
    gt_screen (n_chain _ n) g = false ->
    bundle dbg n creator m ts (pick_gt m (tip_hash n)) stake order = Ok (out, m') ->
    pick_gt m' (tip_hash n) = None
    /\ bundle dbg n creator (drop_ticket chain view n m g) ts None stake order = Ok (out, m').
  Proof. exact (producer_recovers chain view cv tx_valid gt_screen work_needed hchain mroot). Qed.

  (* ... but the screen is weaker than Block::validate's check: a pooled ticket for the tip that
     solves it and names the all-zero key is handed to Block::create on every tick, the block is
     never valid, bundle_block leaves the ticket map alone and add_block_failure deletes under the
     hash of the failed block: the producer is stuck as before e0300b2 *)
  Theorem C07_screened_bad_ticket_stays : forall dbg (n : node chain) creator m ts g stake order out m' p,
    v_tip (view (n_chain _ n)) = Some p ->
    par_ghost p = false ->
    par_ts p < ts ->
    pick_gt m (par_hash p) = Some g ->
    is_type TGoldenTicket g = true ->
    gt_screen (n_chain _ n) g = true ->
    gt_ok (n_chain _ n) g = false ->
    pool_types_ok (m_txs m) = true ->
    (forall b0, cv_types_ok (cv (n_chain _ n) (n_ledger _ n) b0) = true) ->
    bundle dbg n creator m ts (pick_gt m (par_hash p)) stake order = Ok (out, m') ->
    pick_gt m' (par_hash p) = Some g
    /\ forall b, out = Bundled b -> node_accepts dbg n b <> Ok true.
  Proof. exact (screened_bad_ticket_stays chain view cv tx_valid gt_ok gt_screen work_needed supply_ok hchain mroot). Qed.

  Theorem C07_failure_keeps_ticket : forall dbg (n : node chain) m h mine b m1 tip,
    after_failure chain tx_valid dbg n m h mine b = Ok m1 -> h <> tip ->
    pool_types_ok (m_txs m) = true ->
    pick_gt m1 tip = pick_gt m tip /\ pool_types_ok (m_txs m1) = true.
  Proof. exact (after_failure_inv chain tx_valid). Qed.

  (* ---- the window (fix bb88717): an input can be spent in block [next] iff its block id + genesis
     period >= next; block [next] rebroadcasts the outputs of block next - genesis_period - 1 ---- *)

  (* a pool that holds only such inputs collides with no rebroadcast: create leaves nothing out *)
  Theorem C07_young_pool_kept : forall (key_block : N -> N) gp next c0 d,
    rebroadcasts_due key_block gp next c0 = true ->
    young_pool key_block gp next d = true ->
    kept_pool c0 d = d.
  Proof. exact (young_pool_kept chain gt_ok gt_screen work_needed). Qed.

  (* the intake keeps the pool young while the tip stays (Transaction::validate refuses older inputs) *)
  Theorem C07_intake_keeps_young : forall (key_block : N -> N) gp next dbg (n : node chain) m t m1,
    (forall x, tx_valid (n_chain _ n) (n_ledger _ n) x = true -> young_tx key_block gp next x = true) ->
    young_pool key_block gp next (m_txs m) = true ->
    intake dbg n m t = Ok m1 ->
    young_pool key_block gp next (m_txs m1) = true.
  Proof. exact (intake_keeps_young chain tx_valid). Qed.

  (* so from a young pool the left-out branch of Block::create is dead and the hypothesis of
     C07_bundle_produced_validates about the left-out work holds.  What is MISSING in the code is
     the other half of the invariant: when the tip moves, Blockchain::remove_block_transactions
     re-validates the pool against the utxoset only, not against the window
     (see the C07_pool_not_young_refuted examples) *)
  Theorem C07_young_pool_nothing_left_out : forall (key_block : N -> N) gp next dbg (n : node chain) m s m1 order creator ts gt p,
    v_tip (view (n_chain _ n)) = Some p ->
    (forall x, tx_valid (n_chain _ n) (n_ledger _ n) x = true -> young_tx key_block gp next x = true) ->
    young_pool key_block gp next (m_txs m) = true ->
    intake dbg n m s = Ok m1 ->
    let drained := drain_in order (m_txs m1) in
    let c0 := cv (n_chain _ n) (n_ledger _ n) (pre_block (Some p) (par_hash p) creator ts gt drained) in
    rebroadcasts_due key_block gp next c0 = true ->
    kept_pool c0 drained = drained
    /\ nsum (map t_work (m_txs m1)) <= nsum (map t_work (kept_pool c0 drained)).
  Proof. exact (young_pool_nothing_left_out chain view cv tx_valid gt_ok gt_screen work_needed supply_ok hchain mroot). Qed.

  (* ---- staking transactions of other keys are not pooled (fix 9879695) ---- *)
  Theorem C07_foreign_stake_refused : forall dbg (n : node chain) m t,
    is_type TBlockStake t = true -> t_own t = false -> intake dbg n m t = Ok m.
  Proof. exact (foreign_stake_refused chain tx_valid). Qed.

  (* ---- timestamps (fix f62222f) ---- *)
  Theorem C07_bundle_ts_declines : forall dbg (n : node chain) creator m ts gt stake order p,
    v_tip (view (n_chain _ n)) = Some p -> ts <= par_ts p ->
    bundle dbg n creator m ts gt stake order = Ok (GateClosed, m).
  Proof. exact (bundle_ts_declines chain view cv tx_valid gt_screen work_needed hchain mroot). Qed.

  (* ---- Block::create failing (fix 1214e31) ---- *)

  (* it fails only on a double spend among what it kept, its rebroadcasts and the fee
     transaction -- and no kept pooled transaction collides with a rebroadcast *)
  Theorem C07_create_error_is_double_spend : forall dbg (n : node chain) creator ts gt drained p,
    v_tip (view (n_chain _ n)) = Some p ->
    (forall g, gt = Some g -> is_type TGoldenTicket g = true) ->
    create dbg n creator ts gt drained = Err ->
    let c0 := cv (n_chain _ n) (n_ledger _ n) (pre_block (Some p) (par_hash p) creator ts gt drained) in
    let kept := kept_pool c0 drained in
    let cC := cv (n_chain _ n) (n_ledger _ n) (pre_block (Some p) (par_hash p) creator ts gt kept) in
    dup_spend ((opt_list gt ++ kept) ++ c_rebroadcasts cC ++ opt_list (c_fee_tx cC)) = true
    /\ (c_rebroadcasts c0 <> [] ->
        forall t, In t kept -> is_type TGoldenTicket t = true \/ collides (rb_inputs c0) t = false).
  Proof. exact (create_err_is_double_spend chain view cv work_needed hchain mroot). Qed.

  (* and then the pool gets back what create had drained and not left out, with reservations
     and work cache recomputed from it *)
  Theorem C07_create_failure_restores : forall dbg (n : node chain) creator m ts gt stake order m',
    bundle dbg n creator m ts gt stake order = Ok (CreateFailed, m') ->
    exists gt' m0 s m1,
      screen n m gt = (gt', m0) /\ stake = Some s /\ intake dbg n m0 s = Ok m1
      /\ m_txs m' = handed_back chain view cv n creator ts gt' (drain_in order (m_txs m1))
      /\ m_work m' = nsum (map t_work (m_txs m'))
      /\ m_umap m' = flat_map t_inputs (m_txs m')
      /\ m_gts m' = m_gts m0.
  Proof. exact (create_failure_restores chain view cv tx_valid gt_screen work_needed hchain mroot). Qed.
End C07.

(* ---------------------------------------------------------------- witnesses and regressions
   Recorded rounds of the REAL code at /repo HEAD (harness/src/bin/c07.rs, scripted scenarios,
   seed 1): the pool, the chain view, the ConsensusValues computed by Block::create ([rc_cvC] =
   block.cv) and by generate_consensus_values on the finished block on the second node
   ([rc_cvV]), the verdicts of Transaction::validate / the golden-ticket check, the observed
   outcome ([rc_expected]).  The work function is the constant the real function returned in
   that round. *)
Definition wn0 : N -> N -> N -> N -> N := fun _ _ _ _ => 0.

(* cap: {"label": "dust-profile", "tip": 5, "gap_ms": 25000, "pool_ops": [{"op": "transfer", "payer": 2, "input": "5:1:1 amount 613335", "fee": 20000, "hops": 1, "pooled": true}, {"op": "transfer", "payer": 3, "input": "5:2:0 amount 606669", "fee": 20000, "hops": 1, "pooled": true}, {"op": "transfer", "payer": 4, "input": "5:3:0 amount 600003", "fee": 20000, "hops": 1, "pooled": true}, {"op": "transfer", "payer": 5, "input": "5:4:0 amount 593337", "fee": 20000, "hops": 1, "pooled": true}], "pool_size": 4, "cached_work": 80000, "work_needed": 0, "gt_for_tip": false, "outcome": "Accepted", "detail": "block 6 txs(types) [0, 0, 0, 0, 3] producer OnChain second node OnChain; atr multiplier 3; diffs []; create-vs-validate cv []"} *)
Definition wit_cap : rcase :=
  mkRC (mkView (Some (mkPar 65 5 1100000 40000 2 96428 12649111 false)) false 0 10000 840 true true) (mkM [(mkTx 69 70 TNormal 20000 [71] 0 0 false); (mkTx 72 73 TNormal 20000 [74] 0 0 false); (mkTx 75 76 TNormal 20000 [77] 0 0 false); (mkTx 78 79 TNormal 20000 [80] 0 0 false)] [71; 74; 77; 80] 80000 true true []) 18 1125000 (Some (mkTx 14 15 TBlockStake 0 [] 0 0 true)) [79; 73; 76; 70] 81 (mkCv (mkE 80000 80000 0 80000 73115 69464 3651 0 0 0 0 0 21728 12840 0 0 0 44 56 112540 8000000 0) [(mkTx 82 9 TATR 0 [83] 1 0 false)] 1 84 None) (mkCv (mkE 80000 80000 0 80000 73115 69464 3651 0 0 0 0 0 21728 12840 0 0 0 44 56 112540 8000000 0) [(mkTx 82 9 TATR 0 [83] 1 0 false)] 1 84 None) [(69, true); (72, true); (75, true); (78, true); (14, false); (82, true)] [] [] [(71, 5); (74, 5); (77, 5); (80, 5); (83, 2)] 3 [([82], 84); ([], 0)] [([78; 72; 75; 69; 82], 85)] true [[4]; [78; 72; 75; 69; 82]; [6; 1125000; 65; 96428; 40000; 2]; [80000; 80000; 0; 80000; 73115; 69464; 3651; 0; 0; 0; 0; 0; 21728; 12840; 0; 0; 0; 44; 56; 112540; 8000000; 0]; [80000; 1; 84; 85]; [1; 1]; []; [0; 0]; []].

(* gt: {"label": "invalid-golden-ticket", "tip": 4, "gap_ms": 25000, "pool_ops": [{"op": "transfer", "payer": 2, "input": "1:9:0 amount 401002", "fee": 5000, "hops": 1, "pooled": true}, {"op": "transfer", "payer": 3, "input": "3:3:0 amount 401703", "fee": 300, "hops": 2, "pooled": true}, {"op": "transfer", "payer": 4, "input": "1:29:0 amount 405004", "fee": 0, "hops": 0, "pooled": true}, {"op": "golden-ticket", "kind": "Invalid", "tip_difficulty": 2}], "pool_size": 3, "cached_work": 5150, "work_needed": 0, "gt_for_tip": true, "outcome": "Accepted", "detail": "block 5 txs(types) [0, 0, 0] producer OnChain second node OnChain; atr multiplier 1; diffs []; create-vs-validate cv []"} *)
Definition wit_gt : rcase :=
  mkRC (mkView (Some (mkPar 46 4 1075000 0 2120 5300 20000000 false)) false 0 10000 3900 true true) (mkM [(mkTx 50 51 TNormal 0 [52] 0 0 false); (mkTx 53 54 TNormal 150 [55] 0 0 false); (mkTx 56 57 TNormal 5000 [58] 0 0 false)] [52; 55; 58] 5150 true true [(46, mkTx 59 60 TGoldenTicket 0 [] 0 46 true)]) 19 1100000 (Some (mkTx 13 14 TBlockStake 0 [] 0 0 true)) [51; 57; 54] 61 (mkCv (mkE 5300 5300 0 5300 3128 3128 0 0 0 0 0 0 628 628 0 0 0 1 5 0 12649111 2) [] 0 0 None) (mkCv (mkE 5300 5300 0 5300 3128 3128 0 0 0 0 0 0 628 628 0 0 0 1 5 0 12649111 2) [] 0 0 None) [(50, true); (53, true); (56, true); (13, false)] [(59, false)] [(59, false)] [(52, 1); (55, 3); (58, 1)] 5 [([], 0)] [([50; 56; 53], 62)] true [[4]; [50; 56; 53]; [5; 1100000; 46; 5300; 0; 2120]; [5300; 5300; 0; 5300; 3128; 3128; 0; 0; 0; 0; 0; 0; 628; 628; 0; 0; 0; 1; 5; 0; 12649111; 2]; [5150; 0; 0; 62]; [1; 1]; []; [0; 0]; []].

(* issuance: {"label": "issuance", "tip": 3, "gap_ms": 25000, "pool_ops": [{"op": "transfer", "payer": 2, "input": "1:14:0 amount 406002", "fee": 5000, "hops": 1, "pooled": true}, {"op": "transfer", "payer": 3, "input": "1:20:0 amount 404003", "fee": 300, "hops": 2, "pooled": true}, {"op": "transfer", "payer": 4, "input": "2:0:0 amount 404004", "fee": 0, "hops": 0, "pooled": true}, {"op": "issuance-typed", "pooled": true}], "pool_size": 4, "cached_work": 5150, "work_needed": 0, "gt_for_tip": false, "outcome": "Rejected", "detail": "block 4 txs(types) [0, 0, 6, 0] producer Invalid second node Invalid; atr multiplier 1; diffs []; create-vs-validate cv []"} *)
Definition wit_issuance : rcase :=
  mkRC (mkView (Some (mkPar 27 3 1050000 0 2120 5300 31622777 false)) false 0 10000 4936 true true) (mkM [(mkTx 31 32 TNormal 150 [33] 0 0 false); (mkTx 34 35 TNormal 0 [36] 0 0 false); (mkTx 37 38 TNormal 5000 [39] 0 0 false); (mkTx 40 41 TIssuance 0 [] 0 0 true)] [33; 36; 39] 5150 true true []) 15 1075000 (Some (mkTx 11 12 TBlockStake 0 [] 0 0 true)) [35; 38; 41; 32] 42 (mkCv (mkE 5300 5300 0 5300 2586 2586 0 0 0 0 0 0 255 255 0 0 0 1 5 0 20000000 0) [] 0 0 None) (mkCv (mkE 5300 5300 0 5300 2586 2586 0 0 0 0 0 0 255 255 0 0 0 1 5 0 20000000 0) [] 0 0 None) [(31, true); (34, true); (37, true); (40, true); (11, false)] [] [] [(33, 1); (36, 2); (39, 1)] 5 [([], 0)] [([34; 37; 40; 31], 43)] true [[4]; [34; 37; 40; 31]; [4; 1075000; 27; 5300; 0; 2120]; [5300; 5300; 0; 5300; 2586; 2586; 0; 0; 0; 0; 0; 0; 255; 255; 0; 0; 0; 1; 5; 0; 20000000; 0]; [5150; 0; 0; 43]; [0; 0]; [32; 35; 38]; [5150; 1]; []].

(* stake: {"label": "foreign-stake", "tip": 3, "gap_ms": 25000, "pool_ops": [{"op": "transfer", "payer": 2, "input": "1:14:0 amount 406002", "fee": 5000, "hops": 1, "pooled": true}, {"op": "transfer", "payer": 3, "input": "1:20:0 amount 404003", "fee": 300, "hops": 2, "pooled": true}, {"op": "transfer", "payer": 4, "input": "2:1:0 amount 404004", "fee": 0, "hops": 0, "pooled": true}, {"op": "blockstake-typed-from-peer", "payer": 5, "pooled": false}], "pool_size": 3, "cached_work": 5150, "work_needed": 0, "gt_for_tip": false, "outcome": "Accepted", "detail": "block 4 txs(types) [0, 0, 0, 7] producer OnChain second node OnChain; atr multiplier 1; diffs []; create-vs-validate cv []"} *)
Definition wit_stake : rcase :=
  mkRC (mkView (Some (mkPar 31 3 1050000 0 2120 5300 31622777 false)) false 50000 10000 3108 true true) (mkM [(mkTx 35 36 TNormal 150 [37] 0 0 false); (mkTx 38 39 TNormal 0 [40] 0 0 false); (mkTx 41 42 TNormal 5000 [43] 0 0 false)] [37; 40; 43] 5150 true true []) 16 1075000 (Some (mkTx 44 45 TBlockStake 0 [46] 0 0 true)) [42; 36; 39; 45] 47 (mkCv (mkE 5300 5300 0 5300 2586 2586 0 0 0 0 0 0 255 255 0 0 0 0 4 0 20000000 0) [] 0 0 None) (mkCv (mkE 5300 5300 0 5300 2586 2586 0 0 0 0 0 0 255 255 0 0 0 0 4 0 20000000 0) [] 0 0 None) [(35, true); (38, true); (41, true); (44, true)] [] [] [(37, 1); (40, 2); (43, 1); (46, 1)] 5 [([], 0)] [([41; 35; 38; 44], 48)] true [[4]; [41; 35; 38; 44]; [4; 1075000; 31; 5300; 0; 2120]; [5300; 5300; 0; 5300; 2586; 2586; 0; 0; 0; 0; 0; 0; 255; 255; 0; 0; 0; 0; 4; 0; 20000000; 0]; [5150; 0; 0; 48]; [1; 1]; []; [0; 0]; []].

(* ts: {"label": "timestamp-order", "tip": 3, "gap_ms": 0, "pool_ops": [{"op": "transfer", "payer": 2, "input": "1:14:0 amount 406002", "fee": 5000, "hops": 1, "pooled": true}, {"op": "transfer", "payer": 3, "input": "1:20:0 amount 404003", "fee": 300, "hops": 2, "pooled": true}, {"op": "transfer", "payer": 4, "input": "2:2:0 amount 404004", "fee": 0, "hops": 0, "pooled": true}], "pool_size": 3, "cached_work": 5150, "work_needed": 10000000000000000000, "gt_for_tip": false, "outcome": "GateClosed", "detail": ""} *)
Definition wit_ts : rcase :=
  mkRC (mkView (Some (mkPar 27 3 1050000 0 2120 5300 31622777 false)) false 0 10000 4892 true true) (mkM [(mkTx 31 32 TNormal 150 [33] 0 0 false); (mkTx 34 35 TNormal 0 [36] 0 0 false); (mkTx 37 38 TNormal 5000 [39] 0 0 false)] [33; 36; 39] 5150 true true []) 15 1050000 (Some (mkTx 11 12 TBlockStake 0 [] 0 0 true)) [32; 35; 38; 12] 0 (mkCv econ0 [] 0 0 None) (mkCv econ0 [] 0 0 None) [(31, true); (34, true); (37, true); (11, false)] [] [] [(33, 1); (36, 2); (39, 1)] 5 [([], 0)] [] true [[1]; [32; 35; 38]; [5150; 1]; []].

(* leftout: {"label": "pooled-input-ages-and-carried-the-work", "tip": 8, "gap_ms": 15000, "pool_ops": [{"op": "spend-oldest-spendable-output", "payer": 2, "input": "5:2:0 amount 393002", "fee": 60000, "pooled": true}, {"op": "transfer", "payer": 4, "input": "7:4:0 amount 406700", "fee": 0, "hops": 0, "pooled": true}, {"op": "peer-block", "own_transactions_only": true, "txs": 1, "producer": "OnChain", "second": "OnChain", "pool_after": 2, "cached_work_after": 60000}], "pool_size": 2, "cached_work": 60000, "work_needed": 213, "gt_for_tip": false, "outcome": "Rejected", "detail": "block 9 txs(types) [0, 3, 3, 3, 3, 3, 3, 3, 3, 3, 3, 3, 3, 3, 3, 3, 3, 3, 3, 3, 3, 3, 3, 3, 3, 3, 3, 3, 3, 3, 3, 3, 3, 3] producer Invalid second node Invalid; atr multiplier 1; diffs [\"total_work 0 below work needed 213 (cached pool work was 60000)\"]; create-vs-validate cv []"} *)
Definition wit_leftout : rcase :=
  mkRC (mkView (Some (mkPar 180 8 1175000 10164 8333 952 3200000 false)) false 0 10000 4471 true true) (mkM [(mkTx 181 182 TNormal 0 [183] 0 0 false); (mkTx 184 185 TNormal 60000 [186] 0 0 false)] [183; 186] 60000 true true []) 15 1190000 (Some (mkTx 11 12 TBlockStake 0 [] 0 0 true)) [182] 187 (mkCv (mkE 23268 0 23268 23268 10582 1628 8954 0 0 0 6566 0 1662 374 0 2188 0 2 0 10209503 2612789 0) [(mkTx 188 46 TATR 0 [189] 1 0 false); (mkTx 190 43 TATR 0 [186] 1 0 false); (mkTx 191 49 TATR 0 [192] 1 0 false); (mkTx 193 55 TATR 0 [194] 1 0 true); (mkTx 195 58 TATR 0 [196] 1 0 true); (mkTx 197 61 TATR 0 [198] 1 0 true); (mkTx 199 64 TATR 0 [200] 1 0 true); (mkTx 201 67 TATR 0 [202] 1 0 true); (mkTx 203 70 TATR 0 [204] 1 0 true); (mkTx 205 73 TATR 0 [206] 1 0 true); (mkTx 207 76 TATR 0 [208] 1 0 true); (mkTx 209 85 TATR 0 [210] 1 0 false); (mkTx 211 88 TATR 0 [212] 1 0 false); (mkTx 213 91 TATR 0 [214] 1 0 false); (mkTx 215 94 TATR 0 [216] 1 0 false); (mkTx 217 100 TATR 0 [218] 1 0 false); (mkTx 219 103 TATR 0 [220] 1 0 false); (mkTx 221 106 TATR 0 [222] 1 0 false); (mkTx 223 109 TATR 0 [224] 1 0 false); (mkTx 225 112 TATR 0 [226] 1 0 false); (mkTx 227 118 TATR 0 [228] 1 0 false); (mkTx 229 121 TATR 0 [230] 1 0 false); (mkTx 231 127 TATR 0 [232] 1 0 false); (mkTx 233 130 TATR 0 [234] 1 0 false); (mkTx 235 133 TATR 0 [236] 1 0 false); (mkTx 237 136 TATR 0 [238] 1 0 false); (mkTx 239 139 TATR 0 [240] 1 0 false); (mkTx 241 142 TATR 0 [242] 1 0 false); (mkTx 243 145 TATR 0 [244] 1 0 false); (mkTx 245 148 TATR 0 [246] 1 0 false); (mkTx 247 151 TATR 0 [248] 1 0 true); (mkTx 249 151 TATR 0 [250] 1 0 true); (mkTx 251 151 TATR 0 [252] 1 0 true)] 33 253 None) (mkCv (mkE 23268 0 23268 23268 10582 1628 8954 0 0 0 6566 0 1662 374 0 2188 0 2 0 10209503 2612789 0) [(mkTx 188 46 TATR 0 [189] 1 0 false); (mkTx 190 43 TATR 0 [186] 1 0 false); (mkTx 191 49 TATR 0 [192] 1 0 false); (mkTx 193 55 TATR 0 [194] 1 0 true); (mkTx 195 58 TATR 0 [196] 1 0 true); (mkTx 197 61 TATR 0 [198] 1 0 true); (mkTx 199 64 TATR 0 [200] 1 0 true); (mkTx 201 67 TATR 0 [202] 1 0 true); (mkTx 203 70 TATR 0 [204] 1 0 true); (mkTx 205 73 TATR 0 [206] 1 0 true); (mkTx 207 76 TATR 0 [208] 1 0 true); (mkTx 209 85 TATR 0 [210] 1 0 false); (mkTx 211 88 TATR 0 [212] 1 0 false); (mkTx 213 91 TATR 0 [214] 1 0 false); (mkTx 215 94 TATR 0 [216] 1 0 false); (mkTx 217 100 TATR 0 [218] 1 0 false); (mkTx 219 103 TATR 0 [220] 1 0 false); (mkTx 221 106 TATR 0 [222] 1 0 false); (mkTx 223 109 TATR 0 [224] 1 0 false); (mkTx 225 112 TATR 0 [226] 1 0 false); (mkTx 227 118 TATR 0 [228] 1 0 false); (mkTx 229 121 TATR 0 [230] 1 0 false); (mkTx 231 127 TATR 0 [232] 1 0 false); (mkTx 233 130 TATR 0 [234] 1 0 false); (mkTx 235 133 TATR 0 [236] 1 0 false); (mkTx 237 136 TATR 0 [238] 1 0 false); (mkTx 239 139 TATR 0 [240] 1 0 false); (mkTx 241 142 TATR 0 [242] 1 0 false); (mkTx 243 145 TATR 0 [244] 1 0 false); (mkTx 245 148 TATR 0 [246] 1 0 false); (mkTx 247 151 TATR 0 [248] 1 0 true); (mkTx 249 151 TATR 0 [250] 1 0 true); (mkTx 251 151 TATR 0 [252] 1 0 true)] 33 253 None) [(181, true); (184, false); (11, false); (188, true); (190, true); (191, true); (193, true); (195, true); (197, true); (199, true); (201, true); (203, true); (205, true); (207, true); (209, true); (211, true); (213, true); (215, true); (217, true); (219, true); (221, true); (223, true); (225, true); (227, true); (229, true); (231, true); (233, true); (235, true); (237, true); (239, true); (241, true); (243, true); (245, true); (247, true); (249, true); (251, true)] [] [] [(183, 7); (186, 5); (189, 5); (192, 5); (194, 5); (196, 5); (198, 5); (200, 5); (202, 5); (204, 5); (206, 5); (208, 5); (210, 5); (212, 5); (214, 5); (216, 5); (218, 5); (220, 5); (222, 5); (224, 5); (226, 5); (228, 5); (230, 5); (232, 5); (234, 5); (236, 5); (238, 5); (240, 5); (242, 5); (244, 5); (246, 5); (248, 5); (250, 5); (252, 5)] 3 [([188; 190; 191; 193; 195; 197; 199; 201; 203; 205; 207; 209; 211; 213; 215; 217; 219; 221; 223; 225; 227; 229; 231; 233; 235; 237; 239; 241; 243; 245; 247; 249; 251], 253); ([], 0)] [([181; 188; 190; 191; 193; 195; 197; 199; 201; 203; 205; 207; 209; 211; 213; 215; 217; 219; 221; 223; 225; 227; 229; 231; 233; 235; 237; 239; 241; 243; 245; 247; 249; 251], 254)] true [[4]; [181; 188; 190; 191; 193; 195; 197; 199; 201; 203; 205; 207; 209; 211; 213; 215; 217; 219; 221; 223; 225; 227; 229; 231; 233; 235; 237; 239; 241; 243; 245; 247; 249; 251]; [9; 1190000; 180; 952; 10164; 14899]; [23268; 0; 23268; 23268; 10582; 1628; 8954; 0; 0; 0; 6566; 0; 1662; 374; 0; 2188; 0; 2; 0; 10209503; 2612789; 0]; [0; 33; 253; 254]; [0; 0]; [182]; [0; 1]; []].

(* aged: {"label": "pooled-dust-input-ages", "tip": 8, "gap_ms": 25000, "pool_ops": [{"op": "transfer", "payer": 2, "input": "5:15:0 amount 396682", "fee": 20000, "hops": 1, "pooled": true}, {"op": "transfer", "payer": 3, "input": "5:20:0 amount 396683", "fee": 20000, "hops": 1, "pooled": true}, {"op": "transfer", "payer": 4, "input": "5:25:0 amount 396684", "fee": 20000, "hops": 1, "pooled": true}, {"op": "transfer-creating-a-60-nolan-output", "payer": 5, "pooled": true}, {"op": "spend-oldest-spendable-output", "payer": 5, "input": "5:1:0 amount 60", "fee": 10, "pooled": true}, {"op": "peer-block", "own_transactions_only": true, "txs": 1, "producer": "OnChain", "second": "OnChain", "pool_after": 5, "cached_work_after": 80010}], "pool_size": 5, "cached_work": 80010, "work_needed": 0, "gt_for_tip": false, "outcome": "Rejected", "detail": "block 9 txs(types) [0, 3, 3, 3, 3, 3, 3, 3, 3, 3, 3, 3, 3, 3, 3, 3, 3, 3, 3, 3, 3, 3, 3, 3, 3, 3, 3, 3] producer Invalid second node Invalid; atr multiplier 1; diffs []; create-vs-validate cv []"} *)
Definition wit_aged : rcase :=
  mkRC (mkView (Some (mkPar 201 8 1175000 154480 114482 82878 3200000 false)) false 0 10000 3736 true true) (mkM [(mkTx 202 203 TNormal 20000 [204] 0 0 false); (mkTx 205 206 TNormal 20000 [207] 0 0 false); (mkTx 208 209 TNormal 10 [210] 0 0 false); (mkTx 211 212 TNormal 20000 [213] 0 0 false); (mkTx 214 215 TNormal 20000 [216] 0 0 false)] [204; 207; 210; 213; 216] 80010 true true []) 18 1200000 (Some (mkTx 14 15 TBlockStake 0 [] 0 0 true)) [209] 217 (mkCv (mkE 286630 10 286620 286570 171236 32440 138796 0 0 0 181436 0 29328 9735 0 60478 0 20 0 9556143 2023858 0) [(mkTx 218 61 TATR 0 [219] 1 0 false); (mkTx 220 55 TATR 0 [221] 1 0 false); (mkTx 222 58 TATR 0 [223] 1 0 false); (mkTx 224 52 TATR 0 [225] 1 0 false); (mkTx 226 67 TATR 0 [227] 1 0 true); (mkTx 228 70 TATR 0 [229] 1 0 true); (mkTx 230 73 TATR 0 [231] 1 0 true); (mkTx 232 76 TATR 0 [233] 1 0 true); (mkTx 234 79 TATR 0 [235] 1 0 true); (mkTx 236 82 TATR 0 [237] 1 0 true); (mkTx 238 85 TATR 0 [239] 1 0 true); (mkTx 240 88 TATR 0 [241] 1 0 true); (mkTx 242 91 TATR 0 [243] 1 0 false); (mkTx 244 94 TATR 0 [245] 1 0 false); (mkTx 246 97 TATR 0 [213] 1 0 false); (mkTx 247 106 TATR 0 [248] 1 0 false); (mkTx 249 109 TATR 0 [250] 1 0 false); (mkTx 251 112 TATR 0 [216] 1 0 false); (mkTx 252 121 TATR 0 [253] 1 0 false); (mkTx 254 124 TATR 0 [255] 1 0 false); (mkTx 256 127 TATR 0 [207] 1 0 false); (mkTx 257 136 TATR 0 [258] 1 0 false); (mkTx 259 139 TATR 0 [260] 1 0 false); (mkTx 261 142 TATR 0 [204] 1 0 false); (mkTx 262 151 TATR 0 [263] 1 0 true); (mkTx 264 151 TATR 0 [265] 1 0 true); (mkTx 266 151 TATR 0 [267] 1 0 true)] 27 268 None) (mkCv (mkE 286630 10 286620 286570 171236 32440 138796 0 0 0 181436 0 29328 9735 0 60478 0 20 0 9556143 2023858 0) [(mkTx 218 61 TATR 0 [219] 1 0 false); (mkTx 220 55 TATR 0 [221] 1 0 false); (mkTx 222 58 TATR 0 [223] 1 0 false); (mkTx 224 52 TATR 0 [225] 1 0 false); (mkTx 226 67 TATR 0 [227] 1 0 true); (mkTx 228 70 TATR 0 [229] 1 0 true); (mkTx 230 73 TATR 0 [231] 1 0 true); (mkTx 232 76 TATR 0 [233] 1 0 true); (mkTx 234 79 TATR 0 [235] 1 0 true); (mkTx 236 82 TATR 0 [237] 1 0 true); (mkTx 238 85 TATR 0 [239] 1 0 true); (mkTx 240 88 TATR 0 [241] 1 0 true); (mkTx 242 91 TATR 0 [243] 1 0 false); (mkTx 244 94 TATR 0 [245] 1 0 false); (mkTx 246 97 TATR 0 [213] 1 0 false); (mkTx 247 106 TATR 0 [248] 1 0 false); (mkTx 249 109 TATR 0 [250] 1 0 false); (mkTx 251 112 TATR 0 [216] 1 0 false); (mkTx 252 121 TATR 0 [253] 1 0 false); (mkTx 254 124 TATR 0 [255] 1 0 false); (mkTx 256 127 TATR 0 [207] 1 0 false); (mkTx 257 136 TATR 0 [258] 1 0 false); (mkTx 259 139 TATR 0 [260] 1 0 false); (mkTx 261 142 TATR 0 [204] 1 0 false); (mkTx 262 151 TATR 0 [263] 1 0 true); (mkTx 264 151 TATR 0 [265] 1 0 true); (mkTx 266 151 TATR 0 [267] 1 0 true)] 27 268 None) [(202, false); (205, false); (208, false); (211, false); (214, false); (14, false); (218, true); (220, true); (222, true); (224, true); (226, true); (228, true); (230, true); (232, true); (234, true); (236, true); (238, true); (240, true); (242, true); (244, true); (246, true); (247, true); (249, true); (251, true); (252, true); (254, true); (256, true); (257, true); (259, true); (261, true); (262, true); (264, true); (266, true)] [] [] [(204, 5); (207, 5); (210, 5); (213, 5); (216, 5); (219, 5); (221, 5); (223, 5); (225, 5); (227, 5); (229, 5); (231, 5); (233, 5); (235, 5); (237, 5); (239, 5); (241, 5); (243, 5); (245, 5); (248, 5); (250, 5); (253, 5); (255, 5); (258, 5); (260, 5); (263, 5); (265, 5); (267, 5)] 3 [([218; 220; 222; 224; 226; 228; 230; 232; 234; 236; 238; 240; 242; 244; 246; 247; 249; 251; 252; 254; 256; 257; 259; 261; 262; 264; 266], 268); ([], 0)] [([208; 218; 220; 222; 224; 226; 228; 230; 232; 234; 236; 238; 240; 242; 244; 246; 247; 249; 251; 252; 254; 256; 257; 259; 261; 262; 264; 266], 269)] true [[4]; [208; 218; 220; 222; 224; 226; 228; 230; 232; 234; 236; 238; 240; 242; 244; 246; 247; 249; 251; 252; 254; 256; 257; 259; 261; 262; 264; 266]; [9; 1200000; 201; 82878; 154480; 295918]; [286630; 10; 286620; 286570; 171236; 32440; 138796; 0; 0; 0; 181436; 0; 29328; 9735; 0; 60478; 0; 20; 0; 9556143; 2023858; 0]; [10; 27; 268; 269]; [0; 0]; []; [0; 1]; []].

(* zerogt: {"label": "zero-key-ticket", "tip": 4, "gap_ms": 25000, "pool_ops": [{"op": "transfer", "payer": 2, "input": "1:9:0 amount 401002", "fee": 5000, "hops": 1, "pooled": true}, {"op": "transfer", "payer": 3, "input": "3:3:0 amount 401703", "fee": 300, "hops": 2, "pooled": true}, {"op": "transfer", "payer": 4, "input": "1:29:0 amount 405004", "fee": 0, "hops": 0, "pooled": true}, {"op": "golden-ticket", "kind": "ZeroKey", "tip_difficulty": 0}], "pool_size": 3, "cached_work": 5150, "work_needed": 0, "gt_for_tip": true, "outcome": "Rejected", "detail": "block 5 txs(types) [2, 0, 0, 0, 1] producer Invalid second node Invalid; atr multiplier 1; diffs []; create-vs-validate cv []"} *)
Definition wit_zerogt : rcase :=
  mkRC (mkView (Some (mkPar 40 4 1075000 0 2120 5300 20000000 false)) false 0 10000 2103 true true) (mkM [(mkTx 42 43 TNormal 0 [44] 0 0 false); (mkTx 45 46 TNormal 150 [47] 0 0 false); (mkTx 48 49 TNormal 5000 [50] 0 0 false)] [44; 47; 50] 5150 true true [(40, mkTx 51 52 TGoldenTicket 0 [] 0 40 true)]) 15 1100000 (Some (mkTx 11 12 TBlockStake 0 [] 0 0 true)) [46; 49; 43] 53 (mkCv (mkE 5300 5300 0 5300 3128 3128 0 5300 2650 2650 0 0 1264 734 530 0 0 1 3 0 12649111 0) [] 0 0 (Some (mkTx 54 0 TFee 0 [] 0 0 true))) (mkCv (mkE 5300 5300 0 5300 3128 3128 0 5300 2650 2650 0 0 1264 734 530 0 0 1 3 0 12649111 0) [] 0 0 (Some (mkTx 54 0 TFee 0 [] 0 0 true))) [(42, true); (45, true); (48, true); (11, false); (51, true); (54, true)] [(51, false)] [(51, true)] [(44, 1); (47, 3); (50, 1)] 5 [([], 0)] [([51; 45; 48; 42; 54], 56)] true [[4]; [51; 45; 48; 42; 54]; [5; 1100000; 40; 0; 2650; 2120]; [5300; 5300; 0; 5300; 3128; 3128; 0; 5300; 2650; 2650; 0; 0; 1264; 734; 530; 0; 0; 1; 3; 0; 12649111; 0]; [5150; 0; 0; 56]; [0; 0]; [43; 46; 49]; [5150; 1]; [40]].

(* ok: {"label": "work-gated", "tip": 10, "gap_ms": 10000, "pool_ops": [{"op": "transfer", "payer": 2, "input": "10:9:0 amount 402002", "fee": 5000, "hops": 1, "pooled": true}, {"op": "transfer", "payer": 3, "input": "9:4:0 amount 406403", "fee": 300, "hops": 2, "pooled": true}, {"op": "transfer", "payer": 4, "input": "10:17:0 amount 407004", "fee": 0, "hops": 0, "pooled": true}, {"op": "golden-ticket", "kind": "Valid", "tip_difficulty": 0}], "pool_size": 3, "cached_work": 5150, "work_needed": 2000, "gt_for_tip": true, "outcome": "Accepted", "detail": "block 11 txs(types) [2, 7, 0, 0, 0, 3, 1] producer OnChain second node OnChain; atr multiplier 1; diffs []; create-vs-validate cv []"} *)
Definition wit_ok : rcase :=
  mkRC (mkView (Some (mkPar 135 10 1124998 7922 3426 5300 20001000 false)) false 50000 10000 3131 true true) (mkM [(mkTx 204 205 TNormal 5000 [206] 0 0 false); (mkTx 207 208 TNormal 150 [209] 0 0 false); (mkTx 210 211 TNormal 0 [212] 0 0 false)] [206; 209; 212] 5150 true true [(135, mkTx 213 214 TGoldenTicket 0 [] 0 135 true)]) 16 1134998 (Some (mkTx 76 77 TBlockStake 0 [215] 0 0 true)) [77; 208; 205; 211] 216 (mkCv (mkE 5300 5300 0 5300 3903 3903 0 5300 2650 2650 0 0 1895 969 331 0 0 0 3 1912930 20001000 0) [(mkTx 217 12 TATR 0 [218] 1 0 true)] 1 221 (Some (mkTx 219 0 TFee 0 [] 0 0 true))) (mkCv (mkE 5300 5300 0 5300 3903 3903 0 5300 2650 2650 0 0 1895 969 331 0 0 0 3 1912930 20001000 0) [(mkTx 217 12 TATR 0 [218] 1 0 true)] 1 221 (Some (mkTx 219 0 TFee 0 [] 0 0 true))) [(204, true); (207, true); (210, true); (76, true); (213, true); (217, true); (219, true)] [(213, true)] [(213, true)] [(206, 10); (209, 9); (212, 10); (215, 7); (218, 2)] 8 [([217], 221); ([], 0)] [([213; 76; 207; 204; 210; 217; 219], 222)] true [[4]; [213; 76; 207; 204; 210; 217; 219]; [11; 1134998; 135; 0; 10572; 3426]; [5300; 5300; 0; 5300; 3903; 3903; 0; 5300; 2650; 2650; 0; 0; 1895; 969; 331; 0; 0; 0; 3; 1912930; 20001000; 0]; [5150; 1; 221; 222]; [1; 1]; []; [0; 0]; []].


Definition wn_leftout : N -> N -> N -> N -> N := fun _ _ _ _ => 213.
Definition next_of (c : rcase) : N := match v_tip (rc_view c) with Some p => par_id p + 1 | None => 1 end.

(* STILL REFUTED.  Issuance-typed transaction in the pool *)
Example C07_produced_validates_refuted_issuance : exists b,
  rc_created wit_issuance = Ok b
  /\ 0 < count_type TIssuance (rc_drained wit_issuance)
  /\ rc_known wn0 wit_issuance b = true
  /\ rc_accepts wn0 wit_issuance b = Ok false
  /\ run_rcase wn0 wit_issuance = rc_expected wit_issuance.
Proof. eexists. split; [vm_compute; reflexivity|]. repeat split; vm_compute; reflexivity. Qed.

(* STILL REFUTED.  The pool is not young: the transaction that carries the only routing work was
   pooled while its input (block 5) could still be spent in the next block; then another producer's
   block arrived, remove_block_transactions re-validated the pool against the utxoset only, and the
   input now belongs to the block that this block rebroadcasts.  can_bundle_block passes on the cached
   work 60000 >= 213, Block::create leaves the transaction out, the block carries work 0 and fails its
   own validation on both nodes *)
Example C07_pool_not_young_refuted_left_out : exists b w,
  young_pool (rc_key_blockf wit_leftout) (rc_gp wit_leftout) (next_of wit_leftout) (m_txs (rc_pool wit_leftout)) = false
  /\ rebroadcasts_due (rc_key_blockf wit_leftout) (rc_gp wit_leftout) (next_of wit_leftout) (rc_cvC wit_leftout) = true
  /\ rc_created wit_leftout = Ok b
  /\ can_bundle unit (rc_viewf wit_leftout) wn_leftout rc_node (rc_pool wit_leftout) (rc_ts wit_leftout)
                (is_some (rc_gt wit_leftout)) = Some w
  /\ rc_known wn_leftout wit_leftout b = true
  /\ nsum (map t_work (b_txs (fst (rc_pre wit_leftout)))) < 213 <= w
  /\ Nlen (b_txs (fst (rc_pre wit_leftout))) < Nlen (rc_drained wit_leftout)
  /\ rc_accepts wn_leftout wit_leftout b = Ok false
  /\ run_rcase wn_leftout wit_leftout = rc_expected wit_leftout.
Proof.
  eexists. eexists. split; [vm_compute; reflexivity|]. split; [vm_compute; reflexivity|].
  split; [vm_compute; reflexivity|]. split; [vm_compute; reflexivity|].
  repeat split; vm_compute; try reflexivity; try discriminate.
Qed.

(* STILL REFUTED.  Same cause, other symptom: the aged input is a 60-nolan output that the next block
   does not rebroadcast (it is collected as fees), so create keeps the transaction -- and
   Transaction::validate (bb88717) refuses it inside the block: both nodes reject *)
Example C07_pool_not_young_refuted_invalid_tx : exists b,
  young_pool (rc_key_blockf wit_aged) (rc_gp wit_aged) (next_of wit_aged) (m_txs (rc_pool wit_aged)) = false
  /\ rc_created wit_aged = Ok b
  /\ forallb (rc_validf wit_aged tt []) (b_txs b) = false
  /\ rc_known wn0 wit_aged b = true
  /\ rc_accepts wn0 wit_aged b = Ok false
  /\ run_rcase wn0 wit_aged = rc_expected wit_aged.
Proof. eexists. split; [vm_compute; reflexivity|]. split; [vm_compute; reflexivity|]. repeat split; vm_compute; reflexivity. Qed.

(* STILL REFUTED (b8552b5 x e0300b2).  The pooled ticket for the tip solves it and names the all-zero
   key: it passes the screen of bundle_block, Block::validate refuses it, the ticket stays *)
Example C07_zero_key_ticket_refuted : exists b g,
  pick_gt (rc_pool wit_zerogt) (rc_tip_hash wit_zerogt) = Some g
  /\ rc_gtsf wit_zerogt tt g = true /\ rc_gtf wit_zerogt tt g = false
  /\ rc_gt wit_zerogt = Some g
  /\ rc_created wit_zerogt = Ok b
  /\ rc_known wn0 wit_zerogt b = true
  /\ rc_accepts wn0 wit_zerogt b = Ok false
  /\ nth 8 (run_rcase wn0 wit_zerogt) [] <> []
  /\ run_rcase wn0 wit_zerogt = rc_expected wit_zerogt.
Proof.
  eexists. eexists. split; [vm_compute; reflexivity|]. split; [vm_compute; reflexivity|].
  split; [vm_compute; reflexivity|]. split; [vm_compute; reflexivity|]. split; [vm_compute; reflexivity|].
  repeat split; try (vm_compute; reflexivity). vm_compute. discriminate.
Qed.

(* REGRESSION (fix e1b5241; was C07_produced_validates_refuted_cap).  Payout multiplier > 1 and a
   rebroadcast in the block: cv of the finished block agrees with the header, the rebroadcast
   validates, both nodes accept *)
Example C07_payout_cap_regression : exists b,
  rc_created wit_cap = Ok b
  /\ c_rebroadcasts (rc_cvC wit_cap) <> []
  /\ agreesb true (lookup_l (rc_hchain wit_cap)) (rc_cvC wit_cap) (rc_cvV wit_cap) = true
  /\ rc_known wn0 wit_cap b = false
  /\ rc_accepts wn0 wit_cap b = Ok true
  /\ run_rcase wn0 wit_cap = rc_expected wit_cap.
Proof. eexists. split; [vm_compute; reflexivity|]. repeat split; try (vm_compute; reflexivity). vm_compute. discriminate. Qed.

(* REGRESSION (fix e0300b2; was C07_produced_validates_refuted_gt).  The pool holds a ticket for
   the tip whose solution does not validate: bundle_block goes on without a ticket, the block is
   accepted by both nodes, and the ticket is gone from the pool *)
Example C07_invalid_ticket_regression : exists g,
  pick_gt (rc_pool wit_gt) (rc_tip_hash wit_gt) = Some g /\ rc_gtsf wit_gt tt g = false
  /\ rc_gt wit_gt = None
  /\ hd [] (run_rcase wn0 wit_gt) = [4]
  /\ nth 5 (run_rcase wn0 wit_gt) [] = [1; 1]
  /\ nth 8 (run_rcase wn0 wit_gt) [7] = []
  /\ run_rcase wn0 wit_gt = rc_expected wit_gt.
Proof. eexists. split; [vm_compute; reflexivity|]. repeat split; vm_compute; reflexivity. Qed.

(* REGRESSION (fix 9879695; was C07_produced_validates_refuted_stake).  Staking required, a peer
   submitted a BlockStake transaction: it is not pooled, the block carries exactly the producer's
   own staking transaction and is accepted by both nodes *)
Example C07_foreign_stake_regression : exists b,
  rc_created wit_stake = Ok b
  /\ v_stake_req (rc_view wit_stake) <> 0
  /\ count_type TBlockStake (b_txs b) = 1
  /\ rc_known wn0 wit_stake b = false
  /\ rc_accepts wn0 wit_stake b = Ok true
  /\ run_rcase wn0 wit_stake = rc_expected wit_stake.
Proof. eexists. split; [vm_compute; reflexivity|]. repeat split; try (vm_compute; reflexivity). vm_compute. discriminate. Qed.

(* REGRESSION (fix f62222f).  Timestamp not after the tip's: no block, pool unchanged *)
Example C07_timestamp_declined_witness :
  rc_ts wit_ts <= match v_tip (rc_view wit_ts) with Some p => par_ts p | None => 0 end
  /\ hd [] (run_rcase wn0 wit_ts) = [1]
  /\ run_rcase wn0 wit_ts = rc_expected wit_ts.
Proof. repeat split; vm_compute; try reflexivity; discriminate. Qed.

(* non-vacuity: a recorded round (golden ticket, staking transaction, three transfers,
   rebroadcasts, fee transaction; staking on, window wrapped) that is outside Known_C07,
   meets the structural hypotheses, and is accepted by both nodes *)
Definition wn_ok : N -> N -> N -> N -> N := fun _ _ _ _ => 2000.
Example C07_example : exists b p,
  v_tip (rc_view wit_ok) = Some p
  /\ rc_created wit_ok = Ok b
  /\ rc_known wn_ok wit_ok b = false
  /\ agreesb true (lookup_l (rc_hchain wit_ok)) (rc_cvC wit_ok) (rc_cvV wit_ok) = true
  /\ cv_types_ok (rc_cvC wit_ok) = true
  /\ is_some (c_fee_tx (rc_cvC wit_ok)) = true /\ is_some (rc_gt wit_ok) = true
  /\ c_rebroadcasts (rc_cvC wit_ok) <> []
  /\ pool_types_ok (rc_drained wit_ok) = true
  /\ young_pool (rc_key_blockf wit_ok) (rc_gp wit_ok) (next_of wit_ok) (rc_drained wit_ok) = true
  /\ rc_drained wit_ok <> []
  /\ rc_accepts wn_ok wit_ok b = Ok true
  /\ run_rcase wn_ok wit_ok = rc_expected wit_ok.
Proof.
  eexists. eexists. split; [vm_compute; reflexivity|]. split; [vm_compute; reflexivity|].
  repeat split; try (vm_compute; reflexivity); vm_compute; discriminate.
Qed.

(* the cache hypothesis of C07_gate_implies_work cannot be dropped: can_bundle_block compares
   the CACHED routing work, Block::validate the work recomputed from the block's
   transactions; a cache that over-reports (pool work 10, cache 60, work needed 50) lets the
   gate pass and every node reject.  (Toy instance of the Section variables; on the real
   code the cache was exact in every round of the harness: dimension "cache".) *)
Example C07_gate_needs_honest_cache :
  let p := mkPar 1 1 1000 0 0 0 7 false in
  let vw := fun _ : unit => mkView (Some p) false 0 100 0 true true in
  let c0 := mkCv econ0 [] 0 0 None in
  let cvf := fun (_ : unit) (_ : list N) (_ : block) => c0 in
  let valid := fun (_ : unit) (_ : list N) (_ : tx) => true in
  let gtf := fun (_ : unit) (_ : tx) => true in
  let wn := fun _ _ _ _ : N => 50 in
  let h0 := fun _ : list N => 0 in
  let t := mkTx 5 6 TNormal 10 [9] 0 0 false in
  let m := mkM [t] [9] 60 true true [] in
  let nd := mkNode unit tt [] in
  can_bundle unit vw wn nd m 1100 false = Some 60
  /\ exists b, create unit vw cvf h0 h0 true nd 3 1100 None [t] = Ok b
       /\ Known_C07 unit vw cvf valid gtf (fun _ _ _ _ : N => 0) true nd 3 1100 None [t] b = false
       /\ validate unit vw cvf valid gtf wn h0 true nd true b = Ok false.
Proof. cbv zeta. split; [vm_compute; reflexivity|]. eexists. split; [vm_compute; reflexivity|]. split; vm_compute; reflexivity. Qed.

Print Assumptions C07_agrees_fields.
Print Assumptions C07_produced_validates.
Print Assumptions C07_produced_validates_outside_known.
Print Assumptions C07_create_filters.
Print Assumptions C07_gate_implies_work.
Print Assumptions C07_bundle_produced_validates.
Print Assumptions C07_second_node.
Print Assumptions C07_invalid_gt_rejected.
Print Assumptions C07_bundled_ticket_solves.
Print Assumptions C07_invalid_gt_recovers.
Print Assumptions C07_screened_bad_ticket_stays.
Print Assumptions C07_failure_keeps_ticket.
Print Assumptions C07_young_pool_kept.
Print Assumptions C07_intake_keeps_young.
Print Assumptions C07_young_pool_nothing_left_out.
Print Assumptions C07_foreign_stake_refused.
Print Assumptions C07_bundle_ts_declines.
Print Assumptions C07_create_error_is_double_spend.
Print Assumptions C07_create_failure_restores.
Print Assumptions C07_produced_validates_refuted_issuance.
Print Assumptions C07_pool_not_young_refuted_left_out.
Print Assumptions C07_pool_not_young_refuted_invalid_tx.
Print Assumptions C07_zero_key_ticket_refuted.
Print Assumptions C07_payout_cap_regression.
Print Assumptions C07_invalid_ticket_regression.
Print Assumptions C07_foreign_stake_regression.
Print Assumptions C07_timestamp_declined_witness.
Print Assumptions C07_example.
Print Assumptions C07_gate_needs_honest_cache.
