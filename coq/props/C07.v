(* C07 -- Every block the node produces is one every node accepts.
   Statements only; proofs in proofs/ProducerProofs.v, model in model/Producer.v.

   Block::create / Mempool::bundle_block / Mempool::can_bundle_block and Block::validate are
   modelled as written; the economic part of generate_consensus_values is the abstract
   function [cv] (chain, ledger, BLOCK |-> values): in create it runs on the half-built
   block (golden ticket + drained pool, header fields still zero), in validate on the
   finished block (rebroadcast and fee transactions appended, header filled).

   FULL STATEMENT (false on the code as it is -- see the *_refuted witnesses, which are
   recorded runs of the real code):
       forall pool golden-ticket timestamp chain,
         bundle ... = Ok (Bundled b, _) -> node_accepts n b = Ok true /\ node_accepts n2 b = Ok true
   What is proved: the same for every production outside the decidable class [Known_C07]
   (the findings listed in known_findings.txt under property=C07), under the structural
   side conditions spelled out in C07_bundle_produced_validates.  Every hypothesis of that
   theorem is either a listed defect class or an obligation on [cv] / on the pool. *)
From Saito Require Import Base Producer ProducerProofs.

Section C07.
  Variable chain : Type.
  Variable view : chain -> chainview.
  Variable cv : chain -> list N -> block -> cvrec.
  Variable tx_valid : chain -> list N -> tx -> bool.
  Variable gt_ok : chain -> tx -> bool.
  Variable work_needed : N -> N -> N -> N -> N.
  Variable supply_ok : chain -> list N -> block -> bool.
  Variable hchain : list N -> N.
  Variable mroot : list N -> N.

  Notation create := (create chain view cv hchain mroot).
  Notation validate := (validate chain view cv tx_valid gt_ok work_needed mroot).
  Notation node_accepts := (node_accepts chain view cv tx_valid gt_ok work_needed supply_ok mroot).
  Notation bundle := (bundle chain view cv tx_valid work_needed hchain mroot).
  Notation can_bundle := (can_bundle chain view work_needed).
  Notation intake := (add_transaction_if_validates chain tx_valid).
  Notation Known_C07 := (Known_C07 chain view cv tx_valid gt_ok hchain).

  (* [agreesb cC cV], field by field: what Block::validate recomputes on the finished block
     equals what Block::create wrote from the values computed on the half-built block *)
  Theorem C07_agrees_fields : forall dbg cC cV,
    agreesb dbg hchain cC cV = true <->
    let C := c_econ cC in let V := c_econ cV in
    uadd dbg (e_total_fees_new C) (e_total_fees_atr C) = Ok (e_total_fees V)
    /\ e_total_fees_new V = e_total_fees_new C
    /\ e_total_fees_atr V = e_total_fees_atr C
    /\ e_total_fees_cumulative V = e_total_fees_cumulative C
    /\ e_avg_total_fees V = e_avg_total_fees C
    /\ e_avg_total_fees_new V = e_avg_total_fees_new C
    /\ e_avg_total_fees_atr V = e_avg_total_fees_atr C
    /\ e_total_payout_routing V = e_total_payout_routing C
    /\ e_total_payout_mining V = e_total_payout_mining C
    /\ e_total_payout_treasury V = e_total_payout_treasury C
    /\ e_total_payout_graveyard V = e_total_payout_graveyard C
    /\ e_total_payout_atr V = e_total_payout_atr C
    /\ e_avg_payout_routing V = e_avg_payout_routing C
    /\ e_avg_payout_mining V = e_avg_payout_mining C
    /\ e_avg_payout_treasury V = e_avg_payout_treasury C
    /\ e_avg_payout_graveyard V = e_avg_payout_graveyard C
    /\ e_avg_payout_atr V = e_avg_payout_atr C
    /\ e_avg_fee_per_byte V = e_avg_fee_per_byte C
    /\ e_fee_per_byte V = e_fee_per_byte C
    /\ e_avg_nolan_rebroadcast_per_block V = e_avg_nolan_rebroadcast_per_block C
    /\ e_burnfee V = e_burnfee C
    /\ e_difficulty V = e_difficulty C
    /\ c_total_rebroadcast_slips cV = nsum (map t_atr_slips (c_rebroadcasts cC))
    /\ c_rebroadcast_hash cV = hchain (map t_id (c_rebroadcasts cC))
    /\ match c_fee_tx cC with
       | Some f => exists f', c_fee_tx cV = Some f' /\ t_id f' = t_id f
       | None => True
       end.
  Proof. exact (agreesb_fields hchain). Qed.

  (* Block::create's block passes Block::validate on the same node.  Hypotheses:
     (cv)   agreesb: cv of the finished block agrees, field by field, with the header
            written from cv of the half-built block; the transactions cv hands over are
            ATR- resp. Fee-typed; a fee transaction only together with a golden ticket;
     (gt)   the golden ticket handed to create is a GoldenTicket transaction whose solution
            validates against the parent;
     (pool) the drained pool holds no GoldenTicket/Fee/ATR-typed and no Issuance-typed
            transaction, is not empty, holds exactly one BlockStake transaction if staking
            is required; every transaction of the block validates on the parent state;
     (work) the work can_bundle_block saw is in the drained list (C07_gate_implies_work). *)
  Theorem C07_produced_validates : forall dbg (n : node chain) creator ts gt drained b p,
    v_tip (view (n_chain _ n)) = Some p ->
    create dbg n creator ts gt drained = Ok b ->
    let cC := cv (n_chain _ n) (n_ledger _ n) (pre_block (Some p) (par_hash p) creator ts gt drained) in
    let cV := cv (n_chain _ n) (n_ledger _ n) b in
    agreesb dbg hchain cC cV = true ->
    cv_types_ok cC = true ->
    (c_fee_tx cC <> None -> gt <> None) ->
    (forall g, gt = Some g -> is_type TGoldenTicket g = true /\ gt_ok (n_chain _ n) g = true) ->
    pool_types_ok drained = true ->
    drained <> [] ->
    count_type TIssuance drained = 0 ->
    (v_stake_req (view (n_chain _ n)) = 0 \/ count_type TBlockStake drained = 1) ->
    forallb (tx_valid (n_chain _ n) (n_ledger _ n)) (b_txs b) = true ->
    work_needed (par_burnfee p) ts (par_ts p) (v_heartbeat (view (n_chain _ n))) <= nsum (map t_work drained) ->
    validate dbg n true b = Ok true.
  Proof. exact (produced_validates chain view cv tx_valid gt_ok work_needed hchain mroot). Qed.

  (* the same as "forall x, ~ Known_C07 x -> P x" *)
  Theorem C07_produced_validates_outside_known : forall dbg (n : node chain) creator ts gt drained b p,
    v_tip (view (n_chain _ n)) = Some p ->
    create dbg n creator ts gt drained = Ok b ->
    Known_C07 dbg n creator ts gt drained b = false ->
    let cC := cv (n_chain _ n) (n_ledger _ n) (pre_block (Some p) (par_hash p) creator ts gt drained) in
    cv_types_ok cC = true ->
    (c_fee_tx cC <> None -> gt <> None) ->
    (forall g, gt = Some g -> is_type TGoldenTicket g = true) ->
    pool_types_ok drained = true ->
    drained <> [] ->
    work_needed (par_burnfee p) ts (par_ts p) (v_heartbeat (view (n_chain _ n))) <= nsum (map t_work drained) ->
    validate dbg n true b = Ok true.
  Proof. exact (produced_validates_outside_known chain view cv tx_valid gt_ok work_needed hchain mroot). Qed.

  (* bundle allowed => the block has the work validate asks for: both sides use the same
     function on the same burn fee / timestamps / heartbeat; what has to hold is that the
     cached routing work does not over-report the pooled transactions (C14, I5) *)
  Theorem C07_gate_implies_work : forall dbg (n : node chain) creator m ts gt w p drained b,
    v_tip (view (n_chain _ n)) = Some p ->
    can_bundle n m ts (is_some gt) = Some w ->
    m_work m <= nsum (map t_work drained) ->
    create dbg n creator ts gt drained = Ok b ->
    work_needed (par_burnfee p) (b_ts b) (par_ts p) (v_heartbeat (view (n_chain _ n))) <= b_total_work b.
  Proof. exact (gate_implies_work chain view cv work_needed hchain mroot). Qed.

  (* the producer's path: bundle_block returned a block => Blockchain::add_block accepts it
     (golden-ticket count of Blockchain::validate + Block::validate + check_total_supply; the
     last one is C02's subject and enters as the hypothesis [supply_ok]: a block that
     validates but breaks the supply equation panics the node, see C07_dust_spend_witness) *)
  Theorem C07_bundle_produced_validates : forall dbg (n : node chain) creator m ts gt stake order b m' p,
    v_tip (view (n_chain _ n)) = Some p ->
    bundle dbg n creator m ts gt stake order = Ok (Bundled b, m') ->
    forall s m1, stake = Some s -> intake dbg n m s = Ok m1 ->
    let drained := drain_in order (m_txs m1) in
    let cC := cv (n_chain _ n) (n_ledger _ n) (pre_block (Some p) (par_hash p) creator ts gt drained) in
    let cV := cv (n_chain _ n) (n_ledger _ n) b in
    agreesb dbg hchain cC cV = true ->
    cv_types_ok cC = true ->
    (c_fee_tx cC <> None -> gt <> None) ->
    (forall g, gt = Some g -> is_type TGoldenTicket g = true /\ gt_ok (n_chain _ n) g = true) ->
    pool_types_ok (m_txs m1) = true ->
    count_type TIssuance (m_txs m1) = 0 ->
    (v_stake_req (view (n_chain _ n)) = 0 \/ count_type TBlockStake (m_txs m1) = 1) ->
    forallb (tx_valid (n_chain _ n) (n_ledger _ n)) (b_txs b) = true ->
    m_work m <= nsum (map t_work (m_txs m)) ->
    supply_ok (n_chain _ n) (n_ledger _ n) b = true ->
    node_accepts dbg n b = Ok true.
  Proof. exact (bundle_produced_validates chain view cv tx_valid gt_ok work_needed supply_ok hchain mroot). Qed.

  (* any other node holding the same chain answers the same: validation reads the chain and
     the ledger, and the ledger is the replay of the chain on every node (C03's invariant,
     here a hypothesis) *)
  Theorem C07_second_node : forall (replay : chain -> list N) dbg (n n2 : node chain) b,
    n_chain _ n2 = n_chain _ n ->
    n_ledger _ n = replay (n_chain _ n) ->
    n_ledger _ n2 = replay (n_chain _ n2) ->
    node_accepts dbg n2 b = node_accepts dbg n b.
  Proof. exact (second_node_same chain view cv tx_valid gt_ok work_needed supply_ok mroot). Qed.

  (* ---- the listed classes, as theorems about the model ---- *)

  (* a golden ticket whose solution does not validate: the produced block is never valid *)
  Theorem C07_invalid_gt_rejected : forall dbg (n : node chain) creator ts g drained b p vu,
    v_tip (view (n_chain _ n)) = Some p ->
    par_ghost p = false ->
    create dbg n creator ts (Some g) drained = Ok b ->
    is_type TGoldenTicket g = true ->
    gt_ok (n_chain _ n) g = false ->
    pool_types_ok drained = true ->
    cv_types_ok (cv (n_chain _ n) (n_ledger _ n) (pre_block (Some p) (par_hash p) creator ts (Some g) drained)) = true ->
    validate dbg n vu b <> Ok true.
  Proof. exact (invalid_gt_rejected chain view cv tx_valid gt_ok work_needed hchain mroot). Qed.

  (* ... and the producer repeats the failure on every timer tick, for ever: the ticket is
     pooled without a look at its solution, bundle_block never touches the ticket map, and
     add_block_failure deletes under the hash of the failed block while the map is keyed by
     the target (= hash of the parent) *)
  Theorem C07_invalid_gt_stuck : forall dbg (n : node chain) creator p g,
    v_tip (view (n_chain _ n)) = Some p ->
    par_ghost p = false ->
    is_type TGoldenTicket g = true ->
    gt_ok (n_chain _ n) g = false ->
    (forall b0, cv_types_ok (cv (n_chain _ n) (n_ledger _ n) b0) = true) ->
    forall attempts m r m_end,
      pick_gt m (par_hash p) = Some g ->
      pool_types_ok (m_txs m) = true ->
      Forall (fun a : N * option tx * list N * N => snd a <> par_hash p) attempts ->
      ticks chain view cv tx_valid gt_ok work_needed supply_ok hchain mroot dbg n creator (par_hash p) m attempts = Ok (r, m_end) ->
      r = false /\ pick_gt m_end (par_hash p) = Some g.
  Proof. exact (invalid_gt_stuck chain view cv tx_valid gt_ok work_needed supply_ok hchain mroot). Qed.

  (* local clock not after the tip's timestamp: bundle_block declines and leaves the pool
     alone -- no panic on timestamp order (the assert! was replaced by fix f62222f) *)
  Theorem C07_bundle_ts_declines : forall dbg (n : node chain) creator m ts gt stake order p,
    v_tip (view (n_chain _ n)) = Some p -> ts <= par_ts p ->
    bundle dbg n creator m ts gt stake order = Ok (GateClosed, m).
  Proof. exact (bundle_ts_declines chain view cv tx_valid work_needed hchain mroot). Qed.

  (* Block::create fails only through its double-spend detection, and then the pool is gone *)
  Theorem C07_create_error_is_double_spend : forall dbg (n : node chain) creator ts gt drained,
    create dbg n creator ts gt drained = Err ->
    let v := view (n_chain _ n) in
    let tip_hash := match v_tip v with Some p => par_hash p | None => 0 end in
    let cC := cv (n_chain _ n) (n_ledger _ n) (pre_block (v_tip v) tip_hash creator ts gt drained) in
    dup_spend ((opt_list gt ++ drained) ++ c_rebroadcasts cC ++ opt_list (c_fee_tx cC)) = true.
  Proof. exact (create_err_is_double_spend chain view cv hchain mroot). Qed.

  Theorem C07_create_failure_drains : forall dbg (n : node chain) creator m ts gt s order w m1,
    (match v_tip (view (n_chain _ n)) with Some p => par_ts p | None => 0 end) < ts ->
    can_bundle n m ts (is_some gt) = Some w ->
    intake dbg n m s = Ok m1 ->
    create dbg n creator ts gt (drain_in order (m_txs m1)) = Err ->
    exists m', bundle dbg n creator m ts gt (Some s) order = Ok (CreateFailed, m')
               /\ m_txs m' = [] /\ m_work m' = 0.
  Proof. exact (create_failure_drains chain view cv tx_valid work_needed hchain mroot). Qed.
End C07.

(* ---------------------------------------------------------------- witnesses
   Recorded rounds of the REAL code (harness/src/bin/c07.rs, scripted scenarios, seed 1):
   the pool, the chain view, the ConsensusValues computed by Block::create ([rc_cvC] =
   block.cv) and by generate_consensus_values on the finished block on the second node
   ([rc_cvV]), the verdicts of Transaction::validate / the golden-ticket check, the
   observed outcome ([rc_expected]).  Elapsed time >= 2 heartbeats in all of them, so the
   work needed is 0. *)
Definition wn0 : N -> N -> N -> N -> N := fun _ _ _ _ => 0.

(* cap: {"label": "dust-profile", "tip": 5, "gap_ms": 25000, "pool_size": 4, "cached_work": 80000, "work_needed": 0, "gt_for_tip": false, "outcome": "Rejected", "detail": "block 6 txs(types) [0, 0, 0, 0, 3] producer Invalid second node Invalid; atr multiplier 3; diffs [\"rebroadcast_hash: hash over the block's rebroadcast transactions differs from the recomputed one\"]; create-vs-validate cv []"} *)
Definition wit_cap : rcase :=
  mkRC (mkView (Some (mkPar 65 5 1100000 40000 2 96428 12649111 false)) false 0 10000 1691 true true) (mkM [(mkTx 69 70 TNormal 20000 [71] 0); (mkTx 72 73 TNormal 20000 [74] 0); (mkTx 75 76 TNormal 20000 [77] 0); (mkTx 78 79 TNormal 20000 [80] 0)] [71; 74; 77; 80] 80000 true true []) 18 1125000 (Some (mkTx 14 15 TBlockStake 0 [] 0)) [70; 79; 76; 73] 81 (mkCv (mkE 80000 80000 0 95600 73115 69464 3651 0 0 0 0 0 21728 12840 0 0 0 44 56 112540 8000000 0) [(mkTx 82 9 TATR 0 [83] 1)] 1 84 None) (mkCv (mkE 80000 80000 0 95600 73115 69464 3651 0 0 0 0 0 21728 12840 0 0 0 44 56 112540 8000000 0) [(mkTx 82 9 TATR 0 [83] 1)] 1 84 None) [(69, true); (72, true); (75, true); (78, true); (14, false); (82, false)] [] [([82], 85); ([], 0)] [([69; 78; 75; 72; 82], 86)] true [[4]; [69; 78; 75; 72; 82]; [6; 1125000; 65; 96428; 40000; 2]; [80000; 80000; 0; 95600; 73115; 69464; 3651; 0; 0; 0; 0; 0; 21728; 12840; 0; 0; 0; 44; 56; 112540; 8000000; 0]; [80000; 1; 85; 86]; [0; 0]; [70; 73; 76; 79]; [80000; 1]; []].

(* gt: {"label": "invalid-golden-ticket", "tip": 4, "gap_ms": 25000, "pool_size": 3, "cached_work": 5150, "work_needed": 0, "gt_for_tip": true, "outcome": "Rejected", "detail": "block 5 txs(types) [2, 0, 0, 0, 1] producer Invalid second node Invalid; atr multiplier 1; diffs []; create-vs-validate cv []"} *)
Definition wit_gt : rcase :=
  mkRC (mkView (Some (mkPar 46 4 1075000 0 2120 5300 20000000 false)) false 0 10000 3494 true true) (mkM [(mkTx 50 51 TNormal 0 [52] 0); (mkTx 53 54 TNormal 150 [55] 0); (mkTx 56 57 TNormal 5000 [58] 0)] [52; 55; 58] 5150 true true [(46, mkTx 59 60 TGoldenTicket 0 [] 0)]) 19 1100000 (Some (mkTx 13 14 TBlockStake 0 [] 0)) [51; 57; 54] 61 (mkCv (mkE 5300 5300 0 5300 3128 3128 0 2650 2650 0 0 0 1157 1157 0 0 0 0 3 0 12649111 3) [] 0 0 (Some (mkTx 62 0 TFee 0 [] 0))) (mkCv (mkE 5300 5300 0 5300 3128 3128 0 2650 2650 0 0 0 1157 1157 0 0 0 0 3 0 12649111 3) [] 0 0 (Some (mkTx 62 0 TFee 0 [] 0))) [(50, true); (53, true); (56, true); (13, false); (59, true); (62, true)] [(59, false)] [([], 0)] [([59; 50; 56; 53; 62], 64)] true [[4]; [59; 50; 56; 53; 62]; [5; 1100000; 46; 0; 0; 2120]; [5300; 5300; 0; 5300; 3128; 3128; 0; 2650; 2650; 0; 0; 0; 1157; 1157; 0; 0; 0; 0; 3; 0; 12649111; 3]; [5150; 0; 0; 64]; [0; 0]; [51; 54; 57]; [5150; 1]; [46]].

(* issuance: {"label": "issuance", "tip": 3, "gap_ms": 25000, "pool_size": 4, "cached_work": 5150, "work_needed": 0, "gt_for_tip": false, "outcome": "Rejected", "detail": "block 4 txs(types) [0, 6, 0, 0] producer Invalid second node Invalid; atr multiplier 1; diffs []; create-vs-validate cv []"} *)
Definition wit_issuance : rcase :=
  mkRC (mkView (Some (mkPar 27 3 1050000 0 2120 5300 31622777 false)) false 0 10000 3268 true true) (mkM [(mkTx 31 32 TNormal 150 [33] 0); (mkTx 34 35 TNormal 0 [36] 0); (mkTx 37 38 TNormal 5000 [39] 0); (mkTx 40 41 TIssuance 0 [] 0)] [33; 36; 39] 5150 true true []) 15 1075000 (Some (mkTx 11 12 TBlockStake 0 [] 0)) [32; 41; 35; 38] 42 (mkCv (mkE 5300 5300 0 5300 2586 2586 0 0 0 0 0 0 255 255 0 0 0 1 5 0 20000000 0) [] 0 0 None) (mkCv (mkE 5300 5300 0 5300 2586 2586 0 0 0 0 0 0 255 255 0 0 0 1 5 0 20000000 0) [] 0 0 None) [(31, true); (34, true); (37, true); (40, true); (11, false)] [] [([], 0)] [([31; 40; 34; 37], 43)] true [[4]; [31; 40; 34; 37]; [4; 1075000; 27; 5300; 0; 2120]; [5300; 5300; 0; 5300; 2586; 2586; 0; 0; 0; 0; 0; 0; 255; 255; 0; 0; 0; 1; 5; 0; 20000000; 0]; [5150; 0; 0; 43]; [0; 0]; [32; 35; 38]; [5150; 1]; []].

(* stake: {"label": "foreign-stake", "tip": 3, "gap_ms": 25000, "pool_size": 4, "cached_work": 5150, "work_needed": 0, "gt_for_tip": false, "outcome": "Rejected", "detail": "block 4 txs(types) [0, 0, 0, 7, 7] producer Invalid second node Invalid; atr multiplier 1; diffs []; create-vs-validate cv []"} *)
Definition wit_stake : rcase :=
  mkRC (mkView (Some (mkPar 31 3 1050000 0 2120 5300 31622777 false)) false 50000 10000 779 true true) (mkM [(mkTx 35 36 TNormal 150 [37] 0); (mkTx 38 39 TNormal 0 [40] 0); (mkTx 41 42 TBlockStake 0 [43] 0); (mkTx 44 45 TNormal 5000 [46] 0)] [37; 40; 43; 46] 5150 true true []) 16 1075000 (Some (mkTx 47 48 TBlockStake 0 [49] 0)) [45; 39; 36; 42; 48] 50 (mkCv (mkE 5300 5300 0 5300 2586 2586 0 0 0 0 0 0 255 255 0 0 0 1 5 0 20000000 0) [] 0 0 None) (mkCv (mkE 5300 5300 0 5300 2586 2586 0 0 0 0 0 0 255 255 0 0 0 1 5 0 20000000 0) [] 0 0 None) [(35, true); (38, true); (41, true); (44, true); (47, true)] [] [([], 0)] [([44; 38; 35; 41; 47], 51)] true [[4]; [44; 38; 35; 41; 47]; [4; 1075000; 31; 5300; 0; 2120]; [5300; 5300; 0; 5300; 2586; 2586; 0; 0; 0; 0; 0; 0; 255; 255; 0; 0; 0; 1; 5; 0; 20000000; 0]; [5150; 0; 0; 51]; [0; 0]; [36; 39; 45]; [5150; 1]; []].

(* clash: {"label": "rebroadcast-clash", "tip": 4, "gap_ms": 25000, "pool_size": 4, "cached_work": 5650, "work_needed": 0, "gt_for_tip": true, "outcome": "CreateFailed", "detail": ""} *)
Definition wit_clash : rcase :=
  mkRC (mkView (Some (mkPar 40 4 1075000 0 2 5300 20000000 false)) false 0 10000 1042 true true) (mkM [(mkTx 42 43 TNormal 500 [44] 0); (mkTx 45 46 TNormal 5000 [47] 0); (mkTx 48 49 TNormal 150 [50] 0); (mkTx 51 52 TNormal 0 [53] 0)] [44; 47; 50; 53] 5650 true true [(40, mkTx 54 55 TGoldenTicket 0 [] 0)]) 15 1100000 (Some (mkTx 11 12 TBlockStake 0 [] 0)) [43; 46; 49; 52; 12] 0 (mkCv (mkE 9728 0 9728 9728 5728 2486 3242 5300 2650 2650 0 0 2159 1276 883 0 0 2 0 8560372 12649111 0) [(mkTx 56 57 TATR 0 [58] 1); (mkTx 59 60 TATR 0 [61] 1); (mkTx 62 63 TATR 0 [64] 1); (mkTx 65 66 TATR 0 [67] 1); (mkTx 68 69 TATR 0 [70] 1); (mkTx 71 72 TATR 0 [73] 1); (mkTx 74 75 TATR 0 [76] 1); (mkTx 77 78 TATR 0 [79] 1); (mkTx 80 81 TATR 0 [82] 1); (mkTx 83 84 TATR 0 [85] 1); (mkTx 86 87 TATR 0 [88] 1); (mkTx 89 90 TATR 0 [91] 1); (mkTx 92 93 TATR 0 [94] 1); (mkTx 95 96 TATR 0 [97] 1); (mkTx 98 99 TATR 0 [100] 1); (mkTx 101 102 TATR 0 [103] 1); (mkTx 104 105 TATR 0 [106] 1); (mkTx 107 108 TATR 0 [109] 1); (mkTx 110 111 TATR 0 [112] 1); (mkTx 113 114 TATR 0 [115] 1); (mkTx 116 117 TATR 0 [118] 1); (mkTx 119 120 TATR 0 [121] 1); (mkTx 122 123 TATR 0 [124] 1); (mkTx 125 126 TATR 0 [127] 1); (mkTx 128 129 TATR 0 [44] 1); (mkTx 130 131 TATR 0 [132] 1); (mkTx 133 134 TATR 0 [135] 1); (mkTx 136 137 TATR 0 [138] 1); (mkTx 139 140 TATR 0 [141] 1); (mkTx 142 143 TATR 0 [144] 1); (mkTx 145 146 TATR 0 [147] 1); (mkTx 148 149 TATR 0 [150] 1)] 32 152 (Some (mkTx 151 0 TFee 0 [] 0))) (mkCv (mkE 9728 0 9728 9728 5728 2486 3242 5300 2650 2650 0 0 2159 1276 883 0 0 2 0 8560372 12649111 0) [(mkTx 56 57 TATR 0 [58] 1); (mkTx 59 60 TATR 0 [61] 1); (mkTx 62 63 TATR 0 [64] 1); (mkTx 65 66 TATR 0 [67] 1); (mkTx 68 69 TATR 0 [70] 1); (mkTx 71 72 TATR 0 [73] 1); (mkTx 74 75 TATR 0 [76] 1); (mkTx 77 78 TATR 0 [79] 1); (mkTx 80 81 TATR 0 [82] 1); (mkTx 83 84 TATR 0 [85] 1); (mkTx 86 87 TATR 0 [88] 1); (mkTx 89 90 TATR 0 [91] 1); (mkTx 92 93 TATR 0 [94] 1); (mkTx 95 96 TATR 0 [97] 1); (mkTx 98 99 TATR 0 [100] 1); (mkTx 101 102 TATR 0 [103] 1); (mkTx 104 105 TATR 0 [106] 1); (mkTx 107 108 TATR 0 [109] 1); (mkTx 110 111 TATR 0 [112] 1); (mkTx 113 114 TATR 0 [115] 1); (mkTx 116 117 TATR 0 [118] 1); (mkTx 119 120 TATR 0 [121] 1); (mkTx 122 123 TATR 0 [124] 1); (mkTx 125 126 TATR 0 [127] 1); (mkTx 128 129 TATR 0 [44] 1); (mkTx 130 131 TATR 0 [132] 1); (mkTx 133 134 TATR 0 [135] 1); (mkTx 136 137 TATR 0 [138] 1); (mkTx 139 140 TATR 0 [141] 1); (mkTx 142 143 TATR 0 [144] 1); (mkTx 145 146 TATR 0 [147] 1); (mkTx 148 149 TATR 0 [150] 1)] 32 152 (Some (mkTx 151 0 TFee 0 [] 0))) [(42, true); (45, true); (48, true); (51, true); (11, false)] [] [([], 0)] [] true [[3]; []; [0; 1]; [40]].

(* ts: {"label": "timestamp-order", "tip": 3, "gap_ms": 0, "pool_size": 3, "cached_work": 5150, "work_needed": 10000000000000000000, "gt_for_tip": false, "outcome": "GateClosed", "detail": ""} *)
Definition wit_ts : rcase :=
  mkRC (mkView (Some (mkPar 27 3 1050000 0 2120 5300 31622777 false)) false 0 10000 4868 true true) (mkM [(mkTx 31 32 TNormal 150 [33] 0); (mkTx 34 35 TNormal 0 [36] 0); (mkTx 37 38 TNormal 5000 [39] 0)] [33; 36; 39] 5150 true true []) 15 1050000 (Some (mkTx 11 12 TBlockStake 0 [] 0)) [32; 35; 38; 12] 0 (mkCv econ0 [] 0 0 None) (mkCv econ0 [] 0 0 None) [(31, true); (34, true); (37, true); (11, false)] [] [([], 0)] [] true [[1]; [32; 35; 38]; [5150; 1]; []].

(* dust: {"label": "dust-spend", "tip": 4, "gap_ms": 25000, "pool_size": 5, "cached_work": 80500, "work_needed": 0, "gt_for_tip": true, "outcome": "Rejected", "detail": "block 5 txs(types) [2, 0, 0, 0, 0, 0, 1] producer Panicked second node Panicked; atr multiplier 1; diffs []; create-vs-validate cv []"} *)
Definition wit_dust : rcase :=
  mkRC (mkView (Some (mkPar 49 4 1075000 0 2 80000 20000000 false)) false 0 10000 2743 true true) (mkM [(mkTx 51 52 TNormal 20000 [53] 0); (mkTx 54 55 TNormal 20000 [56] 0); (mkTx 57 58 TNormal 20000 [59] 0); (mkTx 60 61 TNormal 500 [62] 0); (mkTx 63 64 TNormal 20000 [65] 0)] [53; 56; 59; 62; 65] 80500 true true [(49, mkTx 66 67 TGoldenTicket 0 [] 0)]) 18 1100000 (Some (mkTx 14 15 TBlockStake 0 [] 0)) [64; 55; 52; 58; 61] 68 (mkCv (mkE 96928 80500 16428 80500 69840 64364 5476 80000 40000 40000 0 0 32592 19259 13333 0 0 36 37 5476 12649111 0) [] 0 0 (Some (mkTx 69 0 TFee 0 [] 0))) (mkCv (mkE 96928 80500 16428 80500 69840 64364 5476 80000 40000 40000 0 0 32592 19259 13333 0 0 36 37 5476 12649111 0) [] 0 0 (Some (mkTx 69 0 TFee 0 [] 0))) [(51, true); (54, true); (57, true); (60, true); (63, true); (14, false); (66, true); (69, true)] [(66, true)] [([], 0)] [([66; 63; 54; 51; 57; 60; 69], 71)] false [[4]; [66; 63; 54; 51; 57; 60; 69]; [5; 1100000; 49; 0; 40000; 2]; [96928; 80500; 16428; 80500; 69840; 64364; 5476; 80000; 40000; 40000; 0; 0; 32592; 19259; 13333; 0; 0; 36; 37; 5476; 12649111; 0]; [80500; 0; 0; 71]; [905; 905]; []; [0; 0]; [49]].

(* ok: {"label": "work-gated", "tip": 10, "gap_ms": 10000, "pool_size": 3, "cached_work": 5150, "work_needed": 2000, "gt_for_tip": true, "outcome": "Accepted", "detail": "block 11 txs(types) [2, 7, 0, 0, 0, 3, 1] producer OnChain second node OnChain; atr multiplier 1; diffs []; create-vs-validate cv []"} *)
Definition wit_ok : rcase :=
  mkRC (mkView (Some (mkPar 135 10 1124998 7922 3426 5300 20001000 false)) false 50000 10000 1150 true true) (mkM [(mkTx 204 205 TNormal 5000 [206] 0); (mkTx 207 208 TNormal 150 [209] 0); (mkTx 210 211 TNormal 0 [212] 0)] [206; 209; 212] 5150 true true [(135, mkTx 213 214 TGoldenTicket 0 [] 0)]) 16 1134998 (Some (mkTx 76 77 TBlockStake 0 [215] 0)) [77; 211; 205; 208] 216 (mkCv (mkE 5300 5300 0 5300 3903 3903 0 5300 2650 2650 0 0 1895 969 331 0 0 0 3 1912930 20001000 0) [(mkTx 217 12 TATR 0 [218] 1)] 1 221 (Some (mkTx 219 0 TFee 0 [] 0))) (mkCv (mkE 5300 5300 0 5300 3903 3903 0 5300 2650 2650 0 0 1895 969 331 0 0 0 3 1912930 20001000 0) [(mkTx 217 12 TATR 0 [218] 1)] 1 221 (Some (mkTx 219 0 TFee 0 [] 0))) [(204, true); (207, true); (210, true); (76, true); (213, true); (217, true); (219, true)] [(213, true)] [([217], 221); ([], 0)] [([213; 76; 210; 204; 207; 217; 219], 222)] true [[4]; [213; 76; 210; 204; 207; 217; 219]; [11; 1134998; 135; 0; 10572; 3426]; [5300; 5300; 0; 5300; 3903; 3903; 0; 5300; 2650; 2650; 0; 0; 1895; 969; 331; 0; 0; 0; 3; 1912930; 20001000; 0]; [5150; 1; 221; 222]; [1; 1]; []; [0; 0]; []].


(* the full statement fails: parent.treasury >= genesis_period * parent.avg_nolan_rebroadcast_per_block > 0
   and one output is rebroadcast.  cv's own rebroadcast hash (taken before the 5%-of-treasury
   cap rewrites the output amounts; in create the cap compares with the still-zero header
   treasury) is not the hash of the transactions it returns, and the rebroadcast's input
   carries the paid-out amount: both nodes reject the producer's block *)
Example C07_produced_validates_refuted_cap : exists b,
  rc_created wit_cap = Ok b
  /\ rc_known wit_cap b = true
  /\ agreesb true (lookup_l (rc_hchain wit_cap)) (rc_cvC wit_cap) (rc_cvV wit_cap) = false
  /\ rc_accepts wn0 wit_cap b = Ok false
  /\ run_rcase wn0 wit_cap = rc_expected wit_cap.
Proof. eexists. split; [vm_compute; reflexivity|]. repeat split; vm_compute; reflexivity. Qed.

(* pooled golden ticket with an invalid solution *)
Example C07_produced_validates_refuted_gt : exists b g,
  rc_created wit_gt = Ok b
  /\ rc_gt wit_gt = Some g /\ rc_gtf wit_gt tt g = false
  /\ rc_known wit_gt b = true
  /\ rc_accepts wn0 wit_gt b = Ok false
  /\ run_rcase wn0 wit_gt = rc_expected wit_gt.
Proof. eexists. eexists. split; [vm_compute; reflexivity|]. split; [vm_compute; reflexivity|]. repeat split; vm_compute; reflexivity. Qed.

(* Issuance-typed transaction in the pool *)
Example C07_produced_validates_refuted_issuance : exists b,
  rc_created wit_issuance = Ok b
  /\ 0 < count_type TIssuance (rc_drained wit_issuance)
  /\ rc_known wit_issuance b = true
  /\ rc_accepts wn0 wit_issuance b = Ok false
  /\ run_rcase wn0 wit_issuance = rc_expected wit_issuance.
Proof. eexists. split; [vm_compute; reflexivity|]. repeat split; vm_compute; reflexivity. Qed.

(* staking required and a second BlockStake transaction (from a peer) in the pool *)
Example C07_produced_validates_refuted_stake : exists b,
  rc_created wit_stake = Ok b
  /\ count_type TBlockStake (rc_drained wit_stake) = 2
  /\ rc_known wit_stake b = true
  /\ rc_accepts wn0 wit_stake b = Ok false
  /\ run_rcase wn0 wit_stake = rc_expected wit_stake.
Proof. eexists. split; [vm_compute; reflexivity|]. repeat split; vm_compute; reflexivity. Qed.

(* a pooled transaction spends an output that this block rebroadcasts: create fails after
   the drain, no block, empty pool *)
Example C07_rebroadcast_clash_witness :
  rc_created wit_clash = Err
  /\ run_rcase wn0 wit_clash = rc_expected wit_clash
  /\ hd [] (rc_expected wit_clash) = [3]
  /\ m_txs (rc_pool wit_clash) <> [] /\ nth 1 (rc_expected wit_clash) [1] = [].
Proof. repeat split; try (vm_compute; reflexivity). vm_compute. discriminate. Qed.

(* a pooled transaction spends an output that is due at this block but too small to be
   rebroadcast: no double-spend signal, the block validates on both nodes, and both panic in
   check_total_supply *)
Example C07_dust_spend_witness : exists b,
  rc_created wit_dust = Ok b
  /\ rc_known wit_dust b = false
  /\ rc_supply_ok wit_dust = false
  /\ rc_accepts wn0 wit_dust b = Panic SITE_SUPPLY
  /\ run_rcase wn0 wit_dust = rc_expected wit_dust.
Proof. eexists. split; [vm_compute; reflexivity|]. repeat split; vm_compute; reflexivity. Qed.

(* timestamp not after the tip's: recorded round, no block, pool unchanged *)
Example C07_timestamp_declined_witness :
  rc_ts wit_ts <= match v_tip (rc_view wit_ts) with Some p => par_ts p | None => 0 end
  /\ hd [] (run_rcase wn0 wit_ts) = [1]
  /\ run_rcase wn0 wit_ts = rc_expected wit_ts.
Proof. repeat split; vm_compute; try reflexivity; discriminate. Qed.

(* non-vacuity: a recorded round (golden ticket, staking transaction, three transfers,
   rebroadcasts, fee transaction; staking on, window wrapped) that meets every hypothesis
   of C07_produced_validates_outside_known, and is accepted by both nodes *)
Example C07_example : exists b p,
  v_tip (rc_view wit_ok) = Some p
  /\ rc_created wit_ok = Ok b
  /\ rc_known wit_ok b = false
  /\ cv_types_ok (rc_cvC wit_ok) = true
  /\ is_some (c_fee_tx (rc_cvC wit_ok)) = true /\ is_some (rc_gt wit_ok) = true
  /\ c_rebroadcasts (rc_cvC wit_ok) <> []
  /\ pool_types_ok (rc_drained wit_ok) = true
  /\ rc_drained wit_ok <> []
  /\ rc_accepts wn0 wit_ok b = Ok true
  /\ run_rcase wn0 wit_ok = rc_expected wit_ok.
Proof.
  eexists. eexists. split; [vm_compute; reflexivity|]. split; [vm_compute; reflexivity|].
  repeat split; try (vm_compute; reflexivity); vm_compute; discriminate.
Qed.

(* the cache hypothesis of C07_gate_implies_work cannot be dropped: can_bundle_block compares
   the CACHED routing work, Block::validate the work recomputed from the block's
   transactions; a cache that over-reports (pool work 10, cache 60, work needed 50) lets the
   gate pass and every node reject.  (Toy instance of the Section variables; on the real
   code the cache was exact in every round of the harness: dimension "cache".) *)
Example C07_gate_needs_honest_cache :
  let p := mkPar 1 1 1000 0 0 0 7 false in
  let vw := fun _ : unit => mkView (Some p) false 0 100 0 true true in
  let c0 := mkCv econ0 [] 0 0 None in
  let cvf := fun (_ : unit) (_ : list N) (_ : block) => c0 in
  let valid := fun (_ : unit) (_ : list N) (_ : tx) => true in
  let gtf := fun (_ : unit) (_ : tx) => true in
  let wn := fun _ _ _ _ : N => 50 in
  let h0 := fun _ : list N => 0 in
  let t := mkTx 5 6 TNormal 10 [9] 0 in
  let m := mkM [t] [9] 60 true true [] in
  let nd := mkNode unit tt [] in
  can_bundle unit vw wn nd m 1100 false = Some 60
  /\ exists b, create unit vw cvf h0 h0 true nd 3 1100 None [t] = Ok b
       /\ Known_C07 unit vw cvf valid gtf h0 true nd 3 1100 None [t] b = false
       /\ validate unit vw cvf valid gtf wn h0 true nd true b = Ok false.
Proof. cbv zeta. split; [vm_compute; reflexivity|]. eexists. split; [vm_compute; reflexivity|]. split; vm_compute; reflexivity. Qed.

Print Assumptions C07_agrees_fields.
Print Assumptions C07_produced_validates.
Print Assumptions C07_produced_validates_outside_known.
Print Assumptions C07_gate_implies_work.
Print Assumptions C07_bundle_produced_validates.
Print Assumptions C07_second_node.
Print Assumptions C07_invalid_gt_rejected.
Print Assumptions C07_invalid_gt_stuck.
Print Assumptions C07_bundle_ts_declines.
Print Assumptions C07_create_error_is_double_spend.
Print Assumptions C07_create_failure_drains.
Print Assumptions C07_produced_validates_refuted_cap.
Print Assumptions C07_produced_validates_refuted_gt.
Print Assumptions C07_produced_validates_refuted_issuance.
Print Assumptions C07_produced_validates_refuted_stake.
Print Assumptions C07_rebroadcast_clash_witness.
Print Assumptions C07_timestamp_declined_witness.
Print Assumptions C07_dust_spend_witness.
Print Assumptions C07_example.
Print Assumptions C07_gate_needs_honest_cache.
