(* C07 -- Every block the node produces is one every node accepts.
   Statements only; proofs in proofs/ProducerProofs.v, model in model/Producer.v
   (= /repo HEAD 9007b23 incl. the fixes f62222f, e0300b2, 1214e31, 9879695, ffb4da9, 6b3137c,
   60ba6d1, b8552b5, bb88717, f640126, e1b5241, df3ca14, 6a5c788, 716c212).

   Block::create / Mempool::bundle_block / Mempool::can_bundle_block and Block::validate are
   modelled as written; the economic part of generate_consensus_values is the abstract
   function [cv] (chain, ledger, BLOCK |-> values): in create it runs on the half-built
   block (golden ticket + drained pool, header fields still zero; once more after create
   has left out pooled transactions that collide with a rebroadcast), in validate on the
   finished block (rebroadcast and fee transactions appended, header filled).

   FULL STATEMENT:
       forall pool golden-ticket timestamp chain,
         bundle ... = Ok (Bundled b, _) -> node_accepts n b = Ok true /\ node_accepts n2 b = Ok true
   No finding is listed for C07 any more (known_findings.txt): there is no excluded class.
   C07_bundle_produced_validates proves the statement under side conditions each of which is an
   obligation on [cv] (measured on every produced block by the harness), the supply equation
   (C02), or an invariant of the pool that C07_pool_stays_young / C07_intake_keeps_young
   establish.  The classes found and fixed in /repo stay as *_regression Examples (recorded runs
   of the real code at this HEAD). *)
From Saito Require Import Base Producer ProducerProofs.

Section C07.
  Variable chain : Type.
  Variable view : chain -> chainview.
  Variable cv : chain -> list N -> block -> cvrec.
  Variable tx_valid : chain -> list N -> tx -> bool.
  Variable gt_ok : chain -> tx -> bool.
  Variable work_needed : N -> N -> N -> N -> N.
  Variable supply_ok : chain -> list N -> block -> bool.
  Variable hchain : list N -> N.
  Variable mroot : list N -> N.

  Notation create := (create chain view cv hchain mroot).
  Notation validate := (validate chain view cv tx_valid gt_ok work_needed mroot).
  Notation node_accepts := (node_accepts chain view cv tx_valid gt_ok work_needed supply_ok mroot).
  Notation bundle := (bundle chain view cv tx_valid gt_ok work_needed hchain mroot).
  Notation can_bundle := (can_bundle chain view work_needed).
  Notation intake := (add_transaction_if_validates chain view tx_valid).
  Notation screen := (screen_ticket chain view gt_ok).
  Notation tip_hash := (tip_hash_of chain view).

  (* [agreesb cC cV], field by field: what Block::validate recomputes on the finished block
     equals what Block::create wrote from the values computed on the half-built block *)
  Theorem C07_agrees_fields : forall dbg cC cV,
    agreesb dbg hchain cC cV = true <->
    let C := c_econ cC in let V := c_econ cV in
    uadd dbg (e_total_fees_new C) (e_total_fees_atr C) = Ok (e_total_fees V)
    /\ e_total_fees_new V = e_total_fees_new C
    /\ e_total_fees_atr V = e_total_fees_atr C
    /\ e_total_fees_cumulative V = e_total_fees_cumulative C
    /\ e_avg_total_fees V = e_avg_total_fees C
    /\ e_avg_total_fees_new V = e_avg_total_fees_new C
    /\ e_avg_total_fees_atr V = e_avg_total_fees_atr C
    /\ e_total_payout_routing V = e_total_payout_routing C
    /\ e_total_payout_mining V = e_total_payout_mining C
    /\ e_total_payout_treasury V = e_total_payout_treasury C
    /\ e_total_payout_graveyard V = e_total_payout_graveyard C
    /\ e_total_payout_atr V = e_total_payout_atr C
    /\ e_avg_payout_routing V = e_avg_payout_routing C
    /\ e_avg_payout_mining V = e_avg_payout_mining C
    /\ e_avg_payout_treasury V = e_avg_payout_treasury C
    /\ e_avg_payout_graveyard V = e_avg_payout_graveyard C
    /\ e_avg_payout_atr V = e_avg_payout_atr C
    /\ e_avg_fee_per_byte V = e_avg_fee_per_byte C
    /\ e_fee_per_byte V = e_fee_per_byte C
    /\ e_avg_nolan_rebroadcast_per_block V = e_avg_nolan_rebroadcast_per_block C
    /\ e_burnfee V = e_burnfee C
    /\ e_difficulty V = e_difficulty C
    /\ c_total_rebroadcast_slips cV = nsum (map t_atr_slips (c_rebroadcasts cC))
    /\ c_rebroadcast_hash cV = hchain (map t_id (c_rebroadcasts cC))
    /\ same_inputs (c_rebroadcasts cC) (c_rebroadcasts cV) = true
    /\ match c_fee_tx cC with
       | Some f => exists f', c_fee_tx cV = Some f' /\ t_id f' = t_id f
       | None => c_fee_tx cV = None
       end.
  Proof. exact (agreesb_fields hchain). Qed.

  (* Block::create's block passes Block::validate on the same node.  [kept] = the drained pool
     minus the transactions create leaves out because they spend an input of a rebroadcast.
     Hypotheses:
     (cv)   agreesb: cv of the finished block agrees, field by field, with the header
            written from cv of the half-built block; the transactions cv hands over are
            ATR- resp. Fee-typed; a fee transaction only together with a golden ticket;
     (gt)   the golden ticket handed to create is a GoldenTicket transaction whose solution
            validates against the parent (bundle_block guarantees the second: C07_bundled_ticket_solves);
     (pool) the drained pool holds no GoldenTicket/Fee/ATR-typed and no Issuance-typed
            transaction; what is kept is not empty and holds exactly one BlockStake transaction
            if staking is required; every transaction of the block validates on the parent state;
     (work) the kept transactions carry the work validate asks for. *)
  Theorem C07_produced_validates : forall dbg (n : node chain) creator ts gt drained b p,
    v_tip (view (n_chain _ n)) = Some p ->
    create dbg n creator ts gt drained = Ok b ->
    let c0 := cv (n_chain _ n) (n_ledger _ n) (pre_block (Some p) (par_hash p) creator ts gt drained) in
    let kept := kept_pool c0 drained in
    let cC := cv (n_chain _ n) (n_ledger _ n) (pre_block (Some p) (par_hash p) creator ts gt kept) in
    let cV := cv (n_chain _ n) (n_ledger _ n) b in
    agreesb dbg hchain cC cV = true ->
    cv_types_ok cC = true ->
    (c_fee_tx cC <> None -> gt <> None) ->
    (forall g, gt = Some g -> is_type TGoldenTicket g = true /\ gt_ok (n_chain _ n) g = true) ->
    pool_types_ok drained = true ->
    kept <> [] ->
    count_type TIssuance drained = 0 ->
    (v_stake_req (view (n_chain _ n)) = 0 \/ count_type TBlockStake kept = 1) ->
    forallb (tx_valid (n_chain _ n) (n_ledger _ n)) (b_txs b) = true ->
    work_needed (par_burnfee p) ts (par_ts p) (v_heartbeat (view (n_chain _ n)))
      <= nsum (map t_work (opt_list gt ++ kept)) ->
    validate dbg n true b = Ok true.
  Proof. exact (produced_validates_F chain view cv tx_valid gt_ok work_needed hchain mroot). Qed.

  (* Block::create = the plain steps (no filter) on the pool that is left *)
  Theorem C07_create_filters : forall dbg (n : node chain) creator ts gt d p,
    v_tip (view (n_chain _ n)) = Some p ->
    (forall g, gt = Some g -> is_type TGoldenTicket g = true) ->
    create dbg n creator ts gt d
    = create_plain chain view cv hchain mroot dbg n creator ts gt
        (kept_pool (cv (n_chain _ n) (n_ledger _ n) (pre_block (Some p) (par_hash p) creator ts gt d)) d).
  Proof. exact (create_bridge chain view cv work_needed hchain mroot). Qed.

  (* bundle allowed => a block built from a list that holds the cached work has the work validate
     asks for: both sides use the same function on the same burn fee / timestamps / heartbeat *)
  Theorem C07_gate_implies_work : forall dbg (n : node chain) creator m ts gt w p drained b,
    v_tip (view (n_chain _ n)) = Some p ->
    can_bundle n m ts (is_some gt) = Some w ->
    m_work m <= nsum (map t_work drained) ->
    create_plain chain view cv hchain mroot dbg n creator ts gt drained = Ok b ->
    work_needed (par_burnfee p) (b_ts b) (par_ts p) (v_heartbeat (view (n_chain _ n))) <= b_total_work b.
  Proof. exact (gate_implies_work chain view cv work_needed hchain mroot). Qed.

  (* the producer's path: bundle_block returned a block => Blockchain::add_block accepts it
     (golden-ticket count of Blockchain::validate + Block::validate + check_total_supply; the
     last one is C02's subject and enters as the hypothesis [supply_ok]).
     No hypothesis about the pooled ticket (the screen of bundle_block IS Block::validate's check:
     e0300b2, 6a5c788) and none about what Block::create leaves out: the pool is young -- every
     pooled input can still be spent in block [next] -- which the intake (bb88717) and the
     re-validation after every block addition (df3ca14) maintain (C07_pool_stays_young), and a young
     pool collides with no rebroadcast.  The pool before the call holds no GoldenTicket/Fee/ATR-typed
     transaction (intake) and no Issuance-typed one (intake on a running chain, 716c212: the second
     half of C07_pool_stays_young's invariant).  [key_block k] = the block id inside utxoset key k. *)
  Theorem C07_bundle_produced_validates : forall (key_block : N -> N) gp next dbg (n : node chain) creator m ts gt stake order b m' p,
    v_tip (view (n_chain _ n)) = Some p ->
    bundle dbg n creator m ts gt stake order = Ok (Bundled b, m') ->
    forall gt' m0 s m1,
    screen n m gt = (gt', m0) ->
    stake = Some s -> intake dbg n m0 s = Ok m1 ->
    let drained := drain_in order (m_txs m1) in
    let cC := cv (n_chain _ n) (n_ledger _ n) (pre_block (Some p) (par_hash p) creator ts gt' drained) in
    let cV := cv (n_chain _ n) (n_ledger _ n) b in
    (forall x, tx_valid (n_chain _ n) (n_ledger _ n) x = true -> young_tx key_block gp next x = true) ->
    young_pool key_block gp next (m_txs m) = true ->
    rebroadcasts_due key_block gp next cC = true ->
    agreesb dbg hchain cC cV = true ->
    cv_types_ok cC = true ->
    (c_fee_tx cC <> None -> gt' <> None) ->
    (forall g, gt = Some g -> is_type TGoldenTicket g = true) ->
    pool_types_ok (m_txs m) = true ->
    count_type TIssuance (m_txs m) = 0 ->
    (v_stake_req (view (n_chain _ n)) = 0 \/ count_type TBlockStake (m_txs m1) = 1) ->
    forallb (tx_valid (n_chain _ n) (n_ledger _ n)) (b_txs b) = true ->
    m_work m <= nsum (map t_work (m_txs m)) ->
    supply_ok (n_chain _ n) (n_ledger _ n) b = true ->
    node_accepts dbg n b = Ok true.
  Proof. exact (bundle_produced_validates chain view cv tx_valid gt_ok work_needed supply_ok hchain mroot). Qed.

  (* any other node holding the same chain answers the same: validation reads the chain and
     the ledger, and the ledger is the replay of the chain on every node (C03's invariant,
     here a hypothesis) *)
  Theorem C07_second_node : forall (replay : chain -> list N) dbg (n n2 : node chain) b,
    n_chain _ n2 = n_chain _ n ->
    n_ledger _ n = replay (n_chain _ n) ->
    n_ledger _ n2 = replay (n_chain _ n2) ->
    node_accepts dbg n2 b = node_accepts dbg n b.
  Proof. exact (second_node_same chain view cv tx_valid gt_ok work_needed supply_ok mroot). Qed.

  (* ---- golden tickets (fix e0300b2) ---- *)

  (* why the ticket has to be screened: a block built with a ticket that does not solve the
     tip is never valid *)
  Theorem C07_invalid_gt_rejected : forall dbg (n : node chain) creator ts g drained b p vu,
    v_tip (view (n_chain _ n)) = Some p ->
    par_ghost p = false ->
    create dbg n creator ts (Some g) drained = Ok b ->
    is_type TGoldenTicket g = true ->
    gt_ok (n_chain _ n) g = false ->
    pool_types_ok drained = true ->
    (forall b0, cv_types_ok (cv (n_chain _ n) (n_ledger _ n) b0) = true) ->
    validate dbg n vu b <> Ok true.
  Proof. exact (invalid_gt_rejected chain view cv tx_valid gt_ok work_needed hchain mroot). Qed.

  (* a ticket that reaches Block::create through bundle_block has passed its screen (solves the tip) *)
  Theorem C07_bundled_ticket_solves : forall dbg (n : node chain) creator m ts gt stake order b m' p g,
    v_tip (view (n_chain _ n)) = Some p ->
    bundle dbg n creator m ts gt stake order = Ok (Bundled b, m') ->
    fst (screen n m gt) = Some g ->
    gt = Some g /\ gt_ok (n_chain _ n) g = true.
  Proof. exact (bundled_ticket_solves chain view cv tx_valid gt_ok work_needed hchain mroot). Qed.

  (* the producer recovers: with a pooled ticket for the tip that does not solve it, ONE call of
     bundle_block (clock after the tip) behaves exactly like the call without a ticket on the pool
     without that ticket, and afterwards the pool holds no ticket for the tip -- whatever the
     outcome of the call (no block, block accepted, block rejected for another reason) *)
  Theorem C07_invalid_gt_recovers : forall dbg (n : node chain) creator m ts g stake order out m',
    (match v_tip (view (n_chain _ n)) with Some p => par_ts p | None => 0 end) < ts ->
    pick_gt m (tip_hash n) = Some g ->
    gt_ok (n_chain _ n) g = false ->
    bundle dbg n creator m ts (pick_gt m (tip_hash n)) stake order = Ok (out, m') ->
    pick_gt m' (tip_hash n) = None
    /\ bundle dbg n creator (drop_ticket chain view n m g) ts None stake order = Ok (out, m').
  Proof. exact (producer_recovers chain view cv tx_valid gt_ok work_needed hchain mroot). Qed.

  (* add_block_failure deletes under the hash of the FAILED block: a ticket for the tip stays pooled
     (harmless now that bundle_block screens it) *)
  Theorem C07_failure_keeps_ticket : forall dbg (n : node chain) m h mine b m1 tip,
    after_failure chain tx_valid dbg n m h mine b = Ok m1 -> h <> tip ->
    pool_types_ok (m_txs m) = true ->
    pick_gt m1 tip = pick_gt m tip /\ pool_types_ok (m_txs m1) = true.
  Proof. exact (after_failure_inv chain tx_valid). Qed.

  (* ---- the window (fix bb88717): an input can be spent in block [next] iff its block id + genesis
     period >= next; block [next] rebroadcasts the outputs of block next - genesis_period - 1 ---- *)

  (* a pool that holds only such inputs collides with no rebroadcast: create leaves nothing out *)
  Theorem C07_young_pool_kept : forall (key_block : N -> N) gp next c0 d,
    rebroadcasts_due key_block gp next c0 = true ->
    young_pool key_block gp next d = true ->
    kept_pool c0 d = d.
  Proof. exact (young_pool_kept chain gt_ok work_needed). Qed.

  (* the intake keeps the pool young while the tip stays (Transaction::validate refuses older inputs) *)
  Theorem C07_intake_keeps_young : forall (key_block : N -> N) gp next dbg (n : node chain) m t m1,
    (forall x, tx_valid (n_chain _ n) (n_ledger _ n) x = true -> young_tx key_block gp next x = true) ->
    young_pool key_block gp next (m_txs m) = true ->
    intake dbg n m t = Ok m1 ->
    young_pool key_block gp next (m_txs m1) = true.
  Proof. exact (intake_keeps_young chain view tx_valid). Qed.

  (* so from a young pool the left-out branch of Block::create is dead;
     the other half of the invariant (the tip moves) is C07_pool_stays_young *)
  Theorem C07_young_pool_nothing_left_out : forall (key_block : N -> N) gp next dbg (n : node chain) m s m1 order creator ts gt p,
    v_tip (view (n_chain _ n)) = Some p ->
    (forall x, tx_valid (n_chain _ n) (n_ledger _ n) x = true -> young_tx key_block gp next x = true) ->
    young_pool key_block gp next (m_txs m) = true ->
    intake dbg n m s = Ok m1 ->
    let drained := drain_in order (m_txs m1) in
    let c0 := cv (n_chain _ n) (n_ledger _ n) (pre_block (Some p) (par_hash p) creator ts gt drained) in
    rebroadcasts_due key_block gp next c0 = true ->
    kept_pool c0 drained = drained
    /\ nsum (map t_work (m_txs m1)) <= nsum (map t_work (kept_pool c0 drained)).
  Proof. exact (young_pool_nothing_left_out chain view cv tx_valid gt_ok work_needed supply_ok hchain mroot). Qed.

  (* the invariant over the life of the pool ([next_of] = id of the next block of a chain): from a
     young pool without ATR / Issuance-typed transactions on a running chain, every sequence of
     arrivals (ANY transaction, through the intake on the current node state), tip moves (ANY new
     node state with a running chain; re-validation of fix df3ca14) and shrinkings (a bundle
     drained the pool, create handed part of it back) ends in such a pool *)
  Theorem C07_pool_stays_young : forall (key_block : N -> N) gp (next_of : chain -> N),
    (forall (n : node chain) x, tx_valid (n_chain _ n) (n_ledger _ n) x = true ->
                                young_tx key_block gp (next_of (n_chain _ n)) x = true) ->
    forall dbg evs st st',
    forallb (tip_started chain view) evs = true ->
    started chain view st = true ->
    PoolInv chain key_block gp next_of st ->
    prun chain view tx_valid key_block gp next_of dbg st evs = Ok st' ->
    PoolInv chain key_block gp next_of st' /\ started chain view st' = true.
  Proof. exact (pool_stays_young chain view tx_valid). Qed.

  (* the intake on a running chain (fix 716c212): an Issuance-typed transaction is not pooled *)
  Theorem C07_issuance_refused : forall dbg (n : node chain) m t m1,
    v_blocks_empty (view (n_chain _ n)) = false ->
    intake dbg n m t = Ok m1 ->
    (m_txs m1 = m_txs m \/ (m_txs m1 = t :: m_txs m /\ pool_tx_ok t = true /\ is_type TIssuance t = false))
    /\ m_gts m1 = m_gts m.
  Proof. exact (issuance_refused chain view tx_valid). Qed.

  (* ---- staking transactions of other keys are not pooled (fix 9879695) ---- *)
  Theorem C07_foreign_stake_refused : forall dbg (n : node chain) m t,
    is_type TBlockStake t = true -> t_own t = false -> intake dbg n m t = Ok m.
  Proof. exact (foreign_stake_refused chain view tx_valid). Qed.

  (* ---- timestamps (fix f62222f) ---- *)
  Theorem C07_bundle_ts_declines : forall dbg (n : node chain) creator m ts gt stake order p,
    v_tip (view (n_chain _ n)) = Some p -> ts <= par_ts p ->
    bundle dbg n creator m ts gt stake order = Ok (GateClosed, m).
  Proof. exact (bundle_ts_declines chain view cv tx_valid gt_ok work_needed hchain mroot). Qed.

  (* ---- Block::create failing (fix 1214e31) ---- *)

  (* it fails only on a double spend among what it kept, its rebroadcasts and the fee
     transaction -- and no kept pooled transaction collides with a rebroadcast *)
  Theorem C07_create_error_is_double_spend : forall dbg (n : node chain) creator ts gt drained p,
    v_tip (view (n_chain _ n)) = Some p ->
    (forall g, gt = Some g -> is_type TGoldenTicket g = true) ->
    create dbg n creator ts gt drained = Err ->
    let c0 := cv (n_chain _ n) (n_ledger _ n) (pre_block (Some p) (par_hash p) creator ts gt drained) in
    let kept := kept_pool c0 drained in
    let cC := cv (n_chain _ n) (n_ledger _ n) (pre_block (Some p) (par_hash p) creator ts gt kept) in
    dup_spend ((opt_list gt ++ kept) ++ c_rebroadcasts cC ++ opt_list (c_fee_tx cC)) = true
    /\ (c_rebroadcasts c0 <> [] ->
        forall t, In t kept -> is_type TGoldenTicket t = true \/ collides (rb_inputs c0) t = false).
  Proof. exact (create_err_is_double_spend chain view cv work_needed hchain mroot). Qed.

  (* and then the pool gets back what create had drained and not left out, with reservations
     and work cache recomputed from it *)
  Theorem C07_create_failure_restores : forall dbg (n : node chain) creator m ts gt stake order m',
    bundle dbg n creator m ts gt stake order = Ok (CreateFailed, m') ->
    exists gt' m0 s m1,
      screen n m gt = (gt', m0) /\ stake = Some s /\ intake dbg n m0 s = Ok m1
      /\ m_txs m' = handed_back chain view cv n creator ts gt' (drain_in order (m_txs m1))
      /\ m_work m' = nsum (map t_work (m_txs m'))
      /\ m_umap m' = flat_map t_inputs (m_txs m')
      /\ m_gts m' = m_gts m0.
  Proof. exact (create_failure_restores chain view cv tx_valid gt_ok work_needed hchain mroot). Qed.
End C07.

(* ---------------------------------------------------------------- witnesses and regressions
   Recorded rounds of the REAL code at /repo HEAD (harness/src/bin/c07.rs, scripted scenarios,
   seed 1): the pool, the chain view, the ConsensusValues computed by Block::create ([rc_cvC] =
   block.cv) and by generate_consensus_values on the finished block on the second node
   ([rc_cvV]), the verdicts of Transaction::validate / the golden-ticket check, the observed
   outcome ([rc_expected]).  The work function is the constant the real function returned in
   that round. *)
Definition wn0 : N -> N -> N -> N -> N := fun _ _ _ _ => 0.

(* cap: {"label": "dust-profile", "tip": 5, "gap_ms": 25000, "pool_ops": [{"op": "transfer", "payer": 2, "input": "5:2:1 amount 613335", "fee": 20000, "hops": 1, "pooled": true}, {"op": "transfer", "payer": 3, "input": "5:3:0 amount 606669", "fee": 20000, "hops": 1, "pooled": true}, {"op": "transfer", "payer": 4, "input": "5:4:0 amount 600003", "fee": 20000, "hops": 1, "pooled": true}, {"op": "transfer", "payer": 5, "input": "5:1:0 amount 593337", "fee": 20000, "hops": 1, "pooled": true}], "pool_size": 4, "cached_work": 80000, "work_needed": 0, "gt_for_tip": false, "outcome": "Accepted", "detail": "block 6 txs(types) [0, 0, 0, 0, 3] producer OnChain second node OnChain; atr multiplier 3; diffs []; create-vs-validate cv []"} *)
Definition wit_cap : rcase :=
  mkRC (mkView (Some (mkPar 65 5 1100000 40000 2 96428 12649111 false)) false 0 10000 2562 true true) (mkM [(mkTx 69 70 TNormal 20000 [71] 0 0 false); (mkTx 72 73 TNormal 20000 [74] 0 0 false); (mkTx 75 76 TNormal 20000 [77] 0 0 false); (mkTx 78 79 TNormal 20000 [80] 0 0 false)] [71; 74; 77; 80] 80000 true true []) 18 1125000 (Some (mkTx 14 15 TBlockStake 0 [] 0 0 true)) [79; 76; 73; 70] 81 (mkCv (mkE 80000 80000 0 80000 73115 69464 3651 0 0 0 0 0 21728 12840 0 0 0 44 56 112540 8000000 0) [(mkTx 82 9 TATR 0 [83] 1 0 false)] 1 84 None) (mkCv (mkE 80000 80000 0 80000 73115 69464 3651 0 0 0 0 0 21728 12840 0 0 0 44 56 112540 8000000 0) [(mkTx 82 9 TATR 0 [83] 1 0 false)] 1 84 None) [(69, true); (72, true); (75, true); (78, true); (14, false); (82, true)] [] [(71, 5); (74, 5); (77, 5); (80, 5); (83, 2)] 3 [([82], 84); ([], 0)] [([78; 75; 72; 69; 82], 85)] true [[4]; [78; 75; 72; 69; 82]; [6; 1125000; 65; 96428; 40000; 2]; [80000; 80000; 0; 80000; 73115; 69464; 3651; 0; 0; 0; 0; 0; 21728; 12840; 0; 0; 0; 44; 56; 112540; 8000000; 0]; [80000; 1; 84; 85]; [1; 1]; []; [0; 0]; []].

(* gt: {"label": "invalid-golden-ticket", "tip": 4, "gap_ms": 25000, "pool_ops": [{"op": "transfer", "payer": 2, "input": "1:9:0 amount 401002", "fee": 5000, "hops": 1, "pooled": true}, {"op": "transfer", "payer": 3, "input": "3:2:0 amount 401703", "fee": 300, "hops": 2, "pooled": true}, {"op": "transfer", "payer": 4, "input": "1:29:0 amount 405004", "fee": 0, "hops": 0, "pooled": true}, {"op": "golden-ticket", "kind": "Invalid", "tip_difficulty": 2}], "pool_size": 3, "cached_work": 5150, "work_needed": 0, "gt_for_tip": true, "outcome": "Accepted", "detail": "block 5 txs(types) [0, 0, 0] producer OnChain second node OnChain; atr multiplier 1; diffs []; create-vs-validate cv []"} *)
Definition wit_gt : rcase :=
  mkRC (mkView (Some (mkPar 46 4 1075000 0 2120 5300 20000000 false)) false 0 10000 3519 true true) (mkM [(mkTx 50 51 TNormal 0 [52] 0 0 false); (mkTx 53 54 TNormal 150 [55] 0 0 false); (mkTx 56 57 TNormal 5000 [58] 0 0 false)] [52; 55; 58] 5150 true true [(46, mkTx 59 60 TGoldenTicket 0 [] 0 46 true)]) 19 1100000 (Some (mkTx 13 14 TBlockStake 0 [] 0 0 true)) [57; 51; 54] 61 (mkCv (mkE 5300 5300 0 5300 3128 3128 0 0 0 0 0 0 628 628 0 0 0 1 5 0 12649111 2) [] 0 0 None) (mkCv (mkE 5300 5300 0 5300 3128 3128 0 0 0 0 0 0 628 628 0 0 0 1 5 0 12649111 2) [] 0 0 None) [(50, true); (53, true); (56, true); (13, false)] [(59, false)] [(52, 1); (55, 3); (58, 1)] 5 [([], 0)] [([56; 50; 53], 62)] true [[4]; [56; 50; 53]; [5; 1100000; 46; 5300; 0; 2120]; [5300; 5300; 0; 5300; 3128; 3128; 0; 0; 0; 0; 0; 0; 628; 628; 0; 0; 0; 1; 5; 0; 12649111; 2]; [5150; 0; 0; 62]; [1; 1]; []; [0; 0]; []].

(* issuance: {"label": "issuance", "tip": 3, "gap_ms": 25000, "pool_ops": [{"op": "transfer", "payer": 2, "input": "1:14:0 amount 406002", "fee": 5000, "hops": 1, "pooled": true}, {"op": "transfer", "payer": 3, "input": "1:20:0 amount 404003", "fee": 300, "hops": 2, "pooled": true}, {"op": "transfer", "payer": 4, "input": "2:2:0 amount 404004", "fee": 0, "hops": 0, "pooled": true}, {"op": "issuance-typed", "pooled": false}], "pool_size": 3, "cached_work": 5150, "work_needed": 0, "gt_for_tip": false, "outcome": "Accepted", "detail": "block 4 txs(types) [0, 0, 0] producer OnChain second node OnChain; atr multiplier 1; diffs []; create-vs-validate cv []"} *)
Definition wit_issuance : rcase :=
  mkRC (mkView (Some (mkPar 27 3 1050000 0 2120 5300 31622777 false)) false 0 10000 4868 true true) (mkM [(mkTx 31 32 TNormal 150 [33] 0 0 false); (mkTx 34 35 TNormal 0 [36] 0 0 false); (mkTx 37 38 TNormal 5000 [39] 0 0 false)] [33; 36; 39] 5150 true true []) 15 1075000 (Some (mkTx 11 12 TBlockStake 0 [] 0 0 true)) [35; 38; 32] 40 (mkCv (mkE 5300 5300 0 5300 2586 2586 0 0 0 0 0 0 255 255 0 0 0 1 5 0 20000000 0) [] 0 0 None) (mkCv (mkE 5300 5300 0 5300 2586 2586 0 0 0 0 0 0 255 255 0 0 0 1 5 0 20000000 0) [] 0 0 None) [(31, true); (34, true); (37, true); (11, false)] [] [(33, 1); (36, 2); (39, 1)] 5 [([], 0)] [([34; 37; 31], 41)] true [[4]; [34; 37; 31]; [4; 1075000; 27; 5300; 0; 2120]; [5300; 5300; 0; 5300; 2586; 2586; 0; 0; 0; 0; 0; 0; 255; 255; 0; 0; 0; 1; 5; 0; 20000000; 0]; [5150; 0; 0; 41]; [1; 1]; []; [0; 0]; []].

(* stake: {"label": "foreign-stake", "tip": 3, "gap_ms": 25000, "pool_ops": [{"op": "transfer", "payer": 2, "input": "1:14:0 amount 406002", "fee": 5000, "hops": 1, "pooled": true}, {"op": "transfer", "payer": 3, "input": "1:20:0 amount 404003", "fee": 300, "hops": 2, "pooled": true}, {"op": "transfer", "payer": 4, "input": "2:3:0 amount 404004", "fee": 0, "hops": 0, "pooled": true}, {"op": "blockstake-typed-from-peer", "payer": 5, "pooled": false}], "pool_size": 3, "cached_work": 5150, "work_needed": 0, "gt_for_tip": false, "outcome": "Accepted", "detail": "block 4 txs(types) [0, 7, 0, 0] producer OnChain second node OnChain; atr multiplier 1; diffs []; create-vs-validate cv []"} *)
Definition wit_stake : rcase :=
  mkRC (mkView (Some (mkPar 31 3 1050000 0 2120 5300 31622777 false)) false 50000 10000 2807 true true) (mkM [(mkTx 35 36 TNormal 150 [37] 0 0 false); (mkTx 38 39 TNormal 0 [40] 0 0 false); (mkTx 41 42 TNormal 5000 [43] 0 0 false)] [37; 40; 43] 5150 true true []) 16 1075000 (Some (mkTx 44 45 TBlockStake 0 [46] 0 0 true)) [36; 45; 42; 39] 47 (mkCv (mkE 5300 5300 0 5300 2586 2586 0 0 0 0 0 0 255 255 0 0 0 0 4 0 20000000 0) [] 0 0 None) (mkCv (mkE 5300 5300 0 5300 2586 2586 0 0 0 0 0 0 255 255 0 0 0 0 4 0 20000000 0) [] 0 0 None) [(35, true); (38, true); (41, true); (44, true)] [] [(37, 1); (40, 2); (43, 1); (46, 1)] 5 [([], 0)] [([35; 44; 41; 38], 48)] true [[4]; [35; 44; 41; 38]; [4; 1075000; 31; 5300; 0; 2120]; [5300; 5300; 0; 5300; 2586; 2586; 0; 0; 0; 0; 0; 0; 255; 255; 0; 0; 0; 0; 4; 0; 20000000; 0]; [5150; 0; 0; 48]; [1; 1]; []; [0; 0]; []].

(* ts: {"label": "timestamp-order", "tip": 3, "gap_ms": 0, "pool_ops": [{"op": "transfer", "payer": 2, "input": "1:14:0 amount 406002", "fee": 5000, "hops": 1, "pooled": true}, {"op": "transfer", "payer": 3, "input": "1:20:0 amount 404003", "fee": 300, "hops": 2, "pooled": true}, {"op": "transfer", "payer": 4, "input": "2:0:0 amount 404004", "fee": 0, "hops": 0, "pooled": true}], "pool_size": 3, "cached_work": 5150, "work_needed": 10000000000000000000, "gt_for_tip": false, "outcome": "GateClosed", "detail": ""} *)
Definition wit_ts : rcase :=
  mkRC (mkView (Some (mkPar 27 3 1050000 0 2120 5300 31622777 false)) false 0 10000 4699 true true) (mkM [(mkTx 31 32 TNormal 150 [33] 0 0 false); (mkTx 34 35 TNormal 0 [36] 0 0 false); (mkTx 37 38 TNormal 5000 [39] 0 0 false)] [33; 36; 39] 5150 true true []) 15 1050000 (Some (mkTx 11 12 TBlockStake 0 [] 0 0 true)) [32; 35; 38; 12] 0 (mkCv econ0 [] 0 0 None) (mkCv econ0 [] 0 0 None) [(31, true); (34, true); (37, true); (11, false)] [] [(33, 1); (36, 2); (39, 1)] 5 [([], 0)] [] true [[1]; [32; 35; 38]; [5150; 1]; []].

(* aged: {"label": "pooled-dust-input-ages", "tip": 8, "gap_ms": 25000, "pool_ops": [{"op": "transfer", "payer": 2, "input": "5:15:0 amount 396682", "fee": 20000, "hops": 1, "pooled": true}, {"op": "transfer", "payer": 3, "input": "5:20:0 amount 396683", "fee": 20000, "hops": 1, "pooled": true}, {"op": "transfer", "payer": 4, "input": "5:25:0 amount 396684", "fee": 20000, "hops": 1, "pooled": true}, {"op": "transfer-creating-a-60-nolan-output", "payer": 5, "pooled": true}, {"op": "spend-oldest-spendable-output", "payer": 5, "input": "5:4:0 amount 60", "fee": 10, "pooled": true}, {"op": "peer-block", "own_transactions_only": true, "txs": 1, "producer": "OnChain", "second": "OnChain", "pool_after": 0, "cached_work_after": 0}], "pool_size": 0, "cached_work": 0, "work_needed": 0, "gt_for_tip": false, "outcome": "GateClosed", "detail": ""} *)
Definition wit_aged : rcase :=
  mkRC (mkView (Some (mkPar 201 8 1175000 154480 114482 82878 3200000 false)) false 0 10000 551 true true) (mkM [] [] 0 true true []) 18 1200000 (Some (mkTx 14 15 TBlockStake 0 [] 0 0 true)) [15] 0 (mkCv econ0 [] 0 0 None) (mkCv econ0 [] 0 0 None) [(14, false)] [] [] 3 [([], 0)] [] true [[1]; []; [0; 1]; []].

(* leftout: {"label": "pooled-input-ages-and-is-left-out", "tip": 9, "gap_ms": 25000, "pool_ops": [{"op": "spend-oldest-spendable-output", "payer": 2, "input": "6:0:0 amount 400992", "fee": 7000, "pooled": true}, {"op": "transfer", "payer": 4, "input": "8:3:0 amount 405700", "fee": 300, "hops": 1, "pooled": true}, {"op": "peer-block", "own_transactions_only": true, "txs": 1, "producer": "OnChain", "second": "OnChain", "pool_after": 1, "cached_work_after": 300}], "pool_size": 1, "cached_work": 300, "work_needed": 0, "gt_for_tip": false, "outcome": "Accepted", "detail": "block 10 txs(types) [0, 3] producer OnChain second node OnChain; atr multiplier 1; diffs []; create-vs-validate cv []"} *)
Definition wit_leftout : rcase :=
  mkRC (mkView (Some (mkPar 185 9 1200000 3467 16630 24730 2023858 false)) false 0 10000 3524 true true) (mkM [(mkTx 186 187 TNormal 300 [188] 0 0 false)] [188] 300 true true []) 15 1225000 (Some (mkTx 11 12 TBlockStake 0 [] 0 0 true)) [187] 189 (mkCv (mkE 722 300 422 722 7910 1478 6433 0 0 0 6242 0 522 284 0 2080 0 2 0 7117421 1280000 0) [(mkTx 190 191 TATR 0 [192] 1 0 false)] 1 193 None) (mkCv (mkE 722 300 422 722 7910 1478 6433 0 0 0 6242 0 522 284 0 2080 0 2 0 7117421 1280000 0) [(mkTx 190 191 TATR 0 [192] 1 0 false)] 1 193 None) [(186, true); (11, false); (190, true)] [] [(188, 8); (192, 6)] 3 [([190], 193); ([], 0)] [([186; 190], 194)] true [[4]; [186; 190]; [10; 1225000; 185; 24730; 3467; 22872]; [722; 300; 422; 722; 7910; 1478; 6433; 0; 0; 0; 6242; 0; 522; 284; 0; 2080; 0; 2; 0; 7117421; 1280000; 0]; [300; 1; 193; 194]; [1; 1]; []; [0; 0]; []].

(* zerogt: {"label": "zero-key-ticket", "tip": 4, "gap_ms": 25000, "pool_ops": [{"op": "transfer", "payer": 2, "input": "1:9:0 amount 401002", "fee": 5000, "hops": 1, "pooled": true}, {"op": "transfer", "payer": 3, "input": "3:2:0 amount 401703", "fee": 300, "hops": 2, "pooled": true}, {"op": "transfer", "payer": 4, "input": "1:29:0 amount 405004", "fee": 0, "hops": 0, "pooled": true}, {"op": "golden-ticket", "kind": "ZeroKey", "tip_difficulty": 0}], "pool_size": 3, "cached_work": 5150, "work_needed": 0, "gt_for_tip": true, "outcome": "Accepted", "detail": "block 5 txs(types) [0, 0, 0] producer OnChain second node OnChain; atr multiplier 1; diffs []; create-vs-validate cv []"} *)
Definition wit_zerogt : rcase :=
  mkRC (mkView (Some (mkPar 40 4 1075000 0 2120 5300 20000000 false)) false 0 10000 387 true true) (mkM [(mkTx 42 43 TNormal 0 [44] 0 0 false); (mkTx 45 46 TNormal 150 [47] 0 0 false); (mkTx 48 49 TNormal 5000 [50] 0 0 false)] [44; 47; 50] 5150 true true [(40, mkTx 51 52 TGoldenTicket 0 [] 0 40 true)]) 15 1100000 (Some (mkTx 11 12 TBlockStake 0 [] 0 0 true)) [43; 49; 46] 53 (mkCv (mkE 5300 5300 0 5300 3128 3128 0 0 0 0 5300 0 204 204 0 1060 0 1 5 0 12649111 0) [] 0 0 None) (mkCv (mkE 5300 5300 0 5300 3128 3128 0 0 0 0 5300 0 204 204 0 1060 0 1 5 0 12649111 0) [] 0 0 None) [(42, true); (45, true); (48, true); (11, false)] [(51, false)] [(44, 1); (47, 3); (50, 1)] 5 [([], 0)] [([42; 48; 45], 54)] true [[4]; [42; 48; 45]; [5; 1100000; 40; 5300; 0; 7420]; [5300; 5300; 0; 5300; 3128; 3128; 0; 0; 0; 0; 5300; 0; 204; 204; 0; 1060; 0; 1; 5; 0; 12649111; 0]; [5150; 0; 0; 54]; [1; 1]; []; [0; 0]; []].

(* injaged: {"label": "aged-spend-injected", "tip": 5, "gap_ms": 25000, "pool_ops": [{"op": "transfer", "payer": 2, "input": "5:3:0 amount 393002", "fee": 5000, "hops": 1, "pooled": true}, {"op": "transfer", "payer": 3, "input": "5:17:0 amount 399699", "fee": 300, "hops": 2, "pooled": true}, {"op": "transfer", "payer": 4, "input": "5:23:0 amount 401700", "fee": 0, "hops": 0, "pooled": true}, {"op": "spend-of-output-due-for-rebroadcast-injected-into-Mempool.transactions", "input": "2:2:0 amount 399002"}], "pool_size": 4, "cached_work": 5150, "work_needed": 0, "gt_for_tip": false, "outcome": "Accepted", "detail": "block 6 txs(types) [0, 0, 0, 3, 3] producer OnChain second node OnChain; atr multiplier 1; diffs []; create-vs-validate cv []"} *)
Definition wit_injaged : rcase :=
  mkRC (mkView (Some (mkPar 53 5 1100000 2650 2 15028 12649111 false)) false 0 10000 1148 true true) (mkM [(mkTx 154 155 TNormal 900 [156] 0 0 false); (mkTx 157 158 TNormal 0 [159] 0 0 false); (mkTx 160 161 TNormal 150 [162] 0 0 false); (mkTx 163 164 TNormal 5000 [165] 0 0 false)] [156; 159; 162; 165] 5150 true true []) 15 1125000 (Some (mkTx 11 12 TBlockStake 0 [] 0 0 true)) [161; 164; 158] 166 (mkCv (mkE 6924 5300 1624 6924 7305 4601 2703 0 0 0 0 0 1440 851 0 0 0 3 5 5975483 8000000 0) [(mkTx 167 3 TATR 0 [168] 1 0 false); (mkTx 169 6 TATR 0 [156] 1 0 false)] 2 170 None) (mkCv (mkE 6924 5300 1624 6924 7305 4601 2703 0 0 0 0 0 1440 851 0 0 0 3 5 5975483 8000000 0) [(mkTx 167 3 TATR 0 [168] 1 0 false); (mkTx 169 6 TATR 0 [156] 1 0 false)] 2 170 None) [(154, false); (157, true); (160, true); (163, true); (11, false); (167, true); (169, true)] [] [(156, 2); (159, 5); (162, 5); (165, 5); (168, 2)] 3 [([167; 169], 170); ([], 0)] [([160; 163; 157; 167; 169], 171)] true [[4]; [160; 163; 157; 167; 169]; [6; 1125000; 53; 15028; 2650; 2]; [6924; 5300; 1624; 6924; 7305; 4601; 2703; 0; 0; 0; 0; 0; 1440; 851; 0; 0; 0; 3; 5; 5975483; 8000000; 0]; [5150; 2; 170; 171]; [1; 1]; []; [0; 0]; []].

(* ok: {"label": "work-gated", "tip": 10, "gap_ms": 10000, "pool_ops": [{"op": "transfer", "payer": 2, "input": "10:9:0 amount 402002", "fee": 5000, "hops": 1, "pooled": true}, {"op": "transfer", "payer": 3, "input": "9:2:0 amount 406403", "fee": 300, "hops": 2, "pooled": true}, {"op": "transfer", "payer": 4, "input": "10:17:0 amount 407004", "fee": 0, "hops": 0, "pooled": true}, {"op": "golden-ticket", "kind": "Valid", "tip_difficulty": 0}], "pool_size": 3, "cached_work": 5150, "work_needed": 2000, "gt_for_tip": true, "outcome": "Accepted", "detail": "block 11 txs(types) [2, 0, 0, 0, 7, 3, 1] producer OnChain second node OnChain; atr multiplier 1; diffs []; create-vs-validate cv []"} *)
Definition wit_ok : rcase :=
  mkRC (mkView (Some (mkPar 135 10 1124998 7922 3426 5300 20001000 false)) false 50000 10000 2645 true true) (mkM [(mkTx 222 223 TNormal 5000 [224] 0 0 false); (mkTx 225 226 TNormal 150 [227] 0 0 false); (mkTx 228 229 TNormal 0 [230] 0 0 false)] [224; 227; 230] 5150 true true [(135, mkTx 231 232 TGoldenTicket 0 [] 0 135 true)]) 16 1134998 (Some (mkTx 76 77 TBlockStake 0 [233] 0 0 true)) [223; 226; 229; 77] 234 (mkCv (mkE 5300 5300 0 5300 3903 3903 0 5300 2650 2650 0 0 1895 969 331 0 0 0 3 2044189 20001000 0) [(mkTx 235 12 TATR 0 [236] 1 0 true)] 1 239 (Some (mkTx 237 0 TFee 0 [] 0 0 true))) (mkCv (mkE 5300 5300 0 5300 3903 3903 0 5300 2650 2650 0 0 1895 969 331 0 0 0 3 2044189 20001000 0) [(mkTx 235 12 TATR 0 [236] 1 0 true)] 1 239 (Some (mkTx 237 0 TFee 0 [] 0 0 true))) [(222, true); (225, true); (228, true); (76, true); (231, true); (235, true); (237, true)] [(231, true)] [(224, 10); (227, 9); (230, 10); (233, 7); (236, 2)] 8 [([235], 239); ([], 0)] [([231; 222; 225; 228; 76; 235; 237], 240)] true [[4]; [231; 222; 225; 228; 76; 235; 237]; [11; 1134998; 135; 0; 10572; 3426]; [5300; 5300; 0; 5300; 3903; 3903; 0; 5300; 2650; 2650; 0; 0; 1895; 969; 331; 0; 0; 0; 3; 2044189; 20001000; 0]; [5150; 1; 239; 240]; [1; 1]; []; [0; 0]; []].


Definition next_of (c : rcase) : N := match v_tip (rc_view c) with Some p => par_id p + 1 | None => 1 end.

(* REGRESSION (fix 716c212; was C07_produced_validates_refuted_issuance).  A peer sent an
   Issuance-typed transaction on a running chain: the intake did not pool it, the block is built
   from the three transfers and accepted by both nodes; the model's intake refuses such a
   transaction on the recorded node state whatever Transaction::validate says *)
Example C07_issuance_regression : exists b,
  count_type TIssuance (m_txs (rc_pool wit_issuance)) = 0
  /\ add_transaction_if_validates unit (rc_viewf wit_issuance) (fun _ _ _ => true) true rc_node (rc_pool wit_issuance)
       (mkTx 900001 900002 TIssuance 0 [] 0 0 false) = Ok (rc_pool wit_issuance)
  /\ rc_created wit_issuance = Ok b
  /\ rc_accepts wn0 wit_issuance b = Ok true
  /\ run_rcase wn0 wit_issuance = rc_expected wit_issuance.
Proof. eexists. split; [vm_compute; reflexivity|]. split; [vm_compute; reflexivity|]. split; [vm_compute; reflexivity|]. split; vm_compute; reflexivity. Qed.

(* REGRESSION (fix df3ca14; was C07_pool_not_young_refuted_left_out / _invalid_tx).  A transaction was
   pooled while its input could still be spent in the next block, then another producer's block moved
   the tip: the re-validation dropped it, the pool the producer bundles from is young, the block is
   built from all of it and accepted by both nodes *)
Example C07_aged_input_regression : exists b,
  m_txs (rc_pool wit_leftout) <> []
  /\ young_pool (rc_key_blockf wit_leftout) (rc_gp wit_leftout) (next_of wit_leftout) (m_txs (rc_pool wit_leftout)) = true
  /\ rebroadcasts_due (rc_key_blockf wit_leftout) (rc_gp wit_leftout) (next_of wit_leftout) (rc_cvC wit_leftout) = true
  /\ rc_created wit_leftout = Ok b
  /\ Nlen (b_txs (fst (rc_pre wit_leftout))) = Nlen (rc_drained wit_leftout)
  /\ rc_accepts wn0 wit_leftout b = Ok true
  /\ run_rcase wn0 wit_leftout = rc_expected wit_leftout.
Proof. eexists. split; [vm_compute; discriminate|]. split; [vm_compute; reflexivity|]. split; [vm_compute; reflexivity|]. split; [vm_compute; reflexivity|]. repeat split; vm_compute; reflexivity. Qed.

(* ... and when everything pooled has aged (five transactions spending outputs of block 5, tip moved
   from 7 to 8 with genesis period 3) the pool is empty and bundle_block declines *)
Example C07_aged_pool_emptied_regression :
  m_txs (rc_pool wit_aged) = []
  /\ hd [] (run_rcase wn0 wit_aged) = [1]
  /\ run_rcase wn0 wit_aged = rc_expected wit_aged.
Proof. repeat split; vm_compute; reflexivity. Qed.

(* the leave-out branch of Block::create itself, fed by INJECTION (a spend of an output the block
   rebroadcasts, put straight into Mempool.transactions past intake and re-validation): the pool is
   not young, create leaves the transaction out, recomputes the consensus values, and the block is
   accepted by both nodes *)
Example C07_leave_out_branch_by_injection : exists b,
  young_pool (rc_key_blockf wit_injaged) (rc_gp wit_injaged) (next_of wit_injaged) (m_txs (rc_pool wit_injaged)) = false
  /\ rc_created wit_injaged = Ok b
  /\ Nlen (b_txs (fst (rc_pre wit_injaged))) < Nlen (rc_drained wit_injaged)
  /\ agreesb true (lookup_l (rc_hchain wit_injaged)) (rc_cvC wit_injaged) (rc_cvV wit_injaged) = true
  /\ rc_accepts wn0 wit_injaged b = Ok true
  /\ run_rcase wn0 wit_injaged = rc_expected wit_injaged.
Proof. eexists. split; [vm_compute; reflexivity|]. split; [vm_compute; reflexivity|]. repeat split; vm_compute; reflexivity. Qed.

(* REGRESSION (fix 6a5c788; was C07_zero_key_ticket_refuted).  The pooled ticket for the tip solves it
   and names the all-zero key: bundle_block's screen drops it, the block is built without a ticket,
   both nodes accept, the ticket is gone *)
Example C07_zero_key_ticket_regression : exists g,
  pick_gt (rc_pool wit_zerogt) (rc_tip_hash wit_zerogt) = Some g /\ rc_gtf wit_zerogt tt g = false
  /\ rc_gt wit_zerogt = None
  /\ hd [] (run_rcase wn0 wit_zerogt) = [4]
  /\ nth 5 (run_rcase wn0 wit_zerogt) [] = [1; 1]
  /\ nth 8 (run_rcase wn0 wit_zerogt) [7] = []
  /\ run_rcase wn0 wit_zerogt = rc_expected wit_zerogt.
Proof. eexists. split; [vm_compute; reflexivity|]. repeat split; vm_compute; reflexivity. Qed.

(* REGRESSION (fix e1b5241).  Payout multiplier > 1 and a rebroadcast in the block *)
Example C07_payout_cap_regression : exists b,
  rc_created wit_cap = Ok b
  /\ c_rebroadcasts (rc_cvC wit_cap) <> []
  /\ agreesb true (lookup_l (rc_hchain wit_cap)) (rc_cvC wit_cap) (rc_cvV wit_cap) = true
  /\ rc_accepts wn0 wit_cap b = Ok true
  /\ run_rcase wn0 wit_cap = rc_expected wit_cap.
Proof. eexists. split; [vm_compute; reflexivity|]. repeat split; try (vm_compute; reflexivity). vm_compute. discriminate. Qed.

(* REGRESSION (fix e0300b2).  A pooled ticket whose solution does not validate *)
Example C07_invalid_ticket_regression : exists g,
  pick_gt (rc_pool wit_gt) (rc_tip_hash wit_gt) = Some g /\ rc_gtf wit_gt tt g = false
  /\ rc_gt wit_gt = None
  /\ hd [] (run_rcase wn0 wit_gt) = [4]
  /\ nth 5 (run_rcase wn0 wit_gt) [] = [1; 1]
  /\ nth 8 (run_rcase wn0 wit_gt) [7] = []
  /\ run_rcase wn0 wit_gt = rc_expected wit_gt.
Proof. eexists. split; [vm_compute; reflexivity|]. repeat split; vm_compute; reflexivity. Qed.

(* REGRESSION (fix 9879695).  Staking required, a peer submitted a BlockStake transaction *)
Example C07_foreign_stake_regression : exists b,
  rc_created wit_stake = Ok b
  /\ v_stake_req (rc_view wit_stake) <> 0
  /\ count_type TBlockStake (b_txs b) = 1
  /\ rc_accepts wn0 wit_stake b = Ok true
  /\ run_rcase wn0 wit_stake = rc_expected wit_stake.
Proof. eexists. split; [vm_compute; reflexivity|]. repeat split; try (vm_compute; reflexivity). vm_compute. discriminate. Qed.

(* REGRESSION (fix f62222f).  Timestamp not after the tip's: no block, pool unchanged *)
Example C07_timestamp_declined_witness :
  rc_ts wit_ts <= match v_tip (rc_view wit_ts) with Some p => par_ts p | None => 0 end
  /\ hd [] (run_rcase wn0 wit_ts) = [1]
  /\ run_rcase wn0 wit_ts = rc_expected wit_ts.
Proof. repeat split; vm_compute; try reflexivity; discriminate. Qed.

(* non-vacuity: a recorded round (golden ticket, staking transaction, three transfers,
   rebroadcasts, fee transaction; staking on, window wrapped) that
   meets the structural hypotheses, and is accepted by both nodes *)
Definition wn_ok : N -> N -> N -> N -> N := fun _ _ _ _ => 2000.
Example C07_example : exists b p,
  v_tip (rc_view wit_ok) = Some p
  /\ rc_created wit_ok = Ok b
  /\ agreesb true (lookup_l (rc_hchain wit_ok)) (rc_cvC wit_ok) (rc_cvV wit_ok) = true
  /\ cv_types_ok (rc_cvC wit_ok) = true
  /\ is_some (c_fee_tx (rc_cvC wit_ok)) = true /\ is_some (rc_gt wit_ok) = true
  /\ c_rebroadcasts (rc_cvC wit_ok) <> []
  /\ rebroadcasts_due (rc_key_blockf wit_ok) (rc_gp wit_ok) (next_of wit_ok) (rc_cvC wit_ok) = true
  /\ pool_types_ok (rc_drained wit_ok) = true
  /\ young_pool (rc_key_blockf wit_ok) (rc_gp wit_ok) (next_of wit_ok) (rc_drained wit_ok) = true
  /\ rc_drained wit_ok <> []
  /\ rc_accepts wn_ok wit_ok b = Ok true
  /\ run_rcase wn_ok wit_ok = rc_expected wit_ok.
Proof.
  eexists. eexists. split; [vm_compute; reflexivity|]. split; [vm_compute; reflexivity|].
  repeat split; try (vm_compute; reflexivity); vm_compute; discriminate.
Qed.

(* the cache hypothesis of C07_gate_implies_work cannot be dropped: can_bundle_block compares
   the CACHED routing work, Block::validate the work recomputed from the block's
   transactions; a cache that over-reports (pool work 10, cache 60, work needed 50) lets the
   gate pass and every node reject.  (Toy instance of the Section variables; on the real
   code the cache was exact in every round of the harness: dimension "cache".) *)
Example C07_gate_needs_honest_cache :
  let p := mkPar 1 1 1000 0 0 0 7 false in
  let vw := fun _ : unit => mkView (Some p) false 0 100 0 true true in
  let c0 := mkCv econ0 [] 0 0 None in
  let cvf := fun (_ : unit) (_ : list N) (_ : block) => c0 in
  let valid := fun (_ : unit) (_ : list N) (_ : tx) => true in
  let gtf := fun (_ : unit) (_ : tx) => true in
  let wn := fun _ _ _ _ : N => 50 in
  let h0 := fun _ : list N => 0 in
  let t := mkTx 5 6 TNormal 10 [9] 0 0 false in
  let m := mkM [t] [9] 60 true true [] in
  let nd := mkNode unit tt [] in
  can_bundle unit vw wn nd m 1100 false = Some 60
  /\ exists b, create unit vw cvf h0 h0 true nd 3 1100 None [t] = Ok b
       /\ validate unit vw cvf valid gtf wn h0 true nd true b = Ok false.
Proof. cbv zeta. split; [vm_compute; reflexivity|]. eexists. split; [vm_compute; reflexivity|]. vm_compute. reflexivity. Qed.

Print Assumptions C07_agrees_fields.
Print Assumptions C07_produced_validates.
Print Assumptions C07_create_filters.
Print Assumptions C07_gate_implies_work.
Print Assumptions C07_bundle_produced_validates.
Print Assumptions C07_second_node.
Print Assumptions C07_invalid_gt_rejected.
Print Assumptions C07_bundled_ticket_solves.
Print Assumptions C07_invalid_gt_recovers.
Print Assumptions C07_failure_keeps_ticket.
Print Assumptions C07_young_pool_kept.
Print Assumptions C07_intake_keeps_young.
Print Assumptions C07_young_pool_nothing_left_out.
Print Assumptions C07_pool_stays_young.
Print Assumptions C07_issuance_refused.
Print Assumptions C07_foreign_stake_refused.
Print Assumptions C07_bundle_ts_declines.
Print Assumptions C07_create_error_is_double_spend.
Print Assumptions C07_create_failure_restores.
Print Assumptions C07_issuance_regression.
Print Assumptions C07_aged_input_regression.
Print Assumptions C07_aged_pool_emptied_regression.
Print Assumptions C07_leave_out_branch_by_injection.
Print Assumptions C07_zero_key_ticket_regression.
Print Assumptions C07_payout_cap_regression.
Print Assumptions C07_invalid_ticket_regression.
Print Assumptions C07_foreign_stake_regression.
Print Assumptions C07_timestamp_declined_witness.
Print Assumptions C07_example.
Print Assumptions C07_gate_needs_honest_cache.
