(* C08 — Routing work gates block production; payouts go only to eligible parties.
   Only statements here; proofs are in proofs/BurnFeeProofs.v and proofs/RoutingProofs.v.

   Models: model/BurnFee.v (bit-exact IEEE-754 binary64 model of burnfee.rs, Flocq),
           model/Routing.v (generate_total_work, validate_routing_path,
           get_winning_routing_node, find_winning_router, the gate, the payout step). *)
From Saito Require Import Base BurnFee Routing BurnFeeProofs RoutingProofs.

(* ================================================================== *)
(* 1. the requirement: never increases with elapsed time, zero after
      two heartbeats                                                   *)

(* return_routing_work_needed_to_produce_block_in_nolan is 0 from two heartbeats on *)
Theorem C08_work_zero_after_two_heartbeats : forall bf prev_ts ts hb,
  0 < hb -> prev_ts + 2 * hb <= ts -> work_needed bf ts prev_ts hb = 0.
Proof. exact work_zero_after_two_heartbeats. Qed.

(* the same on the function with explicit u64 behaviour of `2 * heartbeat`,
   both build profiles *)
Theorem C08_work_r_zero_after_two_heartbeats : forall dbg bf prev_ts ts hb,
  0 < hb -> ts < two64 -> prev_ts + 2 * hb <= ts -> work_needed_r dbg bf ts prev_ts hb = Ok 0.
Proof. exact work_r_zero_after_two_heartbeats. Qed.

(* the only way the function panics: debug profile and 2 * heartbeat >= 2^64 *)
Theorem C08_work_panic_only_on_heartbeat_overflow : forall dbg bf ts prev hb site,
  work_needed_r dbg bf ts prev hb = Panic site ->
  dbg = true /\ two64 <= 2 * hb /\ prev < ts /\ site = P_HEARTBEAT_OVERFLOW.
Proof. exact work_needed_r_panic. Qed.

(* FULL STATEMENT (false on the code as written):
     forall bf prev t1 t2 hb, bf < 2^64 -> prev <= t1 <= t2 < 2^64 ->
       work_needed bf t2 prev hb <= work_needed bf t1 prev hb.
   Refuted: for elapsed time 0 the function returns the "impossible" sentinel
   10^19, which is *below* what it asks at elapsed time 1 once the parent's burn
   fee exceeds 10^19 (u64 goes to 1.8·10^19). *)
Theorem C08_work_antitone_refuted : exists bf prev t1 t2 hb,
  bf < two64 /\ prev <= t1 /\ t1 <= t2 /\ t2 < two64 /\ 0 < hb /\ 2 * hb < two64 /\
  work_needed bf t1 prev hb < work_needed bf t2 prev hb.
Proof. exact work_antitone_refuted. Qed.

(* …and it holds for every other input: Known_C08_sentinel bf prev t1 :=
   (t1 <= prev) && (10^19 < bf) *)
Theorem C08_work_antitone : forall bf prev t1 t2 hb,
  bf < two64 -> t2 < two64 -> prev <= t1 -> t1 <= t2 ->
  Known_C08_sentinel bf prev t1 = false ->
  work_needed bf t2 prev hb <= work_needed bf t1 prev hb.
Proof. exact work_antitone. Qed.

(* in particular strictly after the parent's timestamp, without exception *)
Theorem C08_work_antitone_after_parent : forall bf prev t1 t2 hb,
  bf < two64 -> t2 < two64 -> prev < t1 -> t1 <= t2 ->
  work_needed bf t2 prev hb <= work_needed bf t1 prev hb.
Proof. exact work_antitone_after_parent. Qed.

(* the same for the profile-aware function (any heartbeat, wrap-around included) *)
Theorem C08_work_r_antitone : forall dbg bf prev t1 t2 hb w1 w2,
  bf < two64 -> t2 < two64 -> prev <= t1 -> t1 <= t2 ->
  Known_C08_sentinel bf prev t1 = false ->
  work_needed_r dbg bf t1 prev hb = Ok w1 ->
  work_needed_r dbg bf t2 prev hb = Ok w2 ->
  w2 <= w1.
Proof. exact work_r_antitone. Qed.

(* the float pipeline itself: monotone in the burn fee, antitone in elapsed time,
   over the whole u64 domain (this is the Flocq proof) *)
Theorem C08_work_float_monotone : forall bf bf' el el',
  bf <= bf' -> bf' < two64 -> 1 <= el' -> el' <= el -> el < two64 ->
  work_float bf el <= work_float bf' el'.
Proof. exact work_float_mono. Qed.

Theorem C08_work_monotone_in_burnfee : forall bf bf' prev ts hb,
  bf <= bf' -> bf' < two64 -> ts < two64 ->
  work_needed bf ts prev hb <= work_needed bf' ts prev hb.
Proof. exact work_monotone_in_burnfee. Qed.

(* ================================================================== *)
(* 2. the gate and what counts as routing work                         *)

(* a block passes the gate only if its total work meets the requirement *)
Theorem C08_gate_sound : forall dbg tw bf ts prev hb,
  gate_passes dbg tw bf ts prev hb = Ok true ->
  exists needed, work_needed_r dbg bf ts prev hb = Ok needed /\ needed <= tw.
Proof. exact gate_sound. Qed.

Theorem C08_total_work_le_fees : forall creator tx, total_work creator tx <= t_fees tx.
Proof. exact total_work_le_fees. Qed.

Theorem C08_work_zero_if_not_to_creator : forall creator tx d,
  h_to (last (t_path tx) d) <> creator -> total_work creator tx = 0.
Proof. exact work_zero_if_not_to_creator. Qed.

Theorem C08_work_zero_if_broken : forall creator tx,
  contiguous (t_path tx) = false -> total_work creator tx = 0.
Proof. exact work_zero_if_broken. Qed.

(* work counts only for non-empty, contiguous paths that end at the creator,
   and then it is the fee halved once per hop after the first *)
Theorem C08_total_work_positive : forall creator tx d,
  0 < total_work creator tx ->
  t_path tx <> [] /\ h_to (last (t_path tx) d) = creator /\ contiguous (t_path tx) = true /\ 0 < t_fees tx.
Proof. exact total_work_positive. Qed.

Theorem C08_total_work_exact : forall creator tx d,
  t_path tx <> [] -> h_to (last (t_path tx) d) = creator -> contiguous (t_path tx) = true ->
  total_work creator tx = iter_halve (pred (length (t_path tx))) (t_fees tx).
Proof. exact total_work_exact. Qed.

(* validate_routing_path accepts exactly the contiguous paths without self-hops whose
   every hop signature verifies.  NOTE: generate_total_work does not look at hop
   signatures; cryptographic validity of the paths that count rests on
   Transaction::validate -> validate_routing_path, whose verdict Block::validate
   discards on the pinned tree (known finding forged-hop-work-accepted). *)
Theorem C08_validate_routing_path_sound : forall tx, validate_routing_path tx = true ->
  (forall h, In h (t_path tx) -> h_sig_ok h = true /\ h_from h <> h_to h)
  /\ contiguous (t_path tx) = true.
Proof. exact validate_routing_path_sound. Qed.

Theorem C08_validate_routing_path_complete : forall tx,
  (forall h, In h (t_path tx) -> h_sig_ok h = true /\ h_from h <> h_to h) ->
  contiguous (t_path tx) = true -> validate_routing_path tx = true.
Proof. exact validate_routing_path_complete. Qed.

(* ================================================================== *)
(* 3. the lottery and the payout                                       *)

(* the winner is the zero (graveyard) key, the sender of a path-less transaction,
   or the `to` of a hop of the path *)
Theorem C08_winner_in_path : forall dbg tx x k,
  winning_routing_node dbg tx x = Ok k ->
  k = 0
  \/ (t_path tx = [] /\ t_from0 tx = Some k)
  \/ (exists h, In h (t_path tx) /\ k = h_to h).
Proof. exact winner_in_path. Qed.

(* the unreachable! at the end of get_winning_routing_node is unreachable (both
   profiles, wrap-around included) and path[i] is never out of bounds *)
Theorem C08_winner_found : forall dbg tx x,
  winning_routing_node dbg tx x <> Panic P_UNREACHABLE
  /\ winning_routing_node dbg tx x <> Panic P_PATH_INDEX.
Proof. exact winner_found. Qed.

(* no panic at all when twice the fee fits u64 … *)
Theorem C08_winner_no_panic : forall dbg tx x, 2 * t_fees tx < two64 ->
  exists k, winning_routing_node dbg tx x = Ok k.
Proof. exact winner_no_panic. Qed.

(* … and beyond that the function does panic: `aggregate_routing_work +=` overflows
   (debug), or wraps to 0 and U256::div_mod divides by zero (release:
   fee 2^63+1 over 64 hops) *)
Definition two_hop_path : list hop := [mkHop 1 2 true; mkHop 2 3 true].
Definition long_path : list hop := repeat (mkHop 1 2 true) 64.
Theorem C08_winner_total_refuted :
  winning_routing_node true (mkRtx (Some 1) 18446744073709551615 two_hop_path) 5 = Panic P_AGG_OVERFLOW
  /\ winning_routing_node false (mkRtx (Some 1) 9223372036854775809 long_path) 5 = Panic P_DIV_ZERO.
Proof. split; vm_compute; reflexivity. Qed.

(* Block::find_winning_router: zero key, or an eligible party of a transaction of
   that block (for an ATR transaction: of the transaction it carries) *)
Theorem C08_router_eligible : forall dbg fees txs x x2 k,
  find_winning_router dbg fees txs x x2 = Ok k ->
  k = 0 \/ exists t tx, In t txs /\ routed_tx t = Some tx /\ eligible_tx k tx.
Proof. exact router_eligible. Qed.

Theorem C08_router_assert_unreachable : forall dbg fees txs x x2,
  find_winning_router dbg fees txs x x2 <> Panic P_ASSERT_CUM_FEES
  /\ find_winning_router dbg fees txs x x2 <> Panic P_UNREACHABLE.
Proof. exact router_assert_unreachable. Qed.

(* the fee transaction built by generate_consensus_values (payout step, given the
   router keys the lottery returned): every output goes to the golden-ticket
   solver, to the router found in the previous block, or — only when the previous
   block had no golden ticket — to the router found in the block before it; never
   to the zero key, never a zero amount *)
Theorem C08_payout_eligible : forall miner prev k a kind,
  In (k, a, kind) (po_slips (payout_with_gt miner prev)) ->
  k <> 0 /\ 0 < a /\ payout_payee miner prev k.
Proof. exact payout_eligible. Qed.

(* …and pays at most the fees of the previous block, plus the router half of the
   block before it when that one is paid too; nothing comes from the treasury *)
Theorem C08_payout_bounded : forall miner prev,
  slips_total (po_slips (payout_with_gt miner prev)) <= payout_bound prev.
Proof. exact payout_bounded. Qed.

(* the miner output of the fee transaction goes to the key of the golden ticket … *)
Theorem C08_payout_miner_is_ticket_key : forall miner prev k a,
  In (k, a, SLIP_MINER) (po_slips (payout_with_gt miner prev)) -> k = miner.
Proof. exact payout_miner_slip. Qed.

(* … and Block::validate lets a golden ticket through only if (random, key) re-targeted
   at the PARENT's hash solves at the parent's difficulty ([solution_lz] is computed
   against the real parent hash; the ticket's own target field is ignored) *)
Theorem C08_golden_ticket_solves_parent : forall solution_lz difficulty,
  difficulty < 4294967296 -> golden_ticket_solves solution_lz difficulty = true ->
  difficulty <= solution_lz.
Proof. exact golden_ticket_solves_sound. Qed.

(* the golden-ticket section of Block::validate as a whole: no unpaid carry-over, a
   non-zero ticket key (the miner share is paid to it), and the solution against the parent *)
Theorem C08_golden_ticket_section_sound : forall k u lz d,
  d < 4294967296 -> golden_ticket_section_ok k u lz d = true -> u = 0 /\ k <> 0 /\ d <= lz.
Proof. exact golden_ticket_section_sound. Qed.

(* ================================================================== *)
(* non-vacuity                                                         *)

(* values of the requirement on the curve (burn fee 0.5 SAITO, heartbeat 100) *)
Example C08_example_curve :
  work_needed 50000000 1001 1000 100 = 50000000 /\
  work_needed 50000000 1100 1000 100 = 500000 /\
  work_needed 50000000 1199 1000 100 = 251256 /\
  work_needed 50000000 1200 1000 100 = 0 /\
  work_needed 50000000 1000 1000 100 = SENTINEL /\
  work_needed u64_max 1001 1000 100 = u64_max /\
  burnfee_for_block 50000000 1050 1000 100 = 70710678.
Proof. vm_compute. repeat split; reflexivity. Qed.

(* a three-hop path A -> B -> C -> creator(4): fee 1001 halved twice (ceil) *)
Example C08_example_work :
  let tx := mkRtx (Some 1) 1001 [mkHop 1 2 true; mkHop 2 3 true; mkHop 3 4 true] in
  total_work 4 tx = 251 /\ total_work 3 tx = 0 /\ validate_routing_path tx = true /\
  total_work 4 (mkRtx (Some 1) 1001 [mkHop 1 2 true; mkHop 5 3 true; mkHop 3 4 true]) = 0 /\
  winning_routing_node false tx 1000 = Ok 2 /\
  winning_routing_node false tx 1001 = Ok 2 /\
  winning_routing_node false tx 1002 = Ok 3 /\
  winning_routing_node false tx 1750 = Ok 4 /\
  gate_passes true 251 25100 1100 1000 100 = Ok true /\
  gate_passes true 250 25100 1100 1000 100 = Ok false.
Proof. vm_compute. repeat split; reflexivity. Qed.

Example C08_example_payout :
  po_slips (payout_with_gt 7 (Some (mkPrev 1001 100000 false 3 (Some (501, 4)))))
  = [(7, 500, SLIP_MINER); (3, 501, SLIP_ROUTER); (4, 251, SLIP_ROUTER)]
  /\ po_slips (payout_with_gt 7 (Some (mkPrev 1001 200 true 0 None))) = [(7, 300, SLIP_MINER)].
Proof. vm_compute. split; reflexivity. Qed.

Print Assumptions C08_work_zero_after_two_heartbeats.
Print Assumptions C08_work_antitone.
Print Assumptions C08_work_float_monotone.
Print Assumptions C08_winner_found.
Print Assumptions C08_payout_bounded.
