(* C09 — Wire and disk formats round-trip and preserve identity.
   Only statements here; proofs are in proofs/CodecProofs.v.
   For every format X of model/Codec.v (mirroring the Rust encoders/decoders
   slice for slice):
     X_decode_encode : wf_X v = true -> decode_X (encode_X v) = Ok v
     X_size          : the length of the encoding (get_serialized_size where the code has one)
     X_canonical     : decode_X bs = Ok v -> encode_X v = bs        (where true of the code)
   wf_X is the boolean range predicate (integer widths, array lengths, counts
   that fit their wire width, enum tags in range).  bytes_ok bs says that bs is
   a byte string (every element < 256).  Hashes and signatures are computed
   over the decoded fields by the real code in the harness (c09): equal fields
   => equal hash / signature verdict. *)
From Saito Require Import Base Bytes BytesProofs Codec CodecProofs.

(* ---------------- Slip (59 bytes) ---------------- *)
Theorem C09_slip_decode_encode : forall s, wf_slip s = true -> decode_slip (encode_slip s) = Ok s.
Proof. exact slip_decode_encode. Qed.

Theorem C09_slip_size : forall s, wf_slip s = true -> Nlen (encode_slip s) = SLIP_SIZE.
Proof. exact slip_size. Qed.

Theorem C09_slip_canonical : forall bs s,
  bytes_ok bs = true -> decode_slip bs = Ok s -> encode_slip s = bs.
Proof. exact slip_canonical. Qed.

(* ---------------- Hop (130 bytes) ---------------- *)
Theorem C09_hop_decode_encode : forall h, wf_hop h = true -> decode_hop (encode_hop h) = Ok h.
Proof. exact hop_decode_encode. Qed.

Theorem C09_hop_size : forall h, wf_hop h = true -> Nlen (encode_hop h) = HOP_SIZE.
Proof. exact hop_size. Qed.

Theorem C09_hop_canonical : forall bs h, decode_hop bs = Ok h -> encode_hop h = bs.
Proof. exact hop_canonical. Qed.

(* ---------------- Transaction ---------------- *)
Theorem C09_tx_decode_encode : forall t, wf_tx t = true -> decode_tx (encode_tx t) = Ok t.
Proof. exact tx_decode_encode. Qed.

(* Transaction::get_serialized_size is the length of serialize_for_net *)
Theorem C09_tx_size : forall t, wf_tx t = true -> Nlen (encode_tx t) = size_tx t.
Proof. exact tx_size. Qed.

(* Full statement  [forall bs t, decode_tx bs = Ok t -> encode_tx t = bs]  is false
   of the code as written: the decoder ignores bytes after the last hop. *)
Theorem C09_tx_canonical_refuted :
  exists bs t, bytes_ok bs = true /\ decode_tx bs = Ok t /\ encode_tx t <> bs.
Proof. exact tx_canonical_refuted. Qed.

(* what holds: the decoder reads exactly the canonical encoding, as a prefix *)
Theorem C09_tx_canonical_prefix : forall bs t,
  bytes_ok bs = true -> decode_tx bs = Ok t -> slice 0 (size_tx t) bs = Some (encode_tx t).
Proof. exact tx_canonical_prefix. Qed.

Theorem C09_tx_canonical : forall bs t,
  bytes_ok bs = true -> decode_tx bs = Ok t -> Nlen bs = size_tx t -> encode_tx t = bs.
Proof. exact tx_canonical. Qed.

(* non-vacuity: a well-formed transaction with two inputs of distinct types,
   an output, a payload and a hop *)
Example C09_example_tx :
  let s1 := mkSlip (repeat 7 33) 18446744073709551615 1 2 255 9 in
  let s2 := mkSlip (repeat 8 33) 0 4294967296 3 0 0 in
  let t := mkTx 1700000000000 [s1; s2] [s2] [1; 2; 3] 8 4294967295 (repeat 9 64)
             [mkHop (repeat 1 33) (repeat 2 33) (repeat 3 64)] in
  wf_tx t = true /\ Nlen (encode_tx t) = 403 /\ decode_tx (encode_tx t) = Ok t.
Proof. vm_compute. repeat split; reflexivity. Qed.

Print Assumptions C09_slip_decode_encode.
Print Assumptions C09_slip_canonical.
Print Assumptions C09_hop_decode_encode.
Print Assumptions C09_tx_decode_encode.
Print Assumptions C09_tx_size.
Print Assumptions C09_tx_canonical_prefix.
