(* C09 — Wire and disk formats round-trip and preserve identity.
   Only statements here; proofs are in proofs/CodecProofs.v and CodecMsgProofs.v.
   For every format X of model/Codec.v (mirroring the Rust encoders/decoders
   slice for slice):
     X_decode_encode : wf_X v = true -> decode_X (encode_X v) = Ok v
     X_size          : the length of the encoding (get_serialized_size where the code has one)
     X_canonical     : decode_X bs = Ok v -> encode_X v = bs        (where true of the code;
                       X_canonical_refuted with a witness where the code as written is not canonical)
   wf_X is the boolean range predicate (integer widths, array lengths, counts
   that fit their wire width, enum tags in range, text without separators; a
   GoldenTicket-type transaction carries a 97-byte payload, which the decoder
   enforces since fix eeb4ec7).
   bytes_ok bs says that bs is a byte string (every element < 256).
   Hashes and signatures are computed over the decoded fields by the real code
   in the harness (c09): equal fields => equal hash / signature verdict. *)
From Saito Require Import Base Bytes BytesProofs Codec CodecProofs CodecMsgProofs CodecSigProofs TextCodec TextCodecProofs.

(* ---------------- Slip (59 bytes) ---------------- *)
Theorem C09_slip_decode_encode : forall s, wf_slip s = true -> decode_slip (encode_slip s) = Ok s.
Proof. exact slip_decode_encode. Qed.

Theorem C09_slip_size : forall s, wf_slip s = true -> Nlen (encode_slip s) = SLIP_SIZE.
Proof. exact slip_size. Qed.

Theorem C09_slip_canonical : forall bs s,
  bytes_ok bs = true -> decode_slip bs = Ok s -> encode_slip s = bs.
Proof. exact slip_canonical. Qed.

(* ---------------- Hop (130 bytes) ---------------- *)
Theorem C09_hop_decode_encode : forall h, wf_hop h = true -> decode_hop (encode_hop h) = Ok h.
Proof. exact hop_decode_encode. Qed.

Theorem C09_hop_size : forall h, wf_hop h = true -> Nlen (encode_hop h) = HOP_SIZE.
Proof. exact hop_size. Qed.

Theorem C09_hop_canonical : forall bs h, decode_hop bs = Ok h -> encode_hop h = bs.
Proof. exact hop_canonical. Qed.

(* ---------------- Transaction ---------------- *)
Theorem C09_tx_decode_encode : forall t, wf_tx t = true -> decode_tx (encode_tx t) = Ok t.
Proof. exact tx_decode_encode. Qed.

(* Transaction::get_serialized_size is the length of serialize_for_net *)
Theorem C09_tx_size : forall t, wf_tx t = true -> Nlen (encode_tx t) = size_tx t.
Proof. exact tx_size. Qed.

(* Full statement  [forall bs t, decode_tx bs = Ok t -> encode_tx t = bs]  is false
   of the code as written: the decoder ignores bytes after the last hop. *)
Theorem C09_tx_canonical_refuted :
  exists bs t, bytes_ok bs = true /\ decode_tx bs = Ok t /\ encode_tx t <> bs.
Proof. exact tx_canonical_refuted. Qed.

(* what holds: the decoder reads exactly the canonical encoding, as a prefix *)
Theorem C09_tx_canonical_prefix : forall bs t,
  bytes_ok bs = true -> decode_tx bs = Ok t -> slice 0 (size_tx t) bs = Some (encode_tx t).
Proof. exact tx_canonical_prefix. Qed.

Theorem C09_tx_canonical : forall bs t,
  bytes_ok bs = true -> decode_tx bs = Ok t -> Nlen bs = size_tx t -> encode_tx t = bs.
Proof. exact tx_canonical. Qed.

(* a transaction that was decoded from the wire is well formed, so forwarding it
   (re-encoding) and decoding again yields the same transaction: same signed
   bytes, hence same hash and signature verdict *)
Theorem C09_tx_decoded_wf : forall bs t,
  bytes_ok bs = true -> decode_tx bs = Ok t -> wf_tx t = true.
Proof. exact tx_decoded_wf. Qed.

Theorem C09_tx_wire_stable : forall bs t,
  bytes_ok bs = true -> decode_tx bs = Ok t -> decode_tx (encode_tx t) = Ok t.
Proof. exact tx_wire_stable. Qed.

(* ---------------- Block (all BlockType arguments of serialize_for_net) ---------------- *)
(* block_after_wire bt b: header-only serialisation drops the transactions; the
   decoder sets block_type to Header when there are none (unless id = 1 with a
   zero previous hash), else Full *)
Theorem C09_block_decode_encode : forall bt b,
  wf_block b = true -> decode_block (encode_block bt b) = Ok (block_after_wire bt b).
Proof. exact block_decode_encode. Qed.

Theorem C09_block_size : forall bt b, wf_block b = true -> Nlen (encode_block bt b) = size_block bt b.
Proof. exact block_size. Qed.

(* canonical re-encoding is false for blocks as written: avg_total_fees is
   serialised twice (offsets 213 and 245) and only the second copy is read;
   bytes after the declared transactions are ignored *)
Theorem C09_block_canonical_refuted :
  exists bs b, bytes_ok bs = true /\ decode_block bs = Ok b /\ encode_block BT_FULL b <> bs.
Proof. exact block_canonical_refuted. Qed.

(* ---------------- Message (every tag) ---------------- *)
Theorem C09_message_decode_encode : forall m,
  wf_message m = true -> decode_message (encode_message m) = Ok (message_after_wire m).
Proof. exact message_decode_encode. Qed.

Theorem C09_message_first_byte : forall m, exists p, encode_message m = message_type_value m :: p.
Proof. exact message_first_byte. Qed.

(* ---------------- Handshake ---------------- *)
Theorem C09_hs_challenge_decode_encode : forall c,
  arr_ok 32 c = true -> decode_hs_challenge (encode_hs_challenge c) = Ok c.
Proof. exact hs_challenge_decode_encode. Qed.

Theorem C09_hs_response_decode_encode : forall r,
  wf_hs_response r = true -> decode_hs_response (encode_hs_response r) = Ok r.
Proof. exact hs_response_decode_encode. Qed.

Theorem C09_hs_response_size : forall r, wf_hs_response r = true ->
  Nlen (encode_hs_response r) = 142 + Nlen (hr_url r) + Nlen (encode_services (hr_services r)).
Proof. exact hs_response_size. Qed.

(* ---------------- Version, PeerService list ---------------- *)
Theorem C09_version_decode_encode : forall v,
  wf_version v = true -> decode_version (encode_version v) = Ok v.
Proof. exact version_decode_encode. Qed.

Theorem C09_version_canonical_refuted :
  exists bs v, bytes_ok bs = true /\ decode_version bs = Ok v /\ encode_version v <> bs.
Proof. exact version_canonical_refuted. Qed.

Theorem C09_services_decode_encode : forall l,
  wf_services l = true -> decode_services (encode_services l) = Ok l.
Proof. exact services_decode_encode. Qed.

(* empty segments between ';' are skipped by the decoder *)
Theorem C09_services_canonical_refuted :
  exists bs l, bytes_ok bs = true /\ decode_services bs = Ok l /\ encode_services l <> bs.
Proof. exact services_canonical_refuted. Qed.

(* ---------------- BlockchainRequest, GhostChainSync, ApiMessage ---------------- *)
Theorem C09_bc_request_decode_encode : forall r,
  wf_bc_request r = true -> decode_bc_request (encode_bc_request r) = Ok r.
Proof. exact bc_request_decode_encode. Qed.

Theorem C09_bc_request_size : forall r, wf_bc_request r = true -> Nlen (encode_bc_request r) = 72.
Proof. exact bc_request_size. Qed.

Theorem C09_bc_request_canonical : forall bs r,
  bytes_ok bs = true -> decode_bc_request bs = Ok r -> encode_bc_request r = bs.
Proof. exact bc_request_canonical. Qed.

(* GhostChainSync::deserialize_checked (the entry point since fix 8fc45ed) and the
   inner unchecked deserialize *)
Theorem C09_ghost_decode_encode : forall g,
  wf_ghost g = true -> decode_ghost_checked (encode_ghost g) = Ok g.
Proof. exact ghost_checked_decode_encode. Qed.

Theorem C09_ghost_inner_decode_encode : forall g,
  wf_ghost g = true -> decode_ghost (encode_ghost g) = Ok g.
Proof. exact ghost_decode_encode. Qed.

Theorem C09_ghost_size : forall g,
  wf_ghost g = true -> Nlen (encode_ghost g) = 36 + 82 * Nlen (g_prehashes g).
Proof. exact ghost_size. Qed.

(* any non-zero byte decodes to true; trailing bytes are ignored *)
Theorem C09_ghost_canonical_refuted :
  exists bs g, bytes_ok bs = true /\ decode_ghost_checked bs = Ok g /\ encode_ghost g <> bs.
Proof. exact ghost_canonical_refuted. Qed.

Theorem C09_api_decode_encode : forall a, wf_api a = true -> decode_api (encode_api a) = Ok a.
Proof. exact api_decode_encode. Qed.

Theorem C09_api_size : forall a, Nlen (encode_api a) = 4 + Nlen (am_data a).
Proof. exact api_size. Qed.

Theorem C09_api_canonical : forall bs a,
  bytes_ok bs = true -> decode_api bs = Ok a -> encode_api a = bs.
Proof. exact api_canonical. Qed.

(* ---------------- GoldenTicket (97 bytes), Wallet disk format (65 bytes) ---------------- *)
Theorem C09_gt_decode_encode : forall g, wf_gt g = true -> decode_gt (encode_gt g) = Ok g.
Proof. exact gt_decode_encode. Qed.

Theorem C09_gt_size : forall g, wf_gt g = true -> Nlen (encode_gt g) = 97.
Proof. exact gt_size. Qed.

Theorem C09_gt_canonical : forall bs g, decode_gt bs = Ok g -> encode_gt g = bs.
Proof. exact gt_canonical. Qed.

Theorem C09_wallet_decode_encode : forall w,
  wf_wallet w = true -> decode_wallet (encode_wallet w) = Ok w.
Proof. exact wallet_decode_encode. Qed.

Theorem C09_wallet_size : forall w, wf_wallet w = true -> Nlen (encode_wallet w) = WALLET_SIZE.
Proof. exact wallet_size. Qed.

(* bytes after the 65th are ignored by deserialize_from_disk *)
Theorem C09_wallet_canonical_prefix : forall bs w,
  decode_wallet bs = Ok w -> slice 0 65 bs = Some (encode_wallet w).
Proof. exact wallet_canonical_prefix. Qed.

(* ---------------- UTXO-set key (Slip::get_utxoset_key / parse_slip_from_utxokey) ---------------- *)
Theorem C09_utxokey_decode_encode : forall s,
  wf_slip s = true -> decode_utxokey (encode_utxokey s) = Ok s.
Proof. exact utxokey_decode_encode. Qed.

Theorem C09_utxokey_size : forall s, wf_slip s = true -> Nlen (encode_utxokey s) = 59.
Proof. exact utxokey_size. Qed.

Theorem C09_utxokey_canonical : forall key s,
  bytes_ok key = true -> Nlen key = 59 -> decode_utxokey key = Ok s -> encode_utxokey s = key.
Proof. exact utxokey_canonical. Qed.

(* the key is a [u8;59]: the parser cannot panic on it *)
Theorem C09_utxokey_total : forall key site, Nlen key = 59 -> decode_utxokey key <> Panic site.
Proof. exact utxokey_total. Qed.

(* the key identifies the slip: owner, location, amount, type *)
Theorem C09_utxokey_injective : forall s1 s2,
  wf_slip s1 = true -> wf_slip s2 = true -> encode_utxokey s1 = encode_utxokey s2 -> s1 = s2.
Proof. exact utxokey_injective. Qed.

(* ---------------- the signed bytes (what hash and signature cover) ---------------- *)
(* Slip::serialize_input_for_signature = serialize_output_for_signature (43 bytes):
   owner, amount, slip index, type -- and nothing else *)
Theorem C09_sig_slip_injective : forall s1 s2,
  wf_slip s1 = true -> wf_slip s2 = true ->
  sig_bytes_slip s1 = sig_bytes_slip s2 -> slip_signed_view s1 = slip_signed_view s2.
Proof. exact sig_slip_injective. Qed.

(* NOT covered: block id and transaction ordinal, i.e. WHICH output an input
   spends (listed finding input-location-unsigned, C06; replayed-signature-other-output, C01):
   two slips with different UTXO keys and the same signed bytes *)
Theorem C09_sig_slip_location_not_covered :
  exists s1 s2, wf_slip s1 = true /\ wf_slip s2 = true /\ s1 <> s2
    /\ s_block_id s1 <> s_block_id s2 /\ s_tx_ordinal s1 <> s_tx_ordinal s2
    /\ sig_bytes_slip s1 = sig_bytes_slip s2 /\ encode_utxokey s1 <> encode_utxokey s2.
Proof. exact sig_slip_location_not_covered. Qed.

(* Transaction::serialize_for_signature: given the numbers of inputs and outputs
   the signed bytes determine timestamp, the signed view of every input and output
   in order, replacement count, type and payload *)
Theorem C09_sig_tx_injective : forall t1 t2,
  wf_tx t1 = true -> wf_tx t2 = true ->
  Nlen (t_from t1) = Nlen (t_from t2) -> Nlen (t_to t1) = Nlen (t_to t2) ->
  sig_bytes_tx t1 = sig_bytes_tx t2 ->
  t_ts t1 = t_ts t2
  /\ map slip_signed_view (t_from t1) = map slip_signed_view (t_from t2)
  /\ map slip_signed_view (t_to t1) = map slip_signed_view (t_to t2)
  /\ t_repl t1 = t_repl t2 /\ t_type t1 = t_type t2 /\ t_data t1 = t_data t2.
Proof. exact sig_tx_injective. Qed.

(* what the signed bytes determine WITHOUT knowing the split: the timestamp always;
   given the total number of slips, the signed view of the sequence from ++ to,
   the replacement count, the type and the payload *)
Theorem C09_sig_tx_ts_determined : forall t1 t2,
  wf_tx t1 = true -> wf_tx t2 = true -> sig_bytes_tx t1 = sig_bytes_tx t2 -> t_ts t1 = t_ts t2.
Proof. exact sig_tx_ts_determined. Qed.

Theorem C09_sig_tx_injective_total : forall t1 t2,
  wf_tx t1 = true -> wf_tx t2 = true ->
  Nlen (t_from t1) + Nlen (t_to t1) = Nlen (t_from t2) + Nlen (t_to t2) ->
  sig_bytes_tx t1 = sig_bytes_tx t2 ->
  t_ts t1 = t_ts t2
  /\ map slip_signed_view (t_from t1 ++ t_to t1) = map slip_signed_view (t_from t2 ++ t_to t2)
  /\ t_repl t1 = t_repl t2 /\ t_type t1 = t_type t2 /\ t_data t1 = t_data t2.
Proof. exact sig_tx_injective_total. Qed.

(* full statement  [sig_bytes_tx t1 = sig_bytes_tx t2 -> (from, to) agree on their signed
   views]  is false: from=[a], to=[b;c] and from=[a;b'], to=[c] have the same signed
   bytes (same hash_for_signature, same signature), different fee *)
Theorem C09_sig_tx_resplit_refuted :
  exists t1 t2, wf_tx t1 = true /\ wf_tx t2 = true /\ sig_bytes_tx t1 = sig_bytes_tx t2
    /\ t_from t1 <> t_from t2 /\ t_to t1 <> t_to t2 /\ encode_tx t1 <> encode_tx t2
    /\ map slip_signed_view (t_from t1 ++ t_to t1) = map slip_signed_view (t_from t2 ++ t_to t2).
Proof. exact sig_tx_resplit_refuted. Qed.

(* nor is the total determined: slip bytes can be read as (replacements, type, payload) *)
Theorem C09_sig_tx_data_boundary_not_covered :
  exists t1 t2, wf_tx t1 = true /\ wf_tx t2 = true
    /\ sig_bytes_tx t1 = sig_bytes_tx t2
    /\ Nlen (t_from t1) + Nlen (t_to t1) <> Nlen (t_from t2) + Nlen (t_to t2)
    /\ t_data t1 <> t_data t2.
Proof. exact sig_tx_data_boundary_not_covered. Qed.

Theorem C09_sig_tx_size : forall t, wf_tx t = true ->
  Nlen (sig_bytes_tx t) = 16 + SIG_SLIP_SIZE * (Nlen (t_from t) + Nlen (t_to t)) + Nlen (t_data t).
Proof. exact sig_tx_size. Qed.

(* NOT covered by the signed bytes of a transaction (besides signature and path):
   the location of its inputs ... *)
Theorem C09_sig_tx_location_not_covered :
  exists t1 t2, wf_tx t1 = true /\ wf_tx t2 = true /\ encode_tx t1 <> encode_tx t2
    /\ sig_bytes_tx t1 = sig_bytes_tx t2
    /\ map s_block_id (t_from t1) <> map s_block_id (t_from t2).
Proof. exact sig_tx_location_not_covered. Qed.

(* ... and the boundary between inputs and outputs (no counts are written): the
   hypothesis on the counts in C09_sig_tx_injective cannot be dropped *)
Theorem C09_sig_tx_boundary_not_covered :
  exists t1 t2, wf_tx t1 = true /\ wf_tx t2 = true
    /\ sig_bytes_tx t1 = sig_bytes_tx t2
    /\ Nlen (t_from t1) <> Nlen (t_from t2) /\ Nlen (t_to t1) <> Nlen (t_to t2).
Proof. exact sig_tx_boundary_not_covered. Qed.

(* the wire encodings bind every field *)
Theorem C09_tx_wire_injective : forall t1 t2,
  wf_tx t1 = true -> wf_tx t2 = true -> encode_tx t1 = encode_tx t2 -> t1 = t2.
Proof. exact tx_wire_injective. Qed.

(* identity across the wire: same signed bytes, hence same hash_for_signature /
   pre_hash / hash and the same signature verdict, for any hash function *)
Theorem C09_tx_signed_bytes_preserved : forall t d,
  wf_tx t = true -> decode_tx (encode_tx t) = Ok d -> sig_bytes_tx d = sig_bytes_tx t.
Proof. exact tx_signed_bytes_preserved. Qed.

Theorem C09_block_signed_bytes_preserved : forall bt b d,
  wf_block b = true -> decode_block (encode_block bt b) = Ok d ->
  sig_bytes_block d = sig_bytes_block b /\ b_sig d = b_sig b /\ block_nums d = block_nums b.
Proof. exact block_signed_bytes_preserved. Qed.

(* lite blocks (Block::generate_lite_block copies the header, replaces the
   transactions; sent as serialize_for_net(Full)): the receiver sees the full
   block's header figures, creator and signature, and -- when the merkle root over
   the placeholders is the full block's (property C18) -- its signed bytes *)
Theorem C09_lite_block_wire : forall b txs m d,
  wf_block b = true -> forallb wf_tx txs = true -> Nlen txs <? two32 = true -> arr_ok 32 m = true ->
  decode_block (encode_block BT_FULL (lite_block_of b txs m)) = Ok d ->
  block_nums d = block_nums b /\ b_sig d = b_sig b /\ b_creator d = b_creator b /\ b_prev d = b_prev b
  /\ b_merkle d = m /\ (m = b_merkle b -> sig_bytes_block d = sig_bytes_block b).
Proof. exact lite_block_wire. Qed.

(* ---------------- balance snapshot text format (util/balance_snapshot.rs) ---------------- *)
(* decimal integers as printed by to_string / {:?} and read by str::parse *)
Theorem C09_decimal_round_trip : forall bound x,
  x < bound -> bound <= two64 -> dec_parse bound (dec_enc x) = Some x.
Proof. exact dec_parse_enc. Qed.

Theorem C09_hex_round_trip : forall l, bytes_ok l = true -> hex_dec (hex_enc l) = Some l.
Proof. exact hex_dec_enc. Qed.

(* a row "<base58 key> <block id> <tx ordinal> <slip index> <amount>" (the base58
   column is an opaque text without blanks) *)
Theorem C09_snapshot_row_round_trip : forall r,
  wf_snap_row r = true -> parse_row (print_row r) = Some r.
Proof. exact snapshot_row_round_trip. Qed.

(* the file name "<timestamp>-<latest block id>-<hex(latest block hash)>.snap" *)
Theorem C09_snapshot_name_round_trip : forall ts id hash,
  ts < two64 -> id < two64 -> arr_ok 32 hash = true ->
  parse_snap_name (print_snap_name ts id hash) = Some (ts, id, hash).
Proof. exact snapshot_name_round_trip. Qed.

(* ---------------- non-vacuity ---------------- *)
(* a well-formed transaction with two inputs of distinct types, an output, a
   payload and a hop; a block carrying it, through every BlockType; a message *)
Example C09_example :
  let s1 := mkSlip (repeat 7 33) 18446744073709551615 1 2 255 9 in
  let s2 := mkSlip (repeat 8 33) 0 4294967296 3 0 0 in
  let t := mkTx 1700000000000 [s1; s2] [s2] [1; 2; 3] 8 4294967295 (repeat 9 64)
             [mkHop (repeat 1 33) (repeat 2 33) (repeat 3 64)] in
  let b := mkBlock 5 6 (repeat 1 32) (repeat 2 33) (repeat 3 32) (repeat 4 64)
             7 8 9 10 11 12 13 14 15 16 17 18 19 20 21 22 23 24 25 26 27 28 29 30 31 [t; t] 3 in
  wf_tx t = true /\ Nlen (encode_tx t) = 403 /\ decode_tx (encode_tx t) = Ok t
  /\ wf_block b = true /\ Nlen (encode_block BT_FULL b) = 1195 /\ Nlen (encode_block BT_HEADER b) = 389
  /\ b_type (block_after_wire BT_HEADER b) = BT_HEADER /\ b_type (block_after_wire BT_PRUNED b) = BT_FULL
  /\ wf_message (MBlock b) = true
  /\ decode_message (encode_message (MBlock b)) = Ok (MBlock b).
Proof. vm_compute. repeat split; reflexivity. Qed.

Print Assumptions C09_slip_decode_encode.
Print Assumptions C09_tx_decode_encode.
Print Assumptions C09_tx_canonical_prefix.
Print Assumptions C09_block_decode_encode.
Print Assumptions C09_message_decode_encode.
Print Assumptions C09_hs_response_decode_encode.
Print Assumptions C09_ghost_decode_encode.
Print Assumptions C09_utxokey_injective.
Print Assumptions C09_sig_tx_injective.
Print Assumptions C09_lite_block_wire.
Print Assumptions C09_snapshot_row_round_trip.
Print Assumptions C09_snapshot_name_round_trip.
