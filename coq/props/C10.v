(* C10 — Decoders are total: malformed bytes are rejected, never crash.
   Only statements here; proofs are in proofs/CodecTotalProofs.v.
   decode_X returns Ok | Err | Panic site exactly as the Rust decoder behaves
   (a slice/index/assert without a preceding length check is a Panic).
   Full statement per decoder X:   forall bs site, decode_X bs <> Panic site.
   Where the pinned code violates it: X_total_refuted (concrete witness), and
   the positive theorem guarded by the specific class Known_C10_X. *)
From Saito Require Import Base Bytes BytesProofs Codec CodecProofs CodecTotalProofs.

(* ---------------- Slip, Hop: total ---------------- *)
Theorem C10_slip_total : forall bs site, decode_slip bs <> Panic site.
Proof. exact slip_total. Qed.

Theorem C10_hop_total : forall bs site, decode_hop bs <> Panic site.
Proof. exact hop_total. Qed.

(* ---------------- Transaction ---------------- *)
(* Known class: the 93-byte header is present and declares (inputs, outputs,
   message length, hops) more bytes than the buffer holds. *)
Definition Known_C10_tx (bs : list N) : Prop := known_c10_tx bs = true.

(* full statement  [forall bs site, decode_tx bs <> Panic site]  is false: *)
Theorem C10_tx_total_refuted : exists bs site, decode_tx bs = Panic site.
Proof. exact tx_total_refuted. Qed.

Theorem C10_tx_known_witness : exists bs site, Known_C10_tx bs /\ decode_tx bs = Panic site.
Proof.
  exists tx_panic_witness, 309. split; [exact tx_panic_witness_known|vm_compute; reflexivity].
Qed.

Theorem C10_tx_total : forall bs site, ~ Known_C10_tx bs -> decode_tx bs <> Panic site.
Proof.
  intros bs site K. apply tx_total_guarded. unfold Known_C10_tx in K.
  destruct (known_c10_tx bs); [contradiction|reflexivity].
Qed.

(* the loop fuel of the model is never what stops a run *)
Theorem C10_tx_fuel_ok : forall bs, decode_tx bs <> Panic 0.
Proof. exact tx_fuel_ok. Qed.

(* non-vacuity: inputs outside the class on which the decoder does run its loops *)
Example C10_example_tx_outside_known :
  let bs := [0; 0; 0; 1; 0; 0; 0; 0; 0; 0; 0; 2; 0; 0; 0; 0] ++ repeat 0 77 ++ repeat 1 58 ++ [99; 5; 6] in
  known_c10_tx bs = false /\ decode_tx bs = Err.
Proof. vm_compute. split; reflexivity. Qed.

Print Assumptions C10_slip_total.
Print Assumptions C10_hop_total.
Print Assumptions C10_tx_total.
Print Assumptions C10_tx_total_refuted.
