(* C10 — Decoders are total: malformed bytes are rejected, never crash.
   Only statements here; proofs are in proofs/CodecTotalProofs.v.
   decode_X returns Ok | Err | Panic site exactly as the Rust decoder behaves
   (a slice/index/assert without a preceding length check is a Panic).
   Full statement per decoder X:   forall bs site, decode_X bs <> Panic site.
   It holds unconditionally for every decoder reachable from peer bytes (the
   transaction, ghost-chain, api-message and golden-ticket defects of the pinned
   tree were repaired in /repo: 34b1724, 8fc45ed, 144e342, eeb4ec7, and the model
   follows the repaired code).  One finding remains: Wallet::deserialize_from_disk
   (X_total_refuted with a witness + the theorem guarded by Known_C10_wallet). *)
From Saito Require Import Base Bytes BytesProofs Codec CodecProofs CodecMsgProofs CodecTotalProofs.

(* ============ wire decoders: total ============ *)
Theorem C10_slip_total : forall bs site, decode_slip bs <> Panic site.
Proof. exact slip_total. Qed.

Theorem C10_hop_total : forall bs site, decode_hop bs <> Panic site.
Proof. exact hop_total. Qed.

(* Transaction::deserialize_from_net (declared-length guard, fix 34b1724) *)
Theorem C10_tx_total : forall bs site, decode_tx bs <> Panic site.
Proof. exact tx_total. Qed.

(* in particular the loop fuel of the model is never what stops a run *)
Theorem C10_tx_fuel_ok : forall bs, decode_tx bs <> Panic 0.
Proof. intro bs. apply tx_total. Qed.

(* the input that crashed the decoder before the fix is now rejected *)
Theorem C10_tx_former_witness_rejected : decode_tx tx_panic_witness = Err.
Proof. exact tx_former_witness_rejected. Qed.

(* Block::deserialize_from_net checks the declared extent of every transaction
   before slicing it *)
Theorem C10_block_total : forall bs site, decode_block bs <> Panic site.
Proof. exact block_total. Qed.

Theorem C10_version_total : forall bs site, decode_version bs <> Panic site.
Proof. exact version_total. Qed.

Theorem C10_services_total : forall bs site, decode_services bs <> Panic site.
Proof. exact services_total. Qed.

Theorem C10_hs_challenge_total : forall bs site, decode_hs_challenge bs <> Panic site.
Proof. exact hs_challenge_total. Qed.

Theorem C10_hs_response_total : forall bs site, decode_hs_response bs <> Panic site.
Proof. exact hs_response_total. Qed.

Theorem C10_bc_request_total : forall bs site, decode_bc_request bs <> Panic site.
Proof. exact bc_request_total. Qed.

(* GhostChainSync::deserialize_checked (fix 8fc45ed), the entry point used by Message *)
Theorem C10_ghost_total : forall bs site, decode_ghost_checked bs <> Panic site.
Proof. exact ghost_checked_total. Qed.

Theorem C10_ghost_former_witnesses_rejected :
  decode_ghost_checked [1; 2; 3] = Err
  /\ decode_ghost_checked (repeat 0 32 ++ [255; 255; 255; 255]) = Err.
Proof. exact ghost_former_witnesses_rejected. Qed.

(* ApiMessage::deserialize (a Result since fix 144e342) *)
Theorem C10_api_total : forall bs site, decode_api bs <> Panic site.
Proof. exact api_total. Qed.

Theorem C10_api_guarded_total : forall bs site, decode_api_guarded bs <> Panic site.
Proof. exact api_guarded_total. Qed.

(* Message::deserialize: everything a peer can send, every tag and payload *)
Theorem C10_message_total : forall bs site, decode_message bs <> Panic site.
Proof. exact message_total. Qed.

Theorem C10_message_former_witnesses_rejected :
  decode_message (4 :: tx_panic_witness) = Err /\ decode_message [10; 1; 2; 3] = Err.
Proof. exact message_former_witnesses_rejected. Qed.

(* a strict prefix of a valid block encoding is rejected with Err (torn write) *)
Theorem C10_block_prefix_rejected : forall bt b k,
  wf_block b = true -> (k < length (encode_block bt b))%nat ->
  decode_block (firstn k (encode_block bt b)) = Err.
Proof. exact block_prefix_rejected. Qed.

(* ============ GoldenTicket ============ *)
(* GoldenTicket::deserialize_from_net keeps assert_eq!(len, 97) as an internal
   invariant.  Since fix eeb4ec7 no byte string from a peer or from disk reaches
   it with another length: the payload of every decoded GoldenTicket-type
   transaction has 97 bytes. *)
Theorem C10_gt_precondition : forall bs site, Nlen bs = 97 -> decode_gt bs <> Panic site.
Proof. exact gt_precondition. Qed.

Theorem C10_gt_panic_iff : forall bs, (exists site, decode_gt bs = Panic site) <-> Nlen bs <> 97.
Proof. exact gt_panic_iff. Qed.

Theorem C10_tx_golden_ticket_payload : forall bs t,
  decode_tx bs = Ok t -> t_type t = TT_GOLDEN_TICKET -> Nlen (t_data t) = 97.
Proof. exact tx_golden_ticket_payload. Qed.

(* transaction decoder followed by the golden ticket decoder on its payload, as
   the mempool and block validation do: total on every byte string *)
Theorem C10_tx_and_ticket_total : forall bs site, decode_tx_and_ticket bs <> Panic site.
Proof. exact tx_and_ticket_total. Qed.

(* the same for every transaction of a decoded block *)
Theorem C10_block_golden_tickets_ok : forall bs b t site,
  decode_block bs = Ok b -> In t (b_txs b) -> t_type t = TT_GOLDEN_TICKET ->
  decode_gt (t_data t) <> Panic site.
Proof. exact block_golden_tickets_ok. Qed.

(* ============ Wallet::deserialize_from_disk: the remaining finding ============ *)
Definition Known_C10_wallet (bs : list N) : Prop := known_c10_wallet bs = true.   (* fewer than 65 bytes *)

(* full statement  [forall bs site, decode_wallet bs <> Panic site]  is false: *)
Theorem C10_wallet_total_refuted : exists bs site, decode_wallet bs = Panic site.
Proof. exact wallet_total_refuted. Qed.

Theorem C10_wallet_total : forall bs site, ~ Known_C10_wallet bs -> decode_wallet bs <> Panic site.
Proof.
  intros bs site K. apply wallet_total_guarded. unfold Known_C10_wallet in K.
  destruct (known_c10_wallet bs); [contradiction|reflexivity].
Qed.

(* the class is exact *)
Theorem C10_wallet_panic_iff : forall bs,
  (exists site, decode_wallet bs = Panic site) <-> Known_C10_wallet bs.
Proof. exact wallet_panic_iff. Qed.

(* ============ size of what is built vs. length of the input ============ *)
(* No decoder reserves capacity from a wire count (there is no with_capacity /
   reserve / vec![x; n] in any decoder): every element pushed was first sliced
   from the buffer at an advancing offset.  Consequently the wire size of the
   decoded value never exceeds the input length (the in-memory size is at most a
   constant factor more; the harness measures it with a counting allocator). *)
Theorem C10_tx_alloc : forall bs t,
  bytes_ok bs = true -> decode_tx bs = Ok t -> size_tx t <= Nlen bs.
Proof. exact tx_decoded_size. Qed.

Theorem C10_block_alloc : forall bs b,
  bytes_ok bs = true -> decode_block bs = Ok b -> size_block BT_FULL b <= Nlen bs.
Proof. exact block_decoded_size. Qed.

Theorem C10_ghost_alloc : forall bs g, decode_ghost_checked bs = Ok g ->
  36 + 82 * Nlen (g_prehashes g) <= Nlen bs
  /\ Nlen (g_prev_hashes g) = Nlen (g_prehashes g) /\ Nlen (g_block_ids g) = Nlen (g_prehashes g)
  /\ Nlen (g_block_ts g) = Nlen (g_prehashes g) /\ Nlen (g_txs g) = Nlen (g_prehashes g)
  /\ Nlen (g_gts g) = Nlen (g_prehashes g).
Proof. intros bs g H. apply ghost_decoded_size. now apply ghost_checked_ok_inner. Qed.

(* non-vacuity: inputs on which the decoders do run their loops / reach the new guards *)
Example C10_example :
  let bs := [0; 0; 0; 1; 0; 0; 0; 0; 0; 0; 0; 2; 0; 0; 0; 0] ++ repeat 0 77 ++ repeat 1 58 ++ [99; 5; 6] in
  decode_tx bs = Err /\ decode_message (4 :: bs) = Err
  /\ class_of (decode_message (10 :: repeat 0 36)) = 0
  /\ class_of (decode_tx (repeat 0 92 ++ [2])) = 1                       (* golden ticket type, empty payload *)
  /\ class_of (decode_tx_and_ticket ([0;0;0;0; 0;0;0;0; 0;0;0;97; 0;0;0;0] ++ repeat 0 76 ++ [2] ++ repeat 7 97)) = 0.
Proof. vm_compute. repeat split; reflexivity. Qed.

Print Assumptions C10_tx_total.
Print Assumptions C10_block_total.
Print Assumptions C10_block_prefix_rejected.
Print Assumptions C10_ghost_total.
Print Assumptions C10_message_total.
Print Assumptions C10_tx_and_ticket_total.
Print Assumptions C10_block_golden_tickets_ok.
