(* C10 — Decoders are total: malformed bytes are rejected, never crash.
   Only statements here; proofs are in proofs/CodecTotalProofs.v.
   decode_X returns Ok | Err | Panic site exactly as the Rust decoder behaves
   (a slice/index/assert without a preceding length check is a Panic).
   Full statement per decoder X:   forall bs site, decode_X bs <> Panic site.
   Where the pinned code violates it: X_total_refuted (concrete witness), and
   the positive theorem guarded by the specific decidable class Known_C10_X
   (known_c10_X in model/Codec.v). *)
From Saito Require Import Base Bytes BytesProofs Codec CodecProofs CodecMsgProofs CodecTotalProofs.

(* ============ decoders that are total on the pinned code ============ *)
Theorem C10_slip_total : forall bs site, decode_slip bs <> Panic site.
Proof. exact slip_total. Qed.

Theorem C10_hop_total : forall bs site, decode_hop bs <> Panic site.
Proof. exact hop_total. Qed.

(* Block::deserialize_from_net checks the declared extent of every transaction
   before slicing it, so the inner transaction decoder only sees exact buffers *)
Theorem C10_block_total : forall bs site, decode_block bs <> Panic site.
Proof. exact block_total. Qed.

Theorem C10_version_total : forall bs site, decode_version bs <> Panic site.
Proof. exact version_total. Qed.

Theorem C10_services_total : forall bs site, decode_services bs <> Panic site.
Proof. exact services_total. Qed.

Theorem C10_hs_challenge_total : forall bs site, decode_hs_challenge bs <> Panic site.
Proof. exact hs_challenge_total. Qed.

Theorem C10_hs_response_total : forall bs site, decode_hs_response bs <> Panic site.
Proof. exact hs_response_total. Qed.

Theorem C10_bc_request_total : forall bs site, decode_bc_request bs <> Panic site.
Proof. exact bc_request_total. Qed.

(* a strict prefix of a valid block encoding is rejected with Err (torn write) *)
Theorem C10_block_prefix_rejected : forall bt b k,
  wf_block b = true -> (k < length (encode_block bt b))%nat ->
  decode_block (firstn k (encode_block bt b)) = Err.
Proof. exact block_prefix_rejected. Qed.

(* ============ Transaction ============ *)
(* Known class: the 93-byte header is present and declares (inputs, outputs,
   message length, hops) more bytes than the buffer holds. *)
Definition Known_C10_tx (bs : list N) : Prop := known_c10_tx bs = true.

(* full statement  [forall bs site, decode_tx bs <> Panic site]  is false: *)
Theorem C10_tx_total_refuted : exists bs site, decode_tx bs = Panic site.
Proof. exact tx_total_refuted. Qed.

Theorem C10_tx_known_witness : exists bs site, Known_C10_tx bs /\ decode_tx bs = Panic site.
Proof.
  exists tx_panic_witness, 309. split; [exact tx_panic_witness_known|vm_compute; reflexivity].
Qed.

Theorem C10_tx_total : forall bs site, ~ Known_C10_tx bs -> decode_tx bs <> Panic site.
Proof.
  intros bs site K. apply tx_total_guarded. unfold Known_C10_tx in K.
  destruct (known_c10_tx bs); [contradiction|reflexivity].
Qed.

(* the loop fuel of the model is never what stops a run *)
Theorem C10_tx_fuel_ok : forall bs, decode_tx bs <> Panic 0.
Proof. exact tx_fuel_ok. Qed.

(* ============ GhostChainSync ============ *)
(* Known class: shorter than 36 + 82 * count (count = u32 at offset 32), in
   particular every buffer shorter than 36 bytes *)
Definition Known_C10_ghost (bs : list N) : Prop := known_c10_ghost bs = true.

Theorem C10_ghost_total_refuted : exists bs site, decode_ghost bs = Panic site.
Proof. exact ghost_total_refuted. Qed.

Theorem C10_ghost_total_refuted_count :
  exists site, decode_ghost (repeat 0 32 ++ [255; 255; 255; 255]) = Panic site.
Proof. exact ghost_total_refuted_count. Qed.

Theorem C10_ghost_total : forall bs site, ~ Known_C10_ghost bs -> decode_ghost bs <> Panic site.
Proof.
  intros bs site K. apply ghost_total_guarded. unfold Known_C10_ghost in K.
  destruct (known_c10_ghost bs); [contradiction|reflexivity].
Qed.

(* ============ ApiMessage ============ *)
Definition Known_C10_api (bs : list N) : Prop := known_c10_api bs = true.   (* fewer than 4 bytes *)

Theorem C10_api_total_refuted : exists bs site, decode_api bs = Panic site.
Proof. exact api_total_refuted. Qed.

Theorem C10_api_total : forall bs site, ~ Known_C10_api bs -> decode_api bs <> Panic site.
Proof.
  intros bs site K. apply api_total_guarded. unfold Known_C10_api in K.
  destruct (known_c10_api bs); [contradiction|reflexivity].
Qed.

(* Message::deserialize guards its three ApiMessage call sites with len >= 4 *)
Theorem C10_api_guarded_total : forall bs site, decode_api_guarded bs <> Panic site.
Proof. exact api_guarded_total. Qed.

(* ============ GoldenTicket ============ *)
Definition Known_C10_gt (bs : list N) : Prop := known_c10_gt bs = true.     (* length <> 97 *)

Theorem C10_gt_total_refuted : exists bs site, decode_gt bs = Panic site.
Proof. exact gt_total_refuted. Qed.

Theorem C10_gt_total : forall bs site, ~ Known_C10_gt bs -> decode_gt bs <> Panic site.
Proof.
  intros bs site K. apply gt_total_guarded. unfold Known_C10_gt in K.
  destruct (known_c10_gt bs); [contradiction|reflexivity].
Qed.

(* the class is exact *)
Theorem C10_gt_panic_iff : forall bs, (exists site, decode_gt bs = Panic site) <-> Known_C10_gt bs.
Proof. exact gt_panic_iff. Qed.

(* ============ Wallet::deserialize_from_disk ============ *)
Definition Known_C10_wallet (bs : list N) : Prop := known_c10_wallet bs = true.   (* fewer than 65 bytes *)

Theorem C10_wallet_total_refuted : exists bs site, decode_wallet bs = Panic site.
Proof. exact wallet_total_refuted. Qed.

Theorem C10_wallet_total : forall bs site, ~ Known_C10_wallet bs -> decode_wallet bs <> Panic site.
Proof.
  intros bs site K. apply wallet_total_guarded. unfold Known_C10_wallet in K.
  destruct (known_c10_wallet bs); [contradiction|reflexivity].
Qed.

Theorem C10_wallet_panic_iff : forall bs,
  (exists site, decode_wallet bs = Panic site) <-> Known_C10_wallet bs.
Proof. exact wallet_panic_iff. Qed.

(* ============ Message::deserialize (everything a peer can send) ============ *)
(* Known class: tag 4 with a payload in Known_C10_tx, or tag 10 with a payload
   in Known_C10_ghost; every other tag and payload is handled without panic *)
Definition Known_C10_message (bs : list N) : Prop := known_c10_message bs = true.

Theorem C10_message_total_refuted : exists bs site, decode_message bs = Panic site.
Proof. exact message_total_refuted. Qed.

Theorem C10_message_total_refuted_tx : exists site, decode_message (4 :: tx_panic_witness) = Panic site.
Proof. exact message_total_refuted_tx. Qed.

Theorem C10_message_total : forall bs site, ~ Known_C10_message bs -> decode_message bs <> Panic site.
Proof.
  intros bs site K. apply message_total_guarded. unfold Known_C10_message in K.
  destruct (known_c10_message bs); [contradiction|reflexivity].
Qed.

(* ============ size of what is built vs. length of the input ============ *)
(* No decoder reserves capacity from a wire count (there is no with_capacity /
   reserve / vec![x; n] in any decoder): every element pushed was first sliced
   from the buffer at an advancing offset.  Consequently the wire size of the
   decoded value never exceeds the input length (the in-memory size is at most a
   constant factor more; the harness measures it with a counting allocator). *)
Theorem C10_tx_alloc : forall bs t,
  bytes_ok bs = true -> decode_tx bs = Ok t -> size_tx t <= Nlen bs.
Proof. exact tx_decoded_size. Qed.

Theorem C10_block_alloc : forall bs b,
  bytes_ok bs = true -> decode_block bs = Ok b -> size_block BT_FULL b <= Nlen bs.
Proof. exact block_decoded_size. Qed.

Theorem C10_ghost_alloc : forall bs g, decode_ghost bs = Ok g ->
  36 + 82 * Nlen (g_prehashes g) <= Nlen bs
  /\ Nlen (g_prev_hashes g) = Nlen (g_prehashes g) /\ Nlen (g_block_ids g) = Nlen (g_prehashes g)
  /\ Nlen (g_block_ts g) = Nlen (g_prehashes g) /\ Nlen (g_txs g) = Nlen (g_prehashes g)
  /\ Nlen (g_gts g) = Nlen (g_prehashes g).
Proof. exact ghost_decoded_size. Qed.

(* non-vacuity: inputs outside the classes on which the decoders do run their loops *)
Example C10_example_outside_known :
  let bs := [0; 0; 0; 1; 0; 0; 0; 0; 0; 0; 0; 2; 0; 0; 0; 0] ++ repeat 0 77 ++ repeat 1 58 ++ [99; 5; 6] in
  known_c10_tx bs = false /\ decode_tx bs = Err
  /\ known_c10_message (4 :: bs) = false /\ decode_message (4 :: bs) = Err
  /\ known_c10_message (10 :: repeat 0 36) = false
  /\ class_of (decode_message (10 :: repeat 0 36)) = 0.
Proof. vm_compute. repeat split; reflexivity. Qed.

Print Assumptions C10_block_total.
Print Assumptions C10_block_prefix_rejected.
Print Assumptions C10_tx_total.
Print Assumptions C10_ghost_total.
Print Assumptions C10_message_total.
Print Assumptions C10_hs_response_total.
