(* C11 -- No sequence of peer inputs crashes or stalls the node.   (PARTIAL, see registry/C11.json)
   Only statements here; proofs are in proofs/HandlersProofs.v and proofs/PanicClassProofs.v.

   Full statement: whatever decodable messages, fetched block buffers and connection events remote peers
   deliver, in whatever order, before or after the handshake, the event handlers return; the worst outcome for
   the sender is rejection, rate limiting or disconnection; state used by honest peers is unaffected by
   rejected input.

   The pinned code VIOLATED this in many places (each reproduced on the real handlers by harness/src/bin/c11.rs;
   see the `fixed: property=C11` lines of known_findings.txt); the message-level crash inputs were repaired by
   commits 6f9c6f9 (Block tag), d1384db (ghost-chain request without key), 3bd37ad (request id u64::MAX),
   d479d43 (key list beyond the quota), ae2aeaa (handshake response under another key), eeb4ec7 (golden-ticket
   payload), and the model follows the repaired code.  What is proved:
   (1) over the regenerated inventory of panic sites of the peer-facing code (gen/PanicSites.v) every site is
       classified by the reviewed table model/PanicClass.v -- a new or renamed site fails this obligation;
   (2) over the message-level model of the routing thread's dispatch (model/Handlers.v): no sequence of inputs
       panics, and a message touches no entry but its sender's.
   Chain / ledger / pool processing of accepted-for-processing blocks and transactions is delegated (model answers
   Ok there; two listed findings live there: the crash after an orphan block, and ghost chains on lite nodes);
   tokio scheduling and channel back-pressure are not modelled. *)
From Saito Require Import Base Handlers HandlersProofs PanicClass PanicSites PanicClassProofs.
From Coq Require Import String.
Open Scope N_scope.

(* (1) every unwrap / expect / assert / unreachable / panic / todo / unimplemented / index / slice site of the
   non-test functions of routing_thread.rs, verification_thread.rs, consensus_thread.rs, io/network.rs,
   mempool.rs, peers/*.rs and the decoders they call has a reviewed classification:
   Unreachable (guard / lemma cited), LocalOnly, or Known finding *)
Theorem C11_classified : forall s, In s PanicSites.sites -> classified s.
Proof. exact classified_all. Qed.

(* the panics of the handler model are sites of that inventory, classified as listed findings
   (at this commit the model raises none: Handlers.model_sites = []) *)
Theorem C11_model_sites_listed : forall s, In s Handlers.model_sites ->
  In s PanicSites.sites /\ exists id, classify s = Some (Known id).
Proof. exact model_sites_listed. Qed.

(* (2) the witnesses that existed on the pinned tree (Block-tagged message, ghost-chain request without key, the key
   list exceeding the quota) are gone with the repairs 6f9c6f9 / d1384db / 3bd37ad / d479d43; the model follows
   the repaired code *)
Example C11_former_witnesses_return :
  exists st, run (init true false true)
    ([(0, 2, EConn); (0, 2, ENet (Some MBlock)); (0, 2, ENet (Some (MGhostReq true)))]
     ++ repeat (5, 2, ENet (Some (MKeyList 1))) 101) = Done st.
Proof. eexists. vm_compute. reflexivity. Qed.

(* two further witnesses existed on the pinned tree and are gone with the repairs the model follows:
   a verified GoldenTicket-typed transaction with a payload that is not 97 bytes (assert in
   GoldenTicket::deserialize_from_net at pool intake; since fix eeb4ec7 such a transaction does not decode), and a
   valid handshake response under ANOTHER key on an entry that has a key (assert_eq! in
   Peer::handle_handshake_response, C17's assert-key-changed-panic; since fix ae2aeaa it is rejected and the sender
   disconnected) *)
Example C11_key_change_is_rejected :
  exists st', run (init false false true)
    [(0, 2, EConn); (1, 2, ENet (Some (MResponse true true 3))); (2, 2, ENet (Some MChallenge));
     (3, 2, ENet (Some (MResponse true true 13)))] = Done st'
  /\ snd (step (fst (step (fst (step (fst (step (init false false true) 0 2 EConn)) 1 2 (ENet (Some (MResponse true true 3))))) 2 2 (ENet (Some MChallenge)))) 3 2 (ENet (Some (MResponse true true 13)))) = ODisconnect.
Proof. eexists. split; vm_compute; reflexivity. Qed.

(* positive theorem: a sequence none of whose inputs is a listed crash input (Block tag; ghost-chain request from
   an entry without key, or with id u64::MAX in a build with overflow checks; the key list that exceeds the
   quota) never panics -- every other tag, undecodable buffers, unknown
   connections, any order, any time stamps, before or after the handshake *)
Theorem C11_dispatch_safe : forall st msgs,
  ~ Known_C11 st msgs -> forall site st', run st msgs <> Panic site st'.
Proof. intros st msgs. exact (dispatch_safe msgs st). Qed.

(* ... and since nothing is listed any more, unconditionally *)
Theorem C11_dispatch_never_panics : forall st msgs site st', run st msgs <> Panic site st'.
Proof. intros st msgs. exact (never_panics msgs st). Qed.

(* frame: whatever a connection delivers (any outcome, including the panicking ones), the entries of all other
   connections are untouched ... *)
Theorem C11_frame : forall st now idx e st' o,
  step st now idx e = (st', o) -> is_tick e = false -> honest_view idx st' = honest_view idx st.
Proof. exact step_view. Qed.

(* ... and when the input is rejected or the sender disconnected, the sender's own identity (key, key list) is
   unchanged as well: only its limiter counters, stored challenge and disconnect time may move *)
Theorem C11_reject_preserves_honest : forall st now idx e st' o,
  step st now idx e = (st', o) -> o = OReject \/ o = ODisconnect ->
  honest_view idx st' = honest_view idx st /\ identity_of idx st' = identity_of idx st.
Proof. exact reject_preserves. Qed.

(* non-vacuity: a hostile sequence outside the listed class -- handshake, every harmless tag, undecodable
   buffer (disconnect), unknown connection (reject), a flood that trips the handshake limiter, a block fetch
   answered with garbage, a timer tick -- runs to the end, and it is not in the listed class *)
Definition example_msgs : list input :=
  [(0, 2, EConn); (1, 2, ENet (Some (MResponse true true 3))); (2, 2, ENet (Some (MKeyList 5)));
   (3, 2, ENet (Some (MGhostReq false))); (4, 2, ENet (Some (MTx 2 97 true))); (5, 2, ENet (Some (MTx 1 8 true)));
   (6, 9, ENet (Some MBlock)); (7, 3, EConn); (8, 3, ENet None); (9, 2, ENet (Some MChainReq));
   (10, 2, ENet (Some MGhostChain)); (11, 2, EFetched FUndecodable); (12, 0, ETick 5000);
   (13, 2, ENet (Some (MResponse false true 3)))]
  ++ repeat (14, 4, ENet (Some MChallenge)) 3.

Example C11_example_runs : exists st, run (init true false true) example_msgs = Done st /\ Nlen (peers st) = 2.
Proof. eexists. split; vm_compute; reflexivity. Qed.

Example C11_example_not_known : ~ Known_C11 (init true false true) example_msgs.
Proof. rewrite known_any_spec. vm_compute. discriminate. Qed.

(* evidence printed into the build log: (sites, unreachable, local only, known), what would fail the table *)
Eval vm_compute in ("@@C11-PANIC-SITES", class_counts PanicSites.sites).
Eval vm_compute in ("@@C11-UNCLASSIFIED", unclassified PanicSites.sites, stale_entries PanicSites.sites,
                    miscounted_groups PanicSites.sites, PanicSites.problems).

Print Assumptions C11_classified.
Print Assumptions C11_model_sites_listed.
Print Assumptions C11_dispatch_safe.
Print Assumptions C11_dispatch_never_panics.
Print Assumptions C11_frame.
Print Assumptions C11_reject_preserves_honest.
