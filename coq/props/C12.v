(* C12 — Restart rebuilds the same ledger; a crash at any storage step is survivable.
   Only statements here; proofs are in proofs/StorageProofs.v (composition with proofs/Chain*.v).

   Model: model/Storage.v — block directory (sorted association list  file key -> Intact p | Torn),
   journal of Write p (NOT atomic) / Remove k (atomic), disk_after j n torn = the disk after a crash
   (first n operations complete, the next one in progress if torn), restart = ConsensusThread::on_init
   (names in sorted order, batches of 1000, load_blocks_from_disk stops the batch at the first
   undecodable file, add_blocks_from_mempool sorts each batch by id (stable) and calls add_block,
   every accepted block is written again, every file that is not the file of a stored block is
   deleted), composed with model/Chain.v (regime id <= 2 * genesis_period).

   FULL STATEMENT of the property (for the record; the parts that the code violates are refuted by
   witness below and on the real code by harness c12):
     for every history, every journal prefix n and torn flag t,  restart (disk_after j n t) = Ok st,
     Inv st, the tip of st is the pre-crash tip, an ancestor of it or a block known before the crash;
     and for n = |j|, t = false: the tip, spendable set and supply are those before shutdown.
   What is proved:  no panic + Inv + "tip = a valid block persisted before the crash" under the
   explicit side condition that the replay order is orphan-free (C12_restart_after_crash); the side
   condition is proved for the order the code uses on parent-closed one-batch disks on which no replayed
   block is rejected (C12_restart_orphan_free), and refuted when a replayed block is rejected
   (C12_restart_orphan_refuted) or a batch is aborted (C12_batch_abort_gap_refuted) - both land in the
   listed finding orphan-branch;  "same tip after a clean shutdown" is proved when arrival order =
   replay order (C12_restart_same_state_sorted, C12_restart_same_tip_linear: exactly the state after
   the last completely written block) and refuted in general (C12_restart_equal_fork_refuted,
   C12_restart_shorter_chain_refuted). *)
From Saito Require Import Bytes BytesProofs Codec CodecProofs CodecMsgProofs CodecTotalProofs.
From Saito Require Import Base Chain Storage ChainBasics ChainInv ChainWind ChainAdd ChainProofs ChainCheck StorageProofs.

(* ---------------- what a crash can leave on disk ---------------- *)
(* every file that decodes on a crashed disk holds, intact and under its own name, a block whose
   write was COMPLETE before the crash: torn writes never yield a decodable file, removes only remove *)
Theorem C12_crash_closed : forall j n t k p,
  aget k (disk_after j n t) = Some (Intact p) -> k = fkey p /\ In (Write p) (firstn n j).
Proof. exact crash_closed. Qed.

(* byte level: the Intact / Torn abstraction is sound for any codec that round-trips (C09) and
   rejects every strict prefix of a serialised block (hypothesis torn_rejected; C10 side: harness c12
   offers every torn file to the real Block::deserialize_from_net) *)
Theorem C12_abs_apply_bop : forall (enc : pblk -> list N) (dec : list N -> option pblk),
  (forall p, dec (enc p) = Some p) ->
  (forall p m, (m < length (enc p))%nat -> dec (firstn m (enc p)) = None) ->
  forall d o, abs_disk dec (apply_bop enc d o) = abs_op enc o (abs_disk dec d).
Proof. exact abs_apply_bop. Qed.

(* the codec fact behind [Torn], for the real wire format (model/Codec.v, proved by C10 as
   C10_block_prefix_rejected): every strict prefix of the serialisation that write_block_to_disk hands to
   write_value is rejected by Block::deserialize_from_net - with Err, not with a panic *)
Theorem C12_torn_block_file_rejected : forall b k,
  Codec.wf_block b = true -> (k < length (Codec.encode_block Codec.BT_FULL b))%nat ->
  Codec.decode_block (firstn k (Codec.encode_block Codec.BT_FULL b)) = Err.
Proof. exact (block_prefix_rejected Codec.BT_FULL). Qed.

Theorem C12_decodable_was_written : forall (enc : pblk -> list N) (dec : list N -> option pblk),
  (forall p, dec (enc p) = Some p) ->
  (forall p m, (m < length (enc p))%nat -> dec (firstn m (enc p)) = None) ->
  forall ops k bs p,
    aget k (fold_left (apply_bop enc) ops []) = Some bs -> dec bs = Some p ->
    k = fkey p /\ exists m, In (BWrite p m) ops /\ (length (enc p) <= m)%nat.
Proof. exact decodable_was_written. Qed.

(* ---------------- restart never panics, result satisfies the chain invariant ---------------- *)
Theorem C12_restart_safe : forall c U, univ_ok c U -> valid_wf U ->
  forall bsz d,
    orphan_free c U (init c) (map p_b (load_order bsz d)) ->
    exists st j d', restart c bsz d = Ok (st, j, d') /\ Inv c U st.
Proof. exact restart_safe. Qed.

(* after a crash at ANY point of ANY journal: no panic, Inv, and the tip is the empty chain or a VALID
   block whose file had been written completely before the crash *)
Theorem C12_restart_after_crash : forall c U, univ_ok c U -> valid_wf U ->
  forall j n t bsz, 1 <= 2 * gp_of c ->
    orphan_free c U (init c) (map p_b (load_order bsz (disk_after j n t))) ->
    exists st j' d' h, restart c bsz (disk_after j n t) = Ok (st, j', d') /\ Inv c U st
      /\ latest_hash st = Ok h
      /\ (h = 0 \/ exists p, In (Write p) (firstn n j) /\ b_hash (p_b p) = h /\ b_valid (p_b p) = true).
Proof. exact restart_after_crash. Qed.

Theorem C12_restart_tip_known : forall c U, univ_ok c U -> valid_wf U ->
  forall bsz d, 1 <= 2 * gp_of c -> asorted d ->
    orphan_free c U (init c) (map p_b (load_order bsz d)) ->
    exists st j d' h, restart c bsz d = Ok (st, j, d') /\ Inv c U st /\ latest_hash st = Ok h
      /\ (h = 0 \/ exists p k, aget k d = Some (Intact p) /\ b_hash (p_b p) = h /\ b_valid (p_b p) = true).
Proof. exact restart_tip_known. Qed.

(* ---------------- the side condition, for the order the code uses ---------------- *)
(* one batch: a parent whose file is on disk and decodes is replayed before its child (names carry the
   timestamp; timestamps grow along parent links, ids by one: ts_monotone) *)
Theorem C12_load_order_parents_first : forall bsz d,
  asorted d -> named d -> ts_monotone d -> (length d <= bsz)%nat ->
  forall l1 p l2, load_order bsz d = l1 ++ p :: l2 ->
  forall q kq, aget kq d = Some (Intact q) -> b_prev (p_b p) = b_hash (p_b q) -> In q l1.
Proof. exact load_order_parents_first. Qed.

(* hence: on a parent-closed disk with one root, on which no replayed block is answered invalid/retry
   (accepts), the replay order is orphan-free - the side condition of C12_restart_safe holds *)
Theorem C12_restart_orphan_free : forall c U bsz d, univ_ok c U -> valid_wf U ->
  asorted d -> named d -> ts_monotone d -> (length d <= bsz)%nat ->
  (forall k p, aget k d = Some (Intact p) -> In (p_b p) U) ->
  (forall k p, aget k d = Some (Intact p) ->
     is_root U (p_b p) \/ exists kq q, aget kq d = Some (Intact q) /\ b_prev (p_b p) = b_hash (p_b q)) ->
  (forall k p k' p', aget k d = Some (Intact p) -> aget k' d = Some (Intact p') ->
     is_root U (p_b p) -> is_root U (p_b p') -> k = k') ->
  accepts c (init c) (map p_b (load_order bsz d)) ->
  orphan_free c U (init c) (map p_b (load_order bsz d)).
Proof. exact restart_orphan_free. Qed.

(* REFUTED without "accepts": statement that fails =
     forall orphan-free histories, orphan_free (replay order of the clean disk).
   Block 8 (invalid, stored unvalidated as an off-chain sibling, smaller timestamp) is replayed before
   its sibling 2, is now the candidate tip, fails validation and is dropped; its child 9 is replayed
   without a stored parent (listed finding orphan-branch; reproduced on the real code: harness c12,
   finding restart-replays-block-without-parent) *)
Theorem C12_restart_orphan_refuted :
  history_check wc (map p_b wit_rej_W) (hashes_p wit_rej_W) = true
  /\ hashes_p (load_order BATCH (disk_after (map Write wit_rej_W) 5 false)) = [1; 8; 2; 9; 3]
  /\ orphan_free_b wc (map p_b wit_rej_W) (init wc)
       (map p_b (load_order BATCH (disk_after (map Write wit_rej_W) 5 false))) = false.
Proof. exact wit_rej_ok. Qed.

(* REFUTED for more than one batch: an undecodable file aborts only its own batch, later batches are
   still replayed (witness with batch size 2 in place of 1000; chain 1..5, file of 2 torn): 3, 4, 5 are
   replayed without 2, the node ends on the disconnected chain 3-4-5, block 1 is off the longest chain
   and the torn file is deleted; with a single batch only block 1 is replayed.  Reproduced on the real
   code with 1004 files (harness c12, finding undecodable-file-aborts-only-its-batch) *)
Theorem C12_batch_abort_gap_refuted :
  hashes_p (load_order 2 (disk_after wit_gap_j 5 true)) = [1; 3; 4; 5]
  /\ orphan_free_b wc (map p_b wit_gap_W) (init wc) (map p_b (load_order 2 (disk_after wit_gap_j 5 true))) = false
  /\ (exists st j d', restart wc 2 (disk_after wit_gap_j 5 true) = Ok (st, j, d')
        /\ latest_hash st = Ok 5 /\ latest_id st = Ok 5
        /\ option_map s_lc (get_block st 1) = Some false /\ get_block st 2 = None
        /\ lc_hash_at wc (ring st) 1 = None /\ lc_hash_at wc (ring st) 2 = None /\ lc_hash_at wc (ring st) 3 = Some 3
        /\ flat_map op_row j = [1; 1; 1; 3; 1; 4; 1; 5; 0; 2]
        /\ map (fun e => key_hash (fst e)) d' = [1; 3; 4; 5])
  /\ hashes_p (load_order 5 (disk_after wit_gap_j 5 true)) = [1].
Proof. exact wit_gap_ok. Qed.

(* ---------------- same tip ---------------- *)
(* arrival order = replay order (names and ids both increasing along the list of persisted blocks):
   after a crash with n complete writes (the next one torn or not started) the restarted node is in
   EXACTLY the state the node had after the delivery of the n-th persisted block; n = |W|: clean
   shutdown, same tip / spendable set / index *)
Theorem C12_restart_same_state_sorted : forall c bsz W n t st,
  key_sorted W -> id_sorted W -> (length W <= bsz)%nat ->
  deliver c (init c) (map p_b (firstn n W)) = Ok st ->
  exists j d', restart c bsz (disk_after (map Write W) n t) = Ok (st, j, d').
Proof. exact restart_same_state_sorted. Qed.

Theorem C12_restart_same_tip_linear : forall c bsz W n t st,
  linear W -> (length W <= bsz)%nat ->
  deliver c (init c) (map p_b (firstn n W)) = Ok st ->
  exists j d', restart c bsz (disk_after (map Write W) n t) = Ok (st, j, d').
Proof. exact restart_same_tip_linear. Qed.

Theorem C12_load_order_sorted_history : forall bsz W n t,
  key_sorted W -> id_sorted W -> (length W <= bsz)%nat ->
  load_order bsz (disk_after (map Write W) n t) = firstn n W.
Proof. exact load_order_sorted_history. Qed.

(* REFUTED in general.  Full statement that fails:
     forall orphan-free history W, tip (restart (disk_after (map Write W) |W| false)) = tip (deliver W).
   Two competing blocks at height 2; 3 arrives first and has the larger timestamp: the node is on 3,
   the restarted node on 2 (replay in file-name order) *)
Theorem C12_restart_equal_fork_refuted :
  history_check wc (map p_b wit_fork_W) (hashes_p wit_fork_W) = true
  /\ (exists st, deliver wc (init wc) (map p_b wit_fork_W) = Ok st /\ latest_hash st = Ok 3)
  /\ tip_of (restart wc BATCH (disk_after (map Write wit_fork_W) 3 false)) = Ok 2.
Proof. exact wit_fork_ok. Qed.

(* the same tie, later: the node extended its branch to height 4; restarted, it sits at height 2 on
   the other branch, whose single block has more burn fee than the three blocks of the longer chain *)
Theorem C12_restart_shorter_chain_refuted :
  history_check wc (map p_b wit_short_W) (hashes_p wit_short_W) = true
  /\ (exists st, deliver wc (init wc) (map p_b wit_short_W) = Ok st /\ latest_hash st = Ok 4 /\ latest_id st = Ok 4)
  /\ tip_of (restart wc BATCH (disk_after (map Write wit_short_W) 5 false)) = Ok 9
  /\ tip_id_of (restart wc BATCH (disk_after (map Write wit_short_W) 5 false)) = Ok 2.
Proof. exact wit_short_ok. Qed.

(* ---------------- non-vacuity ---------------- *)
(* a history with a fork, a reorganisation and a block on the abandoned branch meets the hypotheses
   of C12_restart_same_state_sorted; crash with the 5th file torn: tip 13; clean shutdown: tip 14 *)
Example C12_example_sorted : key_sorted ex_W /\ id_sorted ex_W.
Proof. exact ex_W_sorted. Qed.

Example C12_example_run :
  history_check wc (map p_b ex_W) (hashes_p ex_W) = true
  /\ (exists st, deliver wc (init wc) (map p_b (firstn 4 ex_W)) = Ok st /\ latest_hash st = Ok 13)
  /\ tip_of (restart wc BATCH (disk_after (map Write ex_W) 4 true)) = Ok 13
  /\ tip_of (restart wc BATCH (disk_after (map Write ex_W) 6 false)) = Ok 14.
Proof. exact ex_W_run. Qed.

Print Assumptions C12_crash_closed.
Print Assumptions C12_abs_apply_bop.
Print Assumptions C12_decodable_was_written.
Print Assumptions C12_torn_block_file_rejected.
Print Assumptions C12_restart_safe.
Print Assumptions C12_restart_after_crash.
Print Assumptions C12_restart_tip_known.
Print Assumptions C12_load_order_parents_first.
Print Assumptions C12_restart_orphan_free.
Print Assumptions C12_restart_orphan_refuted.
Print Assumptions C12_batch_abort_gap_refuted.
Print Assumptions C12_restart_same_state_sorted.
Print Assumptions C12_restart_same_tip_linear.
Print Assumptions C12_load_order_sorted_history.
Print Assumptions C12_restart_equal_fork_refuted.
Print Assumptions C12_restart_shorter_chain_refuted.
