(* C13 — Automatic rebroadcast preserves ownership at the retention-window edge.
   Only statements here; proofs are in proofs/AtrProofs.v (and CVProofs / SupplyProofs),
   witnesses in proofs/CVWitness.v.

   Model: the ATR section of model/CV.v + Transaction::create_rebroadcast_transaction +
   the rebroadcast-hash / slip-count / input validation and the ledger effects in
   model/Supply.v, code as of /repo 9007b23, tied to the real code by harness/src/bin/c13.rs.

   For the block [b] added on the tip of [st]:
     leaving st b               the still-unspent outputs of the block with id  id(b) - genesis_period - 1
                                (Slip::validate against the utxo set), each with its transaction
     mult_of / fee_of           multiplier 1 + treasury / (genesis_period * avg rebroadcast volume) and
                                fee = serialized size * average fee per byte, both from the parent header;
                                value * multiplier saturates at 2^64-1 (smul), and so does the sum of
                                the payouts (812712b)
     capped st b                the payouts the multiplier asks for exceed 5 % of the parent's treasury:
                                every rebroadcast output then gets value * (1 + limit / volume), no fee
   Since the repairs bb88717 / f640126 / 6b3137c / e1b5241 / 8712765 / 812712b "the original
   becomes unspendable", "an output older than the window can no longer be spent" and "nothing is
   rebroadcast twice" hold without extra conditions on the block (the witnesses of the old
   refutations are refused now, the chain no longer halts when the multiplier exceeds 1, the age
   test no longer overflows).  No open defect is known for 9007b23.  Outside the theorems (scope,
   Known.clean): blocks whose expiring block carries Bound (NFT) outputs and blocks carrying Bound
   slips / SPV transactions — the triple grouping is modelled and replayed by the harness
   (nft-rebroadcast cases), not proved. *)
From Saito Require Import Base CV Supply Known CVProofs LedgerProofs SupplyProofs AtrProofs CVWitness.

(* atr_exact: the rebroadcast transactions of an accepted block are, position by position, the
   expected ones — one per unspent output whose value*multiplier exceeds the fee — in everything
   the rebroadcast hash binds AND in their inputs; the header totals are the expected ones *)
Theorem C13_atr_exact : forall cap15 cap05 cf st b,
  validate_m cap15 cap05 cf MInf st b = Ok true ->
  Known_C02_nft_expiring cf st b = false ->
  Forall2 (fun e t => sig_eqb e t = true /\ t_from t = t_from e)
          (expected_rebroadcasts cap05 cf st b) (block_atrs (b_txs b))
  /\ h_fees_atr (b_hdr b) = expected_fees_atr cap05 cf st b
  /\ h_pay_atr (b_hdr b) = expected_pay_atr cap05 cf st b.
Proof. exact accepted_atr. Qed.

(* shape of an expected rebroadcast: input = the original slip as the ledger holds it; output for the
   same owner, type ATR, amount min(value*multiplier, 2^64-1) - fee ... *)
Theorem C13_rebroadcast_shape : forall orig mult fee s,
  t_ty (rebroadcast_of orig mult fee s) = TATR /\
  t_from (rebroadcast_of orig mult fee s) = [s] /\
  t_to (rebroadcast_of orig mult fee s) = [mkSlip (s_pk s) (smul (s_amt s) mult - fee) SATR 0 0 0].
Proof. exact rebroadcast_shape. Qed.
(* ... or value * (1 + limit/volume) with the fee waived when the 5 % cap applies *)
Theorem C13_capped_shape : forall orig adj s,
  t_ty (capped_rb orig adj s) = TATR /\
  t_from (capped_rb orig adj s) = [s] /\
  t_to (capped_rb orig adj s) = [mkSlip (s_pk s) (s_amt s * adj) SATR 0 0 0].
Proof. exact capped_shape. Qed.

(* dust_to_fees: an output too small to pay the fee is not rebroadcast and adds exactly its value
   to total_fees_atr (in both branches; second conjunct of C13_atr_exact gives the header total) *)
Theorem C13_dust_to_fees : forall orig mult fee s,
  is_rebroadcast mult fee s = false ->
  item_rbs orig mult fee s = [] /\ item_fee mult fee s = s_amt s /\ item_dust mult fee s = s_amt s /\
  smul (s_amt s) mult <= fee.
Proof. exact dust_shape. Qed.

(* per output: what reappears plus what is collected = value + treasury payout *)
Theorem C13_item_balance : forall orig mult fee s, 1 <= mult -> fit s = true ->
  sumN (map (fun t => sumN (map s_amt (t_to t))) (item_rbs orig mult fee s)) + item_fee mult fee s
  = s_amt s + item_pay mult fee s.
Proof. exact item_balance. Qed.

(* nothing_else: every rebroadcast transaction of an accepted block consumes exactly one unspent
   output that left the window, and is the expected transaction for it *)
Theorem C13_nothing_else : forall cap15 cap05 cf st b t,
  validate_m cap15 cap05 cf MInf st b = Ok true ->
  Known_C02_nft_expiring cf st b = false ->
  In t (b_txs b) -> t_ty t = TATR ->
  exists it, In it (leaving cf st b) /\ rebroadcast_p cf st b it = true /\
    t_from t = [snd it] /\ sig_eqb (expected_rebroadcast cap05 cf st b it) t = true.
Proof. exact nothing_else. Qed.

(* nothing_twice, within a block: the outputs examined are pairwise distinct *)
Theorem C13_nothing_twice : forall cf st b, Inv st -> NoDup (map snd (leaving cf st b)).
Proof. exact leaving_nodup. Qed.

(* original_unspendable: after the block, the original of every rebroadcast output is gone from
   the utxo set *)
Theorem C13_original_unspendable : forall cap15 cap05 cf st b it,
  Inv st -> located b ->
  validate_m cap15 cap05 cf MInf st b = Ok true ->
  clean cap05 cf st b = true ->
  In it (leaving cf st b) -> rebroadcast_p cf st b it = true -> 0 < s_amt (snd it) ->
  ~ In (snd it) (st_utxo (wind cf st b)).
Proof. exact original_unspendable. Qed.

(* nothing_twice, along the chain: an output rebroadcast by block b is never among the outputs
   examined by any later block *)
Theorem C13_nothing_twice_ever : forall cap15 cap05 cf st b it st' b' it',
  Inv st -> located b ->
  validate_m cap15 cap05 cf MInf st b = Ok true -> clean cap05 cf st b = true ->
  In it (leaving cf st b) -> rebroadcast_p cf st b it = true -> 0 < s_amt (snd it) ->
  Later cap15 cap05 cf (wind cf st b) st' ->
  In it' (leaving cf st' b') -> snd it' <> snd it.
Proof. exact nothing_twice_ever. Qed.

(* expired_unspendable: a user transaction of an accepted block spends no output older than the
   window: every value input satisfies block_id + genesis_period >= id of the new block *)
Theorem C13_expired_unspendable : forall cap15 cap05 cf st b t s,
  Inv st -> located b ->
  validate_m cap15 cap05 cf MInf st b = Ok true -> clean cap05 cf st b = true ->
  In t (b_txs b) -> user_tx t = true -> In s (t_from t) -> 0 < s_amt s ->
  h_id (b_hdr b) <= s_bid s + cf_gp cf.
Proof. exact expired_unspendable. Qed.

(* regressions: the collected 500 of key 2 can no longer be spent by block 6; with multiplier 2 the
   block the producer builds is accepted (5 % cap) and conserves the supply *)
Example C13_regression_collected_output_spent : refused cfw genesis [b2; b3; b4; b5] b6_stale.
Proof. exact stale_spend_refused. Qed.
Example C13_regression_age_test_saturates :
  validate c15 c05 cfw s2 b3_far = Ok false /\ validate c15 c05 cfr s2 b3_far = Ok false.
Proof. exact age_sum_saturates. Qed.
Example C13_regression_payout_multiplier :
  accepted_conserving cfw hg [hb2; hb3; hb4; hb5; hb6; hb7] hb8 /\
  atr_mult 3 (the_input cfw h7 hb8) = 2 /\
  match cv_inf c15 c05 cfw h7 hb8 with Ok c => c_cap c | _ => false end = true.
Proof. exact producer_block_accepted. Qed.

(* non-vacuity: block 5 of the example chain: four unspent outputs leave the window, two are
   rebroadcast (90_000 -> 49_720, 800_000 -> 759_720), two are collected (40_000, 500); block 8 of
   the second chain is under the cap: three outputs of 25_000 reappear unchanged, no fee *)
Example C13_example :
  map (fun it => s_amt (snd it)) (leaving cfw w4 b5) = [90000; 500; 40000; 800000] /\
  map (rebroadcast_p cfw w4 b5) (leaving cfw w4 b5) = [true; false; false; true] /\
  capped c05 cfw w4 b5 = false /\
  map (fun t => map s_amt (t_to t)) (block_atrs (b_txs b5)) = [[49720]; [759720]] /\
  validate_m c15 c05 cfw MInf w4 b5 = Ok true /\ clean c05 cfw w4 b5 = true.
Proof. repeat split; vm_compute; reflexivity. Qed.
Example C13_example_capped :
  capped c05 cfw h7 hb8 = true /\ capped_factor c05 cfw h7 hb8 = 1 /\
  map (fun t => (map s_amt (t_from t), map s_amt (t_to t))) (block_atrs (b_txs hb8))
    = [([25000], [25000]); ([25000], [25000]); ([25000], [25000])] /\
  h_fees_atr (b_hdr hb8) = 0.
Proof. repeat split; vm_compute; reflexivity. Qed.

Print Assumptions C13_atr_exact.
Print Assumptions C13_rebroadcast_shape.
Print Assumptions C13_capped_shape.
Print Assumptions C13_dust_to_fees.
Print Assumptions C13_item_balance.
Print Assumptions C13_nothing_else.
Print Assumptions C13_nothing_twice.
Print Assumptions C13_original_unspendable.
Print Assumptions C13_nothing_twice_ever.
Print Assumptions C13_expired_unspendable.
