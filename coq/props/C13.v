(* C13 — Automatic rebroadcast preserves ownership at the retention-window edge.
   Only statements here; proofs are in proofs/AtrProofs.v (and CVProofs / SupplyProofs),
   witnesses in proofs/CVWitness.v.

   Model: the ATR section of model/CV.v + Transaction::create_rebroadcast_transaction +
   the rebroadcast-hash / slip-count validation and the ledger effects in model/Supply.v,
   tied to the real code by harness/src/bin/c13.rs.

   For the block [b] added on the tip of [st]:
     leaving st b               the still-unspent outputs of the block with id  id(b) - genesis_period - 1
                                (Slip::validate against the utxo set), each with its transaction
     mult_of / fee_of           multiplier 1 + treasury / (genesis_period * avg rebroadcast volume) and
                                fee = serialized size * average fee per byte, both from the parent header
   The property at full strength adds "the original becomes unspendable" and "an output older
   than the window can no longer be spent".  The second is FALSE for the pinned code
   (C13_expired_unspendable_refuted), the first holds only while the rebroadcast names the
   original location (the block hash does not bind input locations:
   Known_C13_rebroadcast_input_substituted), and "handled by the next block" presupposes that
   a next block can exist, which is FALSE once the payout multiplier exceeds 1
   (C13_next_block_refuted).  All three were reproduced on the real node. *)
From Saito Require Import Base CV Supply Known CVProofs LedgerProofs SupplyProofs AtrProofs CVWitness.

(* atr_exact: the rebroadcast transactions of an accepted block are, in order and in everything
   the rebroadcast hash binds, exactly one transaction per unspent output whose
   value*multiplier exceeds the fee ... *)
Theorem C13_atr_exact : forall cap15 cap05 cf st b,
  validate_m cap15 cap05 cf MInf st b = Ok true ->
  Known_C02_nft_expiring cf st b = false ->
  Known_C02_cap_branch cap15 cap05 cf st b = false ->
  eqb_list sig_eqb (expected_rebroadcasts cf st b) (block_atrs (b_txs b)) = true
  /\ h_fees_atr (b_hdr b) = sumN (map (fun it => item_fee (mult_of cf st b) (fee_of cf st b it) (snd it)) (leaving cf st b))
  /\ h_pay_atr (b_hdr b) = sumN (map (fun it => item_pay (mult_of cf st b) (fee_of cf st b it) (snd it)) (leaving cf st b))
  /\ exists c, cv_inf cap15 cap05 cf st b = Ok c /\ c_rb_hash c = expected_rebroadcasts cf st b.
Proof. exact accepted_atr. Qed.

(* ... of this shape: same owner, type ATR, amount = value*multiplier - fee, input = the original
   slip carrying the paid-out amount *)
Theorem C13_rebroadcast_shape : forall orig mult fee s,
  is_rebroadcast mult fee s = true ->
  item_rbs orig mult fee s = [rebroadcast_of orig mult fee s] /\
  t_ty (rebroadcast_of orig mult fee s) = TATR /\
  t_from (rebroadcast_of orig mult fee s) = [set_amt s (s_amt s * mult)] /\
  t_to (rebroadcast_of orig mult fee s) = [mkSlip (s_pk s) (s_amt s * mult - fee) SATR 0 0 0].
Proof. exact rebroadcast_shape. Qed.

(* dust_to_fees: an output too small to pay the fee is not rebroadcast and adds exactly its value
   to total_fees_atr (second conjunct of C13_atr_exact gives the header total) *)
Theorem C13_dust_to_fees : forall orig mult fee s,
  is_rebroadcast mult fee s = false ->
  item_rbs orig mult fee s = [] /\ item_fee mult fee s = s_amt s /\ s_amt s * mult <= fee.
Proof. exact dust_shape. Qed.

(* per output: what reappears plus what is collected = value + treasury payout *)
Theorem C13_item_balance : forall orig mult fee s, 1 <= mult ->
  sumN (map (fun t => sumN (map s_amt (t_to t))) (item_rbs orig mult fee s)) + item_fee mult fee s
  = s_amt s + item_pay mult fee s.
Proof. exact item_balance. Qed.

(* nothing_else: every rebroadcast transaction of an accepted block belongs to an unspent output
   that left the window *)
Theorem C13_nothing_else : forall cap15 cap05 cf st b t,
  validate_m cap15 cap05 cf MInf st b = Ok true ->
  Known_C02_nft_expiring cf st b = false ->
  Known_C02_cap_branch cap15 cap05 cf st b = false ->
  In t (b_txs b) -> t_ty t = TATR ->
  exists it, In it (leaving cf st b) /\
    is_rebroadcast (mult_of cf st b) (fee_of cf st b it) (snd it) = true /\
    sig_eqb (rebroadcast_of (fst it) (mult_of cf st b) (fee_of cf st b it) (snd it)) t = true.
Proof. exact nothing_else. Qed.

(* nothing_twice: the outputs examined by one block are pairwise distinct (and a block is examined
   by one height only: id - genesis_period - 1 is injective in id) *)
Theorem C13_nothing_twice : forall cf st b, Inv st -> NoDup (map snd (leaving cf st b)).
Proof. exact leaving_nodup. Qed.

(* original_unspendable: after the block, the original of every rebroadcast output is gone from
   the utxo set — provided the rebroadcast names the original location *)
Theorem C13_original_unspendable : forall cap15 cap05 cf st b it,
  Inv st -> located b ->
  validate_m cap15 cap05 cf MInf st b = Ok true ->
  clean cap15 cap05 cf st b = true ->
  Known_C13_rebroadcast_input_substituted cap15 cap05 cf st b = false ->
  In it (leaving cf st b) ->
  is_rebroadcast (mult_of cf st b) (fee_of cf st b it) (snd it) = true -> 0 < s_amt (snd it) ->
  ~ In (snd it) (st_utxo (wind cf st b)).
Proof. exact original_unspendable. Qed.

(* expired_unspendable is false: the 500 of key 2 was collected as fees by block 5 (too small to
   rebroadcast); its entry stays in the utxo set and block 6 spends it: accepted, supply +500 *)
Theorem C13_expired_unspendable_refuted :
  breaks_conservation cfw genesis [b2; b3; b4; b5] b6_stale /\ Known_C13_expired_input cfw b6_stale = true.
Proof. exact stale_spend_breaks. Qed.

(* "handled by the next block" presupposes a next block: with treasury 50_000 >= 3 * 8_890 the
   multiplier is 2, the rebroadcast inputs carry value*2, no such utxo key exists, and the block the
   producer builds is refused by the validator *)
Theorem C13_next_block_refuted :
  run cfw (boot cfw hg) [hb2; hb3; hb4; hb5; hb6; hb7] = Some h7 /\
  (exists h txs, produce c15 c05 cfw h7 8000 true
                   [gtx 801 8000 2; pay 802 8000 [mkSlip 1 2700000 SNormal 7 0 0] [out 1 2650000]] BF (mkOracle 2 1 1)
                 = Ok (h, txs) /\ hb8 = mkBlock h txs BF (mkOracle 2 1 1) true true true true) /\
  validate c15 c05 cfw h7 hb8 = Ok false /\
  atr_mult 3 (the_input cfw h7 hb8) = 2.
Proof. exact producer_block_refused. Qed.

(* non-vacuity: block 5 of the example chain: four unspent outputs leave the window, two are
   rebroadcast (90_000 -> 49_720, 800_000 -> 759_720), two are collected (40_000, 500) *)
Example C13_example :
  map (fun it => s_amt (snd it)) (leaving cfw w4 b5) = [90000; 500; 40000; 800000] /\
  map (fun it => is_rebroadcast (mult_of cfw w4 b5) (fee_of cfw w4 b5 it) (snd it)) (leaving cfw w4 b5)
    = [true; false; false; true] /\
  map (fun t => map s_amt (t_to t)) (block_atrs (b_txs b5)) = [[49720]; [759720]] /\
  validate_m c15 c05 cfw MInf w4 b5 = Ok true /\ clean c15 c05 cfw w4 b5 = true /\
  Known_C13_rebroadcast_input_substituted c15 c05 cfw w4 b5 = false.
Proof. repeat split; vm_compute; reflexivity. Qed.

Print Assumptions C13_atr_exact.
Print Assumptions C13_rebroadcast_shape.
Print Assumptions C13_dust_to_fees.
Print Assumptions C13_item_balance.
Print Assumptions C13_nothing_else.
Print Assumptions C13_nothing_twice.
Print Assumptions C13_original_unspendable.
Print Assumptions C13_expired_unspendable_refuted.
Print Assumptions C13_next_block_refuted.
