(* C14 — The transaction pool stays consistent with the ledger; never loses or locks funds.
   Only statements here; proofs are in proofs/MempoolProofs.v; the model (Mempool.transactions,
   utxo_map, routing_work_in_mempool, golden_tickets and the functions of mempool.rs /
   blockchain.rs / block.rs that touch them) is model/Mempool.v.

   Quantification: every sequence [ops] of
     OAddTx        transaction arrival (valid, conflicting, duplicate, invalid, any inputs, any type),
     OAddGT        golden ticket arrival,
     OBundle       local bundle (any outcome of can_bundle_block's environment conditions, any
                   work requirement, staking transaction or none, anything Block::create adds),
     OBlockAdded   add_block_success with any block content and ANY ledger afterwards
                   (extension, off-chain block, reorganisation),
     OBlockFailed  add_block_failure of a peer's or the node's own block,
   from any genesis ledger [g].

   History.  On the originally pinned tree I1, I3, I4 and I5 were all violated (reservations
   were released by a successful bundle only; add_block_transactions_back re-inserted around
   the index and the cache; a failed Block::create left index and cache behind and lost the
   drained pool; after 1214e31 a successful bundle kept the reservations of a left-out
   transaction's other inputs).  The fixes 0fedb86, 2cf0b5a, cafb4ab, ff837ac, 1214e31,
   ffb4da9, df3ca14 repaired that; the model follows /repo HEAD (also f62222f, e0300b2, 9879695 of the
   producer side).  The histories that used to break the pool are Example
   C14_regression_examples / C14_example_left_out.

   Now: I1, I2 (utxoset lookup and age rule), I3, I5 and the auxiliary invariants hold after
   EVERY operation sequence.
   I4 holds for every bundle whose Block::create does not fail.  For an arbitrary pool state
   the statement carries one exception: a pooled transaction that spends an output which the
   produced block itself rebroadcasts is left out of the block and of the pool (1214e31; such
   a transaction can never validate again once the block is on the chain:
   C14_I4_left_out_is_doomed); on reachable pools the exception is empty (below).  A failing Block::create is not reachable with well-formed
   transactions (C14_I4_create_succeeds) and hands the pool back
   (C14_I4_failed_create_restores_pool); C14_failed_create is that decidable step class.

   The age rule of bb88717 (an input must satisfy block_id + genesis_period >= latest + 1) is
   explicit in the model ([age_ok], part of [tx_validate]).  It is applied at intake, when a
   failed own block returns its transactions, and -- since df3ca14, the repair of the finding
   aged-tx-stays-pooled -- by the revalidation after every block addition.  Hence "no pooled
   transaction has an input older than latest + 1 - genesis_period" is an invariant
   (C14_pool_age_invariant), the leaving-out set of Block::create is empty from the mempool
   path (C14_I4_no_leave_out_from_pool) and I4 holds without the exception on every reachable
   pool (C14_I4_bundle_atomic_reachable).  The history that used to break it is Example
   C14_aged_regression_example. *)
From Saito Require Import Base Mempool MempoolProofs.

Definition C14_failed_create := ev_failed_create.

(* ---------------- I1, I3, I5: after every operation sequence ---------------- *)

(* signatures are unique keys; every input of a pooled transaction is reserved;
   I1 no two pooled transactions spend the same value-carrying output;
   I5 the cached routing work is the (u64) sum over the pooled transactions *)
Theorem C14_base_invariants : forall g ops s,
  run (init g) ops = Ok s ->
  UniqueIds (pl s) /\ Reserved (pl s) /\ I1 (pl s) /\ I5 (pl s).
Proof. exact base_invariants. Qed.

Theorem C14_I1_no_double_spend_in_pool : forall g ops s,
  run (init g) ops = Ok s -> I1 (pl s).
Proof. exact no_double_spend_in_pool. Qed.

Theorem C14_I5_routing_work_cache : forall g ops s,
  run (init g) ops = Ok s -> I5 (pl s).
Proof. exact routing_work_cache. Qed.

Theorem C14_I5_exact_after_block : forall s l n b x,
  step s (OBlockAdded l n b) = Ok x -> I5 (pl (fst x)).
Proof. exact routing_work_exact_after_block. Qed.

(* ---------------- I2: pooled transactions stay valid against the ledger ---------------- *)

(* every value input of a pooled transaction is spendable: after every block addition /
   reorganisation, whatever the new ledger is *)
Theorem C14_I2_pooled_valid_after_block : forall s l n b x,
  step s (OBlockAdded l n b) = Ok x ->
  ledger (fst x) = mkC l n (c_gp (ledger s)) /\ I2 (ledger (fst x)) (pl (fst x)).
Proof. exact pooled_valid_after_block. Qed.

(* at all times, when arrivals are of the types whose validate() consults the utxoset
   (a BlockStake transaction with value inputs is validated by is_slip_unlocked instead) *)
Theorem C14_I2_pooled_valid_always : forall g ops s,
  Forall op_consults ops -> run (init g) ops = Ok s -> I2 (ledger s) (pl s).
Proof. exact pooled_valid_always. Qed.

(* ... and, after every block addition, satisfies the age rule of Transaction::validate *)
Theorem C14_I2_pooled_young_after_block : forall s l n b x,
  step s (OBlockAdded l n b) = Ok x ->
  forall t, In t (txs (pl (fst x))) -> t_type t <> TATR -> t_type t <> TIssuance ->
  age_ok (ledger (fst x)) t = true.
Proof. exact pooled_young_after_block. Qed.

(* the rule is applied to every arrival ... *)
Theorem C14_age_checked_at_intake : forall c p t p',
  add_transaction_if_validates c p t = Ok p' -> In t (txs p') -> ~ In t (txs p) ->
  age_ruled t = true -> age_ok c t = true.
Proof. exact age_checked_at_intake. Qed.

(* ... and no pooled transaction (of a type that validate() subjects to the rule) has an input
   older than latest + 1 - genesis_period, after every operation sequence *)
Theorem C14_pool_age_invariant : forall g ops s, run (init g) ops = Ok s -> AgeInv s.
Proof. exact pool_age_invariant. Qed.

(* ---------------- I3: no stale reservation; unspent outputs stay spendable ---------------- *)

(* every reservation belongs to a pooled transaction *)
Theorem C14_I3_no_stale_reservation : forall g ops s,
  run (init g) ops = Ok s -> I3 (pl s).
Proof. exact no_stale_reservation. Qed.

(* a block addition establishes I3 from any pool state whatsoever *)
Theorem C14_I3_no_stale_reservation_after_block : forall s l n b x,
  step s (OBlockAdded l n b) = Ok x -> I3 (pl (fst x)).
Proof. exact no_stale_reservation_after_block. Qed.

(* user-visible form: after every operation sequence an output that no pooled transaction
   names as an input is accepted when a fresh valid transaction spends it *)
Theorem C14_I3_unspent_always_spendable : forall g ops s t,
  run (init g) ops = Ok s ->
  tx_validate (ledger s) t = true -> t_type t <> TGoldenTicket -> producer_only t = false ->
  late_issuance (ledger s) t = false -> foreign_stake t = false ->
  has_tx (t_id t) (txs (pl s)) = false ->
  (forall k u, In k (vkeys t) -> In u (txs (pl s)) -> ~ In k (in_keys u)) ->
  exists p', add_transaction_if_validates (ledger s) (pl s) t = Ok p' /\ In t (txs p').
Proof. exact unspent_always_spendable. Qed.

(* ---------------- I4: bundling is atomic ---------------- *)

(* Every bundle, in any pool state, whose Block::create does not fail.
   None: the pool is untouched, except that a pooled golden ticket which does not solve the
   tip has been dropped (e0300b2).
   Some b: b has no double spend, the pool is emptied, the cache reset and no reservation
   left, and every pooled transaction is in b -- except those spending an output that b
   itself rebroadcasts. *)
Theorem C14_I4_bundle_atomic : forall l p ts bg env wn st ex p' r,
  bundle_block l p ts bg env wn st ex = Ok (p', r) ->
  create_fails l (drop_bad_gt p bg) env wn st ex = false ->
  match r with
  | None => p' = p \/ (ts = true /\ p' = drop_bad_gt p bg)
  | Some b => ts = true /\ txs p' = [] /\ work p' = 0 /\ dup_spend b = false /\
              (forall t, In t (txs p) ->
                 In t b \/ (exists k, In k (vkeys t) /\ In k (rebroadcast_keys ex))) /\
              umap p' = [] /\
              gts p' = gts (drop_bad_gt p bg)
  end.
Proof. exact bundle_atomic. Qed.

(* the exception is harmless for the ledger: a left-out transaction does not validate
   against any ledger from which the block's rebroadcast inputs are gone *)
Theorem C14_I4_left_out_is_doomed : forall rk t ledger',
  left_out rk t = true -> t_type t <> TFee ->
  (forall k, In k rk -> ~ In k (c_keys ledger')) -> valid_against ledger' t = false.
Proof. exact left_out_is_doomed. Qed.

(* the exception is empty for transactions that satisfy the age rule: [born k] = id of the
   block that created output k; the block after [latest] rebroadcasts outputs of block latest - gp, and a
   transaction whose value inputs satisfy the age rule spends none of them *)
Theorem C14_I4_no_leave_out_when_young : forall (born : N -> N) c ex l,
  (forall k, In k (rebroadcast_keys ex) -> born k + c_gp c < c_latest c + 1) ->
  (forall t, In t l -> t_type t <> TGoldenTicket ->
     forall k, In k (vkeys t) -> exists e, t_oldest t = Some e /\ e <= born k) ->
  (forall t, In t l -> t_type t <> TGoldenTicket -> age_ok c t = true) ->
  kept ex l = l.
Proof. exact no_leave_out_when_young. Qed.

(* hence, from the mempool path, nothing is left out: on every reachable pool, for the
   rebroadcasts of the block that follows the tip *)
Theorem C14_I4_no_leave_out_from_pool : forall (born : N -> N) g ops s ex,
  run (init g) ops = Ok s ->
  (forall k, In k (rebroadcast_keys ex) -> born k + c_gp (ledger s) < c_latest (ledger s) + 1) ->
  (forall t, In t (txs (pl s)) -> t_type t <> TGoldenTicket ->
     age_ruled t = true /\ forall k, In k (vkeys t) -> exists e, t_oldest t = Some e /\ e <= born k) ->
  kept ex (txs (pl s)) = txs (pl s).
Proof. exact no_leave_out_from_pool. Qed.

(* I4 without exception on reachable pools: the block contains every pooled transaction,
   the pool is emptied, no reservation and no cached work is left *)
Theorem C14_I4_bundle_atomic_reachable : forall (born : N -> N) g ops s ts bg env wn st ex p' b,
  run (init g) ops = Ok s ->
  bundle_block (ledger s) (pl s) ts bg env wn st ex = Ok (p', Some b) ->
  (forall k, In k (rebroadcast_keys ex) -> born k + c_gp (ledger s) < c_latest (ledger s) + 1) ->
  (forall t, In t (txs (pl s)) -> t_type t <> TGoldenTicket ->
     age_ruled t = true /\ forall k, In k (vkeys t) -> exists e, t_oldest t = Some e /\ e <= born k) ->
  txs p' = [] /\ umap p' = [] /\ work p' = 0 /\ dup_spend b = false /\
  forall t, In t (txs (pl s)) -> In t b.
Proof. exact bundle_atomic_reachable. Qed.

(* Block::create cannot fail on a reachable pool (Reserved, I1: C14_base_invariants; no
   GoldenTicket-typed transaction: it would have panicked) of transactions naming each input
   once (Transaction::validate since 0fedb86), when its rebroadcasts name each output once
   and its other additions spend nothing that the pool spends.  A clash between a pooled
   transaction and a rebroadcast no longer matters. *)
Theorem C14_I4_create_succeeds : forall l p env wn st ex,
  Reserved p -> I1 p ->
  (forall t, In t (txs p) -> NoDup (vkeys t) /\ t_type t <> TGoldenTicket) ->
  (forall s, st = Some s -> NoDup (vkeys s) /\ t_type s <> TGoldenTicket) ->
  NoDup (spent_keys ex) ->
  (forall k, In k (spent_keys ex) -> ~ In k (rebroadcast_keys ex) ->
     (forall t, In t (txs p) -> ~ In k (vkeys t)) /\ (forall s, st = Some s -> ~ In k (vkeys s))) ->
  create_fails l p env wn st ex = false.
Proof. exact create_succeeds. Qed.

(* should it fail all the same (model level: C14_I4_failed_create_witness), the kept
   transactions come back with a rebuilt index and a recomputed cache; "pool unchanged"
   then fails only by the staking transaction that bundle_block had added *)
Theorem C14_I4_failed_create_restores_pool : forall l p ts bg env wn st ex p' r,
  bundle_block l p ts bg env wn st ex = Ok (p', r) ->
  ts = true -> create_fails l (drop_bad_gt p bg) env wn st ex = true ->
  r = None /\ I3 p' /\ work p' = sum_work (txs p') /\
  (forall t, In t (txs p) -> In t (txs p') \/ left_out (rebroadcast_keys ex) t = true).
Proof. exact failed_create_restores_pool. Qed.

Theorem C14_I4_failed_create_witness :
  exists g ops s ex p',
    run (init g) ops = Ok s /\
    bundle_block (ledger s) (pl s) true None true 0 (Some wS) ex = Ok (p', None) /\
    C14_failed_create s (OBundle true None true 0 (Some wS) ex) = true /\
    map t_id (txs p') = [90; 15; 10] /\ p' <> pl s.
Proof. exact failed_create_witness. Qed.

(* ---------------- intake guards ---------------- *)

(* a staking transaction with an input of another key is never pooled (9879695) *)
Theorem C14_foreign_stake_refused : forall c p t,
  t_type t = TBlockStake -> t_own t = false -> add_transaction_if_validates c p t = Ok p.
Proof. exact foreign_stake_refused. Qed.

(* an issuance transaction is never pooled on a running chain (716c212) *)
Theorem C14_late_issuance_refused : forall c p t,
  t_type t = TIssuance -> c_latest c <> 0 -> add_transaction_if_validates c p t = Ok p.
Proof. exact late_issuance_refused. Qed.

(* ---------------- totality ---------------- *)

(* no operation sequence panics or errs, provided GoldenTicket-typed transactions go to
   add_golden_ticket (as the consensus thread routes them); otherwise the panic! in
   add_transaction is reachable *)
Theorem C14_no_panic : forall ops s, Forall op_no_gt ops -> exists s', run s ops = Ok s'.
Proof. exact no_panic. Qed.

Theorem C14_panic_only_gt : forall l p t site,
  add_transaction_if_validates l p t = Panic site ->
  t_type t = TGoldenTicket /\ site = SITE_GT_IN_TXPOOL.
Proof. exact panic_only_gt. Qed.

Theorem C14_panic_reachable : exists g t, step (init g) (OAddTx t) = Panic SITE_GT_IN_TXPOOL.
Proof. exact panic_reachable. Qed.

(* ---------------- non-vacuity, regression ---------------- *)

(* the histories that broke the pool before the fixes, each followed by a spend of the output
   that used to stay locked; and the window-edge clash, in which the unrelated transaction is
   now bundled (ids 90 = staking, 15 = unrelated, 30 = rebroadcast) *)
Example C14_regression_examples :
  (exists s, run (init wG) ops_readd = Ok s /\
             map t_id (txs (pl s)) = [10] /\ umap (pl s) = [1] /\ work (pl s) = 50) /\
  (exists s, run (init wG) ops_invalidated = Ok s /\
             map t_id (txs (pl s)) = [13] /\ umap (pl s) = [2]) /\
  (exists s, run (init wG) ops_confirmed_offchain = Ok s /\
             map t_id (txs (pl s)) = [11] /\ umap (pl s) = [1]) /\
  (exists s p' b, run (init wG) [OAddTx wA; OAddTx wE] = Ok s /\
             bundle_block (ledger s) (pl s) true None true 0 (Some wS) [wR] = Ok (p', Some b) /\
             map t_id b = [90; 15; 30] /\ umap p' = []).
Proof. exact regression_examples. Qed.

(* the leaving-out: transaction 10 (inputs 1 and 2) is neither in the block nor in the
   pool; no reservation is left (before ffb4da9 output 2 stayed reserved) *)
Example C14_example_left_out :
  exists s p' b, run (init wG) [OAddTx wA2; OAddTx wE] = Ok s /\
    bundle_block (ledger s) (pl s) true None true 0 (Some wS) [wR] = Ok (p', Some b) /\
    map t_id b = [90; 15; 30] /\ txs p' = [] /\ umap p' = [].
Proof. exact left_out_example. Qed.

(* regression (aged-tx-stays-pooled): two transactions pooled at tip 5 whose inputs are of block
   1 (window of 5); a peer block makes the tip 6: they are dropped with their reservations and
   their routing work (validate() refuses them from then on) *)
Example C14_aged_regression_example :
  exists s, run (init wG5) ops_aged = Ok s /\
    txs (pl s) = [] /\ umap (pl s) = [] /\ work (pl s) = 0 /\
    tx_validate (ledger s) wE = false.
Proof. exact aged_regression_example. Qed.

Example C14_example_life_cycle :
  exists s, run (init wG) ops_life = Ok s /\
    known_in C14_failed_create (init wG) ops_life = false /\
    map t_id (txs (pl s)) = [18; 15] /\ umap (pl s) = [4; 3] /\ work (pl s) = 47 /\
    gts (pl s) = [].
Proof. exact life_example. Qed.

Print Assumptions C14_base_invariants.
Print Assumptions C14_I1_no_double_spend_in_pool.
Print Assumptions C14_I5_routing_work_cache.
Print Assumptions C14_I5_exact_after_block.
Print Assumptions C14_I2_pooled_valid_after_block.
Print Assumptions C14_I2_pooled_valid_always.
Print Assumptions C14_I2_pooled_young_after_block.
Print Assumptions C14_age_checked_at_intake.
Print Assumptions C14_pool_age_invariant.
Print Assumptions C14_I4_no_leave_out_when_young.
Print Assumptions C14_I4_no_leave_out_from_pool.
Print Assumptions C14_I4_bundle_atomic_reachable.
Print Assumptions C14_I3_no_stale_reservation.
Print Assumptions C14_I3_no_stale_reservation_after_block.
Print Assumptions C14_I3_unspent_always_spendable.
Print Assumptions C14_I4_bundle_atomic.
Print Assumptions C14_I4_left_out_is_doomed.
Print Assumptions C14_I4_create_succeeds.
Print Assumptions C14_I4_failed_create_restores_pool.
Print Assumptions C14_I4_failed_create_witness.
Print Assumptions C14_foreign_stake_refused.
Print Assumptions C14_late_issuance_refused.
Print Assumptions C14_no_panic.
Print Assumptions C14_panic_only_gt.
Print Assumptions C14_panic_reachable.
