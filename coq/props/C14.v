(* C14 — The transaction pool stays consistent with the ledger; never loses or locks funds.
   Only statements here; proofs are in proofs/MempoolProofs.v; the model (Mempool.transactions,
   utxo_map, routing_work_in_mempool, golden_tickets and the functions of mempool.rs /
   blockchain.rs / block.rs that touch them) is model/Mempool.v.

   Quantification: every sequence [ops] of
     OAddTx        transaction arrival (valid, conflicting, duplicate, invalid, any inputs, any type),
     OAddGT        golden ticket arrival,
     OBundle       local bundle (any outcome of can_bundle_block's environment conditions, any
                   work requirement, staking transaction or none, anything Block::create adds),
     OBlockAdded   add_block_success with any block content and ANY ledger afterwards
                   (extension, off-chain block, reorganisation),
     OBlockFailed  add_block_failure of a peer's or the node's own block,
   from any genesis ledger [g].

   History.  On the originally pinned tree I1, I3, I4 and I5 were all violated (reservations
   were released by a successful bundle only; add_block_transactions_back re-inserted around
   the index and the cache; a failed Block::create left index and cache behind).  The fixes
   0fedb86, 2cf0b5a, cafb4ab, ff837ac repaired that; the model follows the repaired code and
   I1, I2, I3, I5 are now proved for EVERY operation sequence (the histories that used to
   break them are the Example C14_regression_examples).

   What is still violated: I4.  Block::create drains the pool before its double-spend
   detection can fail, so a bundle can return no block and lose every pooled transaction:

     I4  forall s env wn st ex p' r, bundle_block (ledger s) (pl s) env wn st ex = Ok (p', r) ->
           match r with None => p' = pl s | Some b => txs p' = [] /\ ... end       (FALSE)

   Known_C14_failed_create is that step class; it is entered only when what Block::create adds
   itself (a rebroadcast at the window edge) spends an output that a pooled transaction
   spends (C14_I4_create_succeeds), and it leaves an empty, consistent pool
   (C14_I4_failed_create_leaves_empty_pool). *)
From Saito Require Import Base Mempool MempoolProofs.

Definition Known_C14_failed_create := ev_failed_create.

(* ---------------- I1, I3, I5: after every operation sequence ---------------- *)

(* signatures are unique keys; every input of a pooled transaction is reserved;
   I1 no two pooled transactions spend the same value-carrying output;
   I3 every reservation belongs to a pooled transaction;
   I5 the cached routing work is the (u64) sum over the pooled transactions *)
Theorem C14_all_invariants : forall g ops s,
  run (init g) ops = Ok s ->
  UniqueIds (pl s) /\ Reserved (pl s) /\ I1 (pl s) /\ I3 (pl s) /\ I5 (pl s).
Proof. exact all_invariants. Qed.

Theorem C14_I1_no_double_spend_in_pool : forall g ops s,
  run (init g) ops = Ok s -> I1 (pl s).
Proof. exact no_double_spend_in_pool. Qed.

Theorem C14_I3_no_stale_reservation : forall g ops s,
  run (init g) ops = Ok s -> I3 (pl s).
Proof. exact no_stale_reservation. Qed.

Theorem C14_I5_routing_work_cache : forall g ops s,
  run (init g) ops = Ok s -> I5 (pl s).
Proof. exact routing_work_cache. Qed.

(* I3, user-visible: after every operation sequence an output that no pooled transaction
   names as an input is accepted when a fresh valid transaction spends it *)
Theorem C14_I3_unspent_always_spendable : forall g ops s t,
  run (init g) ops = Ok s ->
  tx_validate (ledger s) t = true -> t_type t <> TGoldenTicket -> producer_only t = false ->
  has_tx (t_id t) (txs (pl s)) = false ->
  (forall k u, In k (vkeys t) -> In u (txs (pl s)) -> ~ In k (in_keys u)) ->
  exists p', add_transaction_if_validates (ledger s) (pl s) t = Ok p' /\ In t (txs p').
Proof. exact unspent_always_spendable. Qed.

(* ---------------- I2: pooled transactions stay valid against the ledger ---------------- *)

(* after every block addition / reorganisation, whatever the new ledger is *)
Theorem C14_I2_pooled_valid_after_block : forall s l b x,
  step s (OBlockAdded l b) = Ok x -> ledger (fst x) = l /\ I2 l (pl (fst x)).
Proof. exact pooled_valid_after_block. Qed.

(* at all times, when arrivals are of the types whose validate() consults the utxoset
   (a BlockStake transaction with value inputs is validated by is_slip_unlocked instead) *)
Theorem C14_I2_pooled_valid_always : forall g ops s,
  Forall op_consults ops -> run (init g) ops = Ok s -> I2 (ledger s) (pl s).
Proof. exact pooled_valid_always. Qed.

Theorem C14_I5_exact_after_block : forall s l b x,
  step s (OBlockAdded l b) = Ok x -> I5 (pl (fst x)).
Proof. exact routing_work_exact_after_block. Qed.

(* ---------------- I4: bundling is atomic ---------------- *)

(* still refuted: a reachable pool of two well-formed transactions, of which one spends
   output 1; Block::create adds a rebroadcast of output 1, fails after the drain, and
   both transactions are gone *)
Theorem C14_I4_bundle_atomic_refuted :
  exists g ops s env wn st ex p',
    run (init g) ops = Ok s /\
    forallb (fun t => negb (has_dup (vkeys t))) (txs (pl s)) = true /\
    map t_id (txs (pl s)) = [13; 10] /\
    bundle_block (ledger s) (pl s) env wn st ex = Ok (p', None) /\ txs p' = [] /\
    Known_C14_failed_create s (OBundle env wn st ex) = true.
Proof. exact I4_refuted. Qed.

(* outside the class, in any pool state: a block without a double spend that contains every
   pooled transaction, the pool emptied, no reservation left for any input of the block,
   cache reset -- or the pool untouched *)
Theorem C14_I4_bundle_atomic : forall l p env wn st ex p' r,
  bundle_block l p env wn st ex = Ok (p', r) ->
  Known_C14_failed_create (mkS p l) (OBundle env wn st ex) = false ->
  match r with
  | None => p' = p
  | Some b => txs p' = [] /\ work p' = 0 /\ dup_spend b = false /\
              (forall t, In t (txs p) -> In t b) /\
              (forall t k, In t b -> In k (in_keys t) -> ~ In k (umap p')) /\
              gts p' = gts p
  end.
Proof. exact bundle_atomic. Qed.

(* inside the class the drained transactions are lost but nothing stale is left *)
Theorem C14_I4_failed_create_leaves_empty_pool : forall l p env wn st ex p' r,
  bundle_block l p env wn st ex = Ok (p', r) ->
  Known_C14_failed_create (mkS p l) (OBundle env wn st ex) = true ->
  r = None /\ txs p' = [] /\ umap p' = [] /\ work p' = 0.
Proof. exact failed_create_leaves_empty_pool. Qed.

(* the class is entered only through what Block::create adds: on a reachable pool (Reserved,
   I1) whose transactions name each input once (Transaction::validate since 0fedb86), with
   additions that do not spend what the pool spends, Block::create succeeds *)
Theorem C14_I4_create_succeeds : forall l p env wn st ex,
  Reserved p -> I1 p ->
  (forall t, In t (txs p) -> NoDup (vkeys t)) ->
  (forall s, st = Some s -> NoDup (vkeys s)) ->
  NoDup (spent_keys ex) ->
  (forall k t, In k (spent_keys ex) -> In t (txs p) -> ~ In k (vkeys t)) ->
  (forall k s, In k (spent_keys ex) -> st = Some s -> ~ In k (vkeys s)) ->
  create_fails l p env wn st ex = false.
Proof. exact create_succeeds. Qed.

(* ---------------- totality ---------------- *)

(* no operation sequence panics or errs, provided GoldenTicket-typed transactions go to
   add_golden_ticket (as the consensus thread routes them); otherwise the panic! in
   add_transaction is reachable *)
Theorem C14_no_panic : forall ops s, Forall op_no_gt ops -> exists s', run s ops = Ok s'.
Proof. exact no_panic. Qed.

Theorem C14_panic_only_gt : forall l p t site,
  add_transaction_if_validates l p t = Panic site ->
  t_type t = TGoldenTicket /\ site = SITE_GT_IN_TXPOOL.
Proof. exact panic_only_gt. Qed.

Theorem C14_panic_reachable : exists g t, step (init g) (OAddTx t) = Panic SITE_GT_IN_TXPOOL.
Proof. exact panic_reachable. Qed.

(* ---------------- non-vacuity, regression ---------------- *)

(* the three histories that broke the pool before the fixes, each followed by a spend of the
   output that used to stay locked: the pool now ends with exactly that transaction (or, for
   the re-insertion, with the original and the conflicting arrival rejected) *)
Example C14_regression_examples :
  (exists s, run (init wG) ops_readd = Ok s /\
             map t_id (txs (pl s)) = [10] /\ umap (pl s) = [1] /\ work (pl s) = 50) /\
  (exists s, run (init wG) ops_invalidated = Ok s /\
             map t_id (txs (pl s)) = [13] /\ umap (pl s) = [2]) /\
  (exists s, run (init wG) ops_confirmed_offchain = Ok s /\
             map t_id (txs (pl s)) = [11] /\ umap (pl s) = [1]).
Proof. exact regression_examples. Qed.

Example C14_example_life_cycle :
  exists s, run (init wG) ops_life = Ok s /\
    known_in Known_C14_failed_create (init wG) ops_life = false /\
    map t_id (txs (pl s)) = [18; 15] /\ umap (pl s) = [4; 3] /\ work (pl s) = 47.
Proof. exact life_example. Qed.

Print Assumptions C14_all_invariants.
Print Assumptions C14_I1_no_double_spend_in_pool.
Print Assumptions C14_I3_no_stale_reservation.
Print Assumptions C14_I5_routing_work_cache.
Print Assumptions C14_I3_unspent_always_spendable.
Print Assumptions C14_I2_pooled_valid_after_block.
Print Assumptions C14_I2_pooled_valid_always.
Print Assumptions C14_I5_exact_after_block.
Print Assumptions C14_I4_bundle_atomic_refuted.
Print Assumptions C14_I4_bundle_atomic.
Print Assumptions C14_I4_failed_create_leaves_empty_pool.
Print Assumptions C14_I4_create_succeeds.
Print Assumptions C14_no_panic.
Print Assumptions C14_panic_only_gt.
Print Assumptions C14_panic_reachable.
