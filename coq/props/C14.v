(* C14 — The transaction pool stays consistent with the ledger; never loses or locks funds.
   Only statements here; proofs are in proofs/MempoolProofs.v; the model (Mempool.transactions,
   utxo_map, routing_work_in_mempool, golden_tickets and the functions of mempool.rs /
   blockchain.rs / block.rs that touch them) is model/Mempool.v.

   Quantification: every sequence [ops] of
     OAddTx        transaction arrival (valid, conflicting, duplicate, invalid, any inputs),
     OAddGT        golden ticket arrival,
     OBundle       local bundle (any outcome of can_bundle_block's environment conditions, any
                   work requirement, staking transaction or none, anything Block::create adds),
     OBlockAdded   add_block_success with any block content and ANY ledger afterwards
                   (extension, off-chain block, reorganisation),
     OBlockFailed  add_block_failure of a peer's or the node's own block,
   from any genesis ledger [g].

   THE PINNED CODE VIOLATES THE PROPERTY.  utxo_map is released only by a successful bundle;
   the three other ways a transaction leaves the pool keep its reservations, Block::create
   drains the pool before it can fail, and add_block_transactions_back re-inserts around the
   reservation index and the work cache.  Full statements (false, see the _refuted theorems):

     I1  forall g ops s, run (init g) ops = Ok s -> I1 (pl s)
     I3  forall g ops s, run (init g) ops = Ok s -> I3 (pl s)
     I4  forall s env wn st ex p' r, bundle_block (ledger s) (pl s) env wn st ex = Ok (p', r) ->
           match r with None => p' = pl s | Some b => txs p' = [] /\ ... end
     I5  forall g ops s, run (init g) ops = Ok s -> I5 (pl s)

   Each is proved for every run outside a specific, decidable class of steps:
     Known_C14_invalidated   a block addition invalidates a pooled transaction that is not in
                             the block (the block spends one of its inputs)
     Known_C14_confirmed     a block (on or off the longest chain) contains a pooled transaction
     Known_C14_failed_create Block::create fails after draining the pool (reachable through a
                             re-insertion, Known_C14_readded, followed by a conflicting
                             arrival; on the originally pinned tree also with one transaction
                             naming the same input twice, a route closed by fix 0fedb86 of
                             Transaction::validate)
     Known_C14_readded       a failed block of the node's own making puts transactions back
   and I2 and the remaining facts hold unconditionally. *)
From Saito Require Import Base Mempool MempoolProofs MempoolRepair MempoolRepairProofs.

Definition Known_C14_invalidated := ev_invalidated.
Definition Known_C14_confirmed := ev_confirmed.
Definition Known_C14_failed_create := ev_failed_create.
Definition Known_C14_readded := ev_readded.
(* modelling side condition, not a defect: signatures bind inputs (a transaction put back
   under an already pooled signature has the pooled one's inputs) *)
Definition sig_collision := ev_sig_collision.

(* ---------------- I1: no two pooled transactions spend the same output ---------------- *)

Theorem C14_I1_no_double_spend_in_pool_refuted :
  exists g ops s, run (init g) ops = Ok s /\
    known_in Known_C14_readded (init g) ops = true /\ ~ I1 (pl s).
Proof. exact I1_refuted. Qed.

Theorem C14_I1_no_double_spend_in_pool : forall g ops s,
  known_in Known_C14_readded (init g) ops = false ->
  run (init g) ops = Ok s -> I1 (pl s).
Proof. exact no_double_spend_in_pool. Qed.

(* on the same runs every input of a pooled transaction is reserved; signatures are unique
   keys on every run *)
Theorem C14_pooled_inputs_reserved : forall g ops s,
  known_in Known_C14_readded (init g) ops = false ->
  run (init g) ops = Ok s -> UniqueIds (pl s) /\ Reserved (pl s).
Proof. exact pooled_inputs_reserved. Qed.

Theorem C14_ids_unique : forall g ops s, run (init g) ops = Ok s -> UniqueIds (pl s).
Proof. exact ids_unique. Qed.

(* ---------------- I2: pooled transactions stay valid against the ledger ---------------- *)

(* after every block addition / reorganisation, whatever the new ledger is *)
Theorem C14_I2_pooled_valid_after_block : forall s l b x,
  step s (OBlockAdded l b) = Ok x -> ledger (fst x) = l /\ I2 l (pl (fst x)).
Proof. exact pooled_valid_after_block. Qed.

(* at all times, when arrivals are of the types whose validate() consults the utxoset
   (Fee / SPV / BlockStake transactions with value inputs are validated elsewhere) *)
Theorem C14_I2_pooled_valid_always : forall g ops s,
  Forall op_consults ops -> run (init g) ops = Ok s -> I2 (ledger s) (pl s).
Proof. exact pooled_valid_always. Qed.

(* ---------------- I3: no stale reservation; unspent outputs stay spendable ---------------- *)

Theorem C14_I3_no_stale_reservation_refuted_invalidated :
  exists g ops s, run (init g) ops = Ok s /\
    known_in Known_C14_invalidated (init g) ops = true /\ ~ I3 (pl s).
Proof. exact I3_refuted_invalidated. Qed.

Theorem C14_I3_no_stale_reservation_refuted_confirmed :
  exists g ops s, run (init g) ops = Ok s /\
    known_in Known_C14_confirmed (init g) ops = true /\ ~ I3 (pl s).
Proof. exact I3_refuted_confirmed. Qed.

Theorem C14_I3_no_stale_reservation_refuted_failed_create :
  exists g ops s, run (init g) ops = Ok s /\
    known_in Known_C14_failed_create (init g) ops = true /\ ~ I3 (pl s).
Proof. exact I3_refuted_failed_create. Qed.

(* the user-visible failure: a spendable output that no pooled transaction names, and a
   fresh valid transaction spending it that the pool silently drops *)
Theorem C14_I3_funds_locked_refuted_invalidated :
  exists g ops s t, run (init g) ops = Ok s /\ funds_locked s t.
Proof. exact funds_locked_invalidated. Qed.
Theorem C14_I3_funds_locked_refuted_confirmed_offchain :
  exists g ops s t, run (init g) ops = Ok s /\ funds_locked s t.
Proof. exact funds_locked_confirmed_offchain. Qed.
Theorem C14_I3_funds_locked_refuted_confirmed_reorg :
  exists g ops s t, run (init g) ops = Ok s /\ funds_locked s t.
Proof. exact funds_locked_confirmed_reorg. Qed.
Theorem C14_I3_funds_locked_refuted_failed_create :
  exists g ops s t, run (init g) ops = Ok s /\ funds_locked s t.
Proof. exact funds_locked_failed_create. Qed.

Theorem C14_I3_no_stale_reservation : forall g ops s,
  known_in (fun s o => Known_C14_invalidated s o || Known_C14_confirmed s o
                       || Known_C14_failed_create s o || sig_collision s o) (init g) ops = false ->
  run (init g) ops = Ok s -> I3 (pl s).
Proof. exact no_stale_reservation. Qed.

(* wherever I3 holds: an output that no pooled transaction names as an input is accepted
   when a fresh valid transaction spends it *)
Theorem C14_I3_fresh_spend_accepted : forall l p t,
  I3 p ->
  tx_validate l t = true -> t_type t <> TGoldenTicket -> producer_only t = false ->
  has_tx (t_id t) (txs p) = false ->
  (forall k u, In k (vkeys t) -> In u (txs p) -> ~ In k (in_keys u)) ->
  exists p', add_transaction_if_validates l p t = Ok p' /\ In t (txs p').
Proof. exact fresh_spend_pooled. Qed.

(* ---------------- I4: bundling is atomic ---------------- *)

Theorem C14_I4_bundle_atomic_refuted :
  exists g ops s env wn st ex p',
    run (init g) ops = Ok s /\
    bundle_block (ledger s) (pl s) env wn st ex = Ok (p', None) /\ p' <> pl s /\
    Known_C14_failed_create s (OBundle env wn st ex) = true.
Proof. exact I4_refuted. Qed.

(* the same without any ill-formed transaction (every pooled transaction names each input
   once): the double spend let in by a re-insertion makes the next Block::create fail *)
Theorem C14_I4_bundle_atomic_refuted_after_readd :
  exists g ops s env wn st ex p',
    run (init g) ops = Ok s /\
    forallb (fun t => negb (has_dup (vkeys t))) (txs (pl s)) = true /\
    bundle_block (ledger s) (pl s) env wn st ex = Ok (p', None) /\ p' <> pl s /\
    Known_C14_failed_create s (OBundle env wn st ex) = true.
Proof. exact I4_refuted_after_readd. Qed.

Theorem C14_I3_funds_locked_refuted_after_readd :
  exists g ops s t, run (init g) ops = Ok s /\ funds_locked s t.
Proof. exact funds_locked_after_readd. Qed.

(* in any pool state: a block without a double spend that contains every pooled transaction,
   the pool emptied, no reservation left for any input of the block, cache reset -- or the
   pool untouched *)
Theorem C14_I4_bundle_atomic : forall l p env wn st ex p' r,
  bundle_block l p env wn st ex = Ok (p', r) ->
  Known_C14_failed_create (mkS p l) (OBundle env wn st ex) = false ->
  match r with
  | None => p' = p
  | Some b => txs p' = [] /\ work p' = 0 /\ dup_spend b = false /\
              (forall t, In t (txs p) -> In t b) /\
              (forall t k, In t b -> In k (in_keys t) -> ~ In k (umap p')) /\
              gts p' = gts p
  end.
Proof. exact bundle_atomic. Qed.

(* the class is entered only through a double spend inside the pool: with I1 (every run
   outside Known_C14_readded), no pooled transaction naming an input twice, and no clash
   with what Block::create adds itself, Block::create succeeds *)
Theorem C14_I4_create_succeeds : forall l p env wn st ex,
  Reserved p -> I1 p ->
  (forall t, In t (txs p) -> NoDup (vkeys t)) ->
  (forall s, st = Some s -> NoDup (vkeys s)) ->
  NoDup (spent_keys ex) ->
  (forall k t, In k (spent_keys ex) -> In t (txs p) -> ~ In k (vkeys t)) ->
  (forall k s, In k (spent_keys ex) -> st = Some s -> ~ In k (vkeys s)) ->
  create_fails l p env wn st ex = false.
Proof. exact create_succeeds. Qed.

(* ---------------- I5: cached routing work = sum over the pool (u64) ---------------- *)

Theorem C14_I5_routing_work_cache_refuted_failed_create :
  exists g ops s, run (init g) ops = Ok s /\
    known_in Known_C14_failed_create (init g) ops = true /\ ~ I5 (pl s).
Proof. exact I5_refuted_failed_create. Qed.

Theorem C14_I5_routing_work_cache_refuted_readded :
  exists g ops s, run (init g) ops = Ok s /\
    known_in Known_C14_readded (init g) ops = true /\ ~ I5 (pl s).
Proof. exact I5_refuted_readded. Qed.

Theorem C14_I5_routing_work_cache : forall g ops s,
  known_in (fun s o => Known_C14_failed_create s o || Known_C14_readded s o) (init g) ops = false ->
  run (init g) ops = Ok s -> I5 (pl s).
Proof. exact routing_work_cache. Qed.

Theorem C14_I5_exact_after_block : forall s l b x,
  step s (OBlockAdded l b) = Ok x -> I5 (pl (fst x)).
Proof. exact routing_work_exact_after_block. Qed.

(* ---------------- repair candidate ----------------
   model/MempoolRepair.v is NOT a model of /repo: it is Mempool.v with the three local
   changes of the candidate patch (delete_transactions rebuilds utxo_map from the remaining
   transactions; add_block_transactions_back re-inserts through add_transaction; a failed
   Block::create leaves index and cache empty).  With them I1, I3, I5 and the auxiliary
   invariants hold after EVERY operation sequence, no class excluded, and a bundle that
   yields no block leaves a consistent pool.  (Differential run of this model against the
   patched code: see registry/C14.json, "repair".) *)

Theorem C14_repair_all_invariants : forall g ops s,
  run_r (init g) ops = Ok s ->
  UniqueIds (pl s) /\ Reserved (pl s) /\ I1 (pl s) /\ I3 (pl s) /\ I5 (pl s).
Proof. exact repair_all_invariants. Qed.

Theorem C14_repair_bundle : forall g ops s env wn st ex p' r,
  run_r (init g) ops = Ok s ->
  bundle_block_r (ledger s) (pl s) env wn st ex = Ok (p', r) ->
  InvR p' /\
  match r with
  | Some b => txs p' = [] /\ dup_spend b = false /\ (forall t, In t (txs (pl s)) -> In t b)
  | None => p' = pl s \/ create_fails (ledger s) (pl s) env wn st ex = true
  end.
Proof. exact repair_bundle. Qed.

(* ---------------- totality ---------------- *)

(* no operation sequence panics or errs, provided GoldenTicket-typed transactions go to
   add_golden_ticket (as the consensus thread routes them); otherwise the panic! in
   add_transaction is reachable *)
Theorem C14_no_panic : forall ops s, Forall op_no_gt ops -> exists s', run s ops = Ok s'.
Proof. exact no_panic. Qed.

Theorem C14_panic_only_gt : forall l p t site,
  add_transaction_if_validates l p t = Panic site ->
  t_type t = TGoldenTicket /\ site = SITE_GT_IN_TXPOOL.
Proof. exact panic_only_gt. Qed.

Theorem C14_panic_reachable : exists g t, step (init g) (OAddTx t) = Panic SITE_GT_IN_TXPOOL.
Proof. exact panic_reachable. Qed.

(* ---------------- non-vacuity ---------------- *)

(* a run outside every class: two arrivals of which one conflicts, a duplicate, a golden
   ticket, a successful bundle, the bundled block added, a new arrival, an unrelated peer
   block, a failed peer block; it ends with one pooled transaction, one reservation, and the
   cache equal to its work *)
Example C14_example_clean_run :
  exists s, run (init wG) ops_clean = Ok s /\
    known_in (fun s o => Known_C14_invalidated s o || Known_C14_confirmed s o
                         || Known_C14_failed_create s o || Known_C14_readded s o
                         || sig_collision s o) (init wG) ops_clean = false /\
    map t_id (txs (pl s)) = [15] /\ umap (pl s) = [3] /\ work (pl s) = 40.
Proof. exact clean_example. Qed.

Print Assumptions C14_I1_no_double_spend_in_pool_refuted.
Print Assumptions C14_I1_no_double_spend_in_pool.
Print Assumptions C14_pooled_inputs_reserved.
Print Assumptions C14_ids_unique.
Print Assumptions C14_I2_pooled_valid_after_block.
Print Assumptions C14_I2_pooled_valid_always.
Print Assumptions C14_I3_no_stale_reservation_refuted_invalidated.
Print Assumptions C14_I3_no_stale_reservation_refuted_confirmed.
Print Assumptions C14_I3_no_stale_reservation_refuted_failed_create.
Print Assumptions C14_I3_funds_locked_refuted_invalidated.
Print Assumptions C14_I3_funds_locked_refuted_confirmed_offchain.
Print Assumptions C14_I3_funds_locked_refuted_confirmed_reorg.
Print Assumptions C14_I3_funds_locked_refuted_failed_create.
Print Assumptions C14_I3_no_stale_reservation.
Print Assumptions C14_I3_fresh_spend_accepted.
Print Assumptions C14_I4_bundle_atomic_refuted.
Print Assumptions C14_I4_bundle_atomic_refuted_after_readd.
Print Assumptions C14_I3_funds_locked_refuted_after_readd.
Print Assumptions C14_I4_bundle_atomic.
Print Assumptions C14_I4_create_succeeds.
Print Assumptions C14_I5_routing_work_cache_refuted_failed_create.
Print Assumptions C14_I5_routing_work_cache_refuted_readded.
Print Assumptions C14_I5_routing_work_cache.
Print Assumptions C14_I5_exact_after_block.
Print Assumptions C14_repair_all_invariants.
Print Assumptions C14_repair_bundle.
Print Assumptions C14_no_panic.
Print Assumptions C14_panic_only_gt.
Print Assumptions C14_panic_reachable.
