(* C15 — A node that syncs from a peer converges to the peer's chain.
   Only statements here; proofs are in proofs/ForkIdProofs.v and proofs/SyncProtoProofs.v.

   Naming follows the code: generate_last_shared_ancestor runs on the chain [mine] of the
   node that ANSWERS a blockchain request (the honest peer B of the property) with the
   (latest block id, fork id) of the node that ASKS (the syncing node A): [peer] is A's
   chain.  Chains are lists of (id, hash identity); [h16 i h] is the 16-bit window
   (bytes 2i, 2i+1) of hash h — the only thing the fork-id code reads of a hash.
   Every statement holds for an arbitrary weight table and window function; the
   correspondence harness runs the model at FORK_ID_WEIGHTS, the protocol constant. *)
From Saito Require Import Base Chain ChainCheck ForkId ForkIdProofs SyncProto SyncProtoProofs.

(* ---------------------------------------------------------------- the fork point *)

(* [fork_point mine peer] is the largest id at which both chains hold the same block
   (0 if none): it is an upper bound of the common heights ... *)
Theorem C15_fork_point_is_max : forall mine peer a h,
  lc_at mine a = Some h -> lc_at peer a = Some h -> a <= fork_point mine peer.
Proof. exact fork_point_max. Qed.

(* ... and it is 0 or itself a common height *)
Theorem C15_fork_point_is_common : forall mine peer,
  fork_point mine peer = 0
  \/ exists h, lc_at mine (fork_point mine peer) = Some h /\ lc_at peer (fork_point mine peer) = Some h.
Proof. exact fork_point_common. Qed.

(* ---------------------------------------------------------------- the ancestor estimate *)

(* The common-ancestor estimate derived from the compact fork identifier is never later
   than the true fork point.  Hypotheses: the hash identifies the block including its id
   (HashDeterminesId), and the named NoWindowCollision: on the at most 16 comparisons the
   walk makes, my block and the peer block the fork-id entry was copied from differ in
   window i whenever they are different blocks, and my window is not 0 where the entry was
   never written.  No assumption on chain lengths, starts (pruned chains), which branch
   (peer behind / ahead) is taken, or the weights. *)
Theorem C15_ancestor_sound : forall weights h16 mine peer fid,
  fid = fork_id_of weights h16 peer ->
  HashDeterminesId mine peer ->
  NoWindowCollision weights h16 mine peer ->
  last_shared_ancestor weights h16 mine (tip_id peer) fid <= fork_point mine peer.
Proof. exact ancestor_sound. Qed.

(* hence no needed block is skipped: every block of the answering chain above the fork
   point lies in the streamed range estimate ..= latest *)
Theorem C15_no_needed_block_skipped : forall weights h16 mine peer fid,
  fid = fork_id_of weights h16 peer ->
  HashDeterminesId mine peer ->
  NoWindowCollision weights h16 mine peer -> TipHighest mine ->
  forall id h, lc_at mine id = Some h -> fork_point mine peer < id ->
  In (id, h) (streamed mine (last_shared_ancestor weights h16 mine (tip_id peer) fid)).
Proof. exact above_fork_point_streamed. Qed.

(* the same in terms of what the asking node lacks: chains being hash-linked (equal block
   at a height means equal blocks below, PrefixClosed), every block of the answering chain
   that the asking chain does not hold at that height is streamed *)
Theorem C15_every_missing_block_streamed : forall weights h16 mine peer fid,
  fid = fork_id_of weights h16 peer ->
  HashDeterminesId mine peer ->
  NoWindowCollision weights h16 mine peer ->
  PrefixClosed mine peer -> TipHighest mine ->
  forall id h, lc_at mine id = Some h -> lc_at peer id <> Some h ->
  In (id, h) (streamed mine (last_shared_ancestor weights h16 mine (tip_id peer) fid)).
Proof. exact no_needed_block_skipped. Qed.

(* The estimate is not trivially sound (0 would be): when the asking chain is the shorter
   one — the situation of C15, branch "peer behind" — every checkpoint the asker sampled
   (entry k of its fork id was copied from its block h at height y > 0) at which the
   answerer holds the same block is a lower bound: the estimate is the highest shared
   checkpoint. *)
Theorem C15_ancestor_precise_when_behind : forall weights h16 mine peer fid,
  fid = fork_id_of weights h16 peer -> tip_id peer < tip_id mine ->
  forall k h,
    nth k (gen_src (lc_at peer) weights (rnd10 (tip_id peer))) None = Some h ->
    exists y, lc_at peer y = Some h /\ 0 < y /\
      (lc_at mine y = Some h -> y <= last_shared_ancestor weights h16 mine (tip_id peer) fid).
Proof. exact ancestor_precise_when_behind. Qed.

(* NoWindowCollision cannot be dropped: with a window function that collides (here: every
   window equal) the estimate is later than the fork point.  mine = 1..25, peer = 1..22,
   the chains share blocks 1..5 only; the walk starts at 20 and stops there. *)
Definition ex_mine : chain := mk_chain 1 [1;2;3;4;5;106;107;108;109;110;111;112;113;114;115;116;117;118;119;120;121;122;123;124;125].
Definition ex_peer : chain := mk_chain 1 [1;2;3;4;5;206;207;208;209;210;211;212;213;214;215;216;217;218;219;220;221;222].
Lemma C15_ancestor_sound_needs_no_collision_refuted :
  exists h16,
    HashDeterminesId ex_mine ex_peer
    /\ fork_point ex_mine ex_peer = 5
    /\ last_shared_ancestor FORK_ID_WEIGHTS h16 ex_mine (tip_id ex_peer)
         (fork_id_of FORK_ID_WEIGHTS h16 ex_peer) = 20.
Proof.
  exists (fun _ _ => 7). split; [apply hash_determines_id_b_sound; vm_compute; reflexivity|].
  split; vm_compute; reflexivity.
Qed.

(* non-vacuity: the same two chains with collision-free windows (window i of hash k is
   (k*40503 + i*9973) mod 2^16): hypotheses hold, the fork id has two entries set, the
   estimate is 0 <= 5 (no checkpoint at or below the fork point 5); with the fork at 12
   the checkpoint 10 is found *)
Definition ex_h16 (i k : N) : N := (k * 40503 + i * 9973) mod 65536.
Definition ex_peer12 : chain := mk_chain 1 [1;2;3;4;5;106;107;108;109;110;111;112;213;214;215;216;217;218;219;220;221;222].
Example C15_ancestor_example :
  HashDeterminesId ex_mine ex_peer /\ NoWindowCollision FORK_ID_WEIGHTS ex_h16 ex_mine ex_peer
  /\ fork_id_of FORK_ID_WEIGHTS ex_h16 ex_peer = [ex_h16 0 220; ex_h16 1 210; 0;0;0;0;0;0;0;0;0;0;0;0;0;0]
  /\ last_shared_ancestor FORK_ID_WEIGHTS ex_h16 ex_mine (tip_id ex_peer) (fork_id_of FORK_ID_WEIGHTS ex_h16 ex_peer) = 0
  /\ HashDeterminesId ex_mine ex_peer12 /\ NoWindowCollision FORK_ID_WEIGHTS ex_h16 ex_mine ex_peer12
  /\ fork_point ex_mine ex_peer12 = 12
  /\ last_shared_ancestor FORK_ID_WEIGHTS ex_h16 ex_mine (tip_id ex_peer12) (fork_id_of FORK_ID_WEIGHTS ex_h16 ex_peer12) = 10
  /\ map fst (streamed ex_mine 10) = [10;11;12;13;14;15;16;17;18;19;20;21;22;23;24;25].
Proof.
  repeat split;
    try (apply hash_determines_id_b_sound; vm_compute; reflexivity);
    try (apply no_window_collision_b_sound; vm_compute; reflexivity);
    vm_compute; reflexivity.
Qed.

(* ---------------------------------------------------------------- the exchange *)

(* Convergence, partial: the order in which fetched blocks reach the consensus thread
   ([arrivals]) is universally quantified, with arbitrary duplicates and arrivals of blocks
   the node already holds, but restricted by the premise [Run ... needed ...]: the
   arrivals that are not yet stored are, in order, exactly [needed] (the peer's blocks
   above the fork point in ascending height, i.e. parents first) and none of them is
   answered Retry.  Then the consensus thread (one drain of the block queue per arrival)
   ends in the state of the in-order delivery; if that state has the peer's tip — which is
   what C05_adopts / C05_adopts_first establish block by block under C05's adoptability
   premises (strictly longer, at least as heavy, valid, golden-ticket density), cited here
   as the hypothesis [latest_hash st_in = Ok tipB] — the node is on the peer's tip.
   NOT covered: orders in which a block is offered before its parent (see the refutation
   below), and the Retry path of initial_loading_completed (covered by the harness only). *)
Theorem C15_sync_converges_partial : forall c st0 arrivals needed st_in tipB,
  deliver c st0 needed = Ok st_in -> latest_hash st_in = Ok tipB ->
  (exists st', Run c st0 arrivals needed st') ->
  exists st', run_fetched c (st0, []) arrivals = Ok (st', []) /\ latest_hash st' = Ok tipB.
Proof. exact sync_converges_partial. Qed.

(* what the real queue guarantees: blocks drained together are offered sorted by id, so
   the arrival order inside one batch is irrelevant *)
Theorem C15_batch_sorted_converges : forall c st batch st',
  NoDup (map b_hash batch) ->
  (forall b, In b batch -> get_block st (b_hash b) = None) ->
  Run c st (sort_by id_le batch) (sort_by id_le batch) st' ->
  on_batch c (st, []) batch = Ok (st', []).
Proof. exact batch_sorted_converges. Qed.

(* REFUTED (listed finding child-before-parent): "under every delivery order of the
   fetched blocks".  Each arrival is drained on its own, so nothing restores the order
   across arrivals, and add_block's answer to a block whose parent is not stored is not
   "retry" (initial_loading_completed is never set).  The node holds 1 <- 2, the peer
   1 <- ... <- 5.  Arrivals 3, 4, 5 end on 5; arrivals 3, 5, 4 end on 4 with block 5 stored
   off the chain; arrivals 5, 4, 3 end on 3; an empty node that receives 2 before 1 ends
   without a longest chain (tip id 0).  The same blocks as one batch [5; 3; 4] end on 5. *)
Definition ex_c : cfg := (5, false).
Definition ex_b (i : N) : blk := wB i (i - 1) i 1 true true.
Lemma C15_sync_child_first_refuted :
  exists st12,
    deliver ex_c (init ex_c) [ex_b 1; ex_b 2] = Ok st12
    /\ (exists s, run_fetched ex_c (st12, []) [ex_b 3; ex_b 4; ex_b 5] = Ok (s, []) /\ latest_hash s = Ok 5)
    /\ (exists s, run_fetched ex_c (st12, []) [ex_b 3; ex_b 5; ex_b 4] = Ok (s, [])
                  /\ latest_hash s = Ok 4 /\ get_block s 5 <> None)
    /\ (exists s, run_fetched ex_c (st12, []) [ex_b 5; ex_b 4; ex_b 3] = Ok (s, []) /\ latest_hash s = Ok 3)
    /\ (exists s, run_fetched ex_c (init ex_c, []) [ex_b 2; ex_b 1] = Ok (s, [])
                  /\ latest_hash s = Ok 0 /\ latest_id s = Ok 0)
    /\ (exists s, on_batch ex_c (st12, []) [ex_b 5; ex_b 3; ex_b 4] = Ok (s, []) /\ latest_hash s = Ok 5).
Proof.
  eexists. split; [vm_compute; reflexivity|].
  repeat split; eexists; (split; [vm_compute; reflexivity|]); try (vm_compute; reflexivity).
  - split; [vm_compute; reflexivity|vm_compute; discriminate].
  - split; vm_compute; reflexivity.
Qed.

(* non-vacuity of the convergence theorem: the premise holds for an arrival order with a
   duplicate and an already-held block interleaved *)
Example C15_sync_example :
  exists st12 st',
    deliver ex_c (init ex_c) [ex_b 1; ex_b 2] = Ok st12
    /\ Run ex_c st12 [ex_b 2; ex_b 3; ex_b 3; ex_b 4; ex_b 1; ex_b 5] [ex_b 3; ex_b 4; ex_b 5] st'
    /\ latest_hash st' = Ok 5.
Proof.
  eexists. eexists. split; [vm_compute; reflexivity|]. split.
  - eapply Run_known; [vm_compute; discriminate|].
    eapply Run_new; [vm_compute; reflexivity|vm_compute; reflexivity|discriminate|].
    eapply Run_known; [vm_compute; discriminate|].
    eapply Run_new; [vm_compute; reflexivity|vm_compute; reflexivity|discriminate|].
    eapply Run_known; [vm_compute; discriminate|].
    eapply Run_new; [vm_compute; reflexivity|vm_compute; reflexivity|discriminate|].
    apply Run_nil.
  - vm_compute. reflexivity.
Qed.

Print Assumptions C15_fork_point_is_max.
Print Assumptions C15_fork_point_is_common.
Print Assumptions C15_ancestor_sound.
Print Assumptions C15_no_needed_block_skipped.
Print Assumptions C15_every_missing_block_streamed.
Print Assumptions C15_ancestor_precise_when_behind.
Print Assumptions C15_ancestor_sound_needs_no_collision_refuted.
Print Assumptions C15_sync_converges_partial.
Print Assumptions C15_batch_sorted_converges.
Print Assumptions C15_sync_child_first_refuted.
