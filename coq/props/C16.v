(* C16 — The block-fetch scheduler is bounded, ordered and complete.
   Only statements here; proofs are in proofs/SyncStateProofs.v. *)
From Saito Require Import Base SyncState SortFacts SyncStateProofs.
From Coq Require Import Sorted.

(* every operation sequence (announcements, picture builds with any set of
   already-known hashes, selection rounds, fetch successes, failures, removals),
   any batch size, any set of peers (peer indices are allocated from 1) *)

(* no run panics: neither the usize subtraction [batch_size - fetching_count],
   nor the peer-index assertion, nor front().unwrap() *)
Theorem C16_no_panic : forall batch urls ops site,
  ~ In 0 urls -> run batch urls init ops <> Panic site.
Proof. exact no_panic. Qed.

(* in-flight fetches per peer never exceed the batch size *)
Theorem C16_inflight_bounded : forall batch urls s p q,
  ~ In 0 urls -> Reach batch urls s -> In (p, q) (tofetch s) ->
  countb is_fetching q <= batch.
Proof. exact inflight_bounded. Qed.

(* (id, hash) is a key of each peer's queue: the same announced block is never
   held — hence never in flight — twice for the same peer *)
Theorem C16_no_double_flight : forall batch urls s p q,
  ~ In 0 urls -> Reach batch urls s -> In (p, q) (tofetch s) -> NoDup (map ekey q).
Proof. exact keys_unique. Qed.

(* an entry is handed out at most MAX_RETRIES+1 times (ghost counter e_req),
   and its retry counter is bounded *)
Theorem C16_bounded_retries : forall batch urls s p q e,
  ~ In 0 urls -> Reach batch urls s -> In (p, q) (tofetch s) -> In e q ->
  e_req e <= MAX_RETRIES + 1 /\ e_retry e <= MAX_RETRIES + 1.
Proof. exact requests_bounded. Qed.

(* one selection round of one peer: the hand-out is sorted by (height, hash),
   consists of entries that were queued (not in flight), everything queued that
   is left behind sorts after everything handed out, and hand-out plus in-flight
   stays within the batch *)
Theorem C16_round_sorted : forall batch peer q q' sel,
  select_peer batch peer q = Ok (q', sel) ->
  StronglySorted (fun a b => key_le a b = true) (map swap sel)
  /\ (forall hi, In hi sel -> exists e, In e q /\ e_st e = Queued /\ hi = (e_hash e, e_id e))
  /\ (forall e, In e q -> e_st e = Queued -> ~ In (e_hash e, e_id e) sel ->
        forall hi, In hi sel -> key_le (swap hi) (ekey e) = true)
  /\ Nlen sel + countb is_fetching q <= batch.
Proof. exact select_peer_round. Qed.

(* completeness (bounded liveness, one round): a queued entry is handed out in
   this round as soon as fewer quota-consuming entries sort before it than the
   free quota *)
Theorem C16_progress : forall batch peer q l1 e l2,
  peer <> 0 -> InvQ batch q ->
  sort_by entry_le q = l1 ++ e :: l2 -> e_st e = Queued ->
  countb eligible l1 + countb is_fetching q < batch ->
  exists q' sel, select_peer batch peer q = Ok (q', sel) /\ In (e_hash e, e_id e) sel.
Proof. exact select_peer_progress. Qed.

(* completeness over several rounds (bounded liveness under the stated environment
   assumption): if every block handed out in a round arrives before the next round
   ([ideal_round] = sort, hand out, all handed-out blocks fetched), then after k+1 rounds
   exactly the first (k+1)*batch queued entries, in (height, hash) order, have been
   requested and received; the entry at sorted position i is requested in round
   i / batch + 1 *)
Theorem C16_rounds : forall k batch q,
  all_queued q ->
  rounds (S k) batch q = skipn (S k * N.to_nat batch) (sort_by entry_le q).
Proof. exact rounds_spec. Qed.

(* non-vacuity: a concrete non-trivial reachable state, and a round on it *)
Example C16_example :
  let ops := [OAdd 7 3 1; OAdd 5 2 1; OAdd 9 4 1; OAdd 5 2 2; OBuild [9]; OSelect;
              OFailed 2 5 1; OSelect; OFetched 7; OSelect] in
  exists s, run 1 [1; 2] init ops = Ok s /\ tofetch s <> [].
Proof. eexists. split; [vm_compute; reflexivity|discriminate]. Qed.

Print Assumptions C16_no_panic.
Print Assumptions C16_inflight_bounded.
Print Assumptions C16_no_double_flight.
Print Assumptions C16_bounded_retries.
Print Assumptions C16_round_sorted.
Print Assumptions C16_progress.
Print Assumptions C16_rounds.
