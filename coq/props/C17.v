(* C17 — The handshake authenticates the peer's key.
   Only statements here; proofs are in proofs/HandshakeProofs.v, the model in
   model/Handshake.v.

   Setting.  [Reach g n f0 tr s]: state s and ghost trace tr (newest event
   first) of a node with wallet key [me g] and n configured static peers, after
   ANY finite sequence of environment actions: connections opened and closed,
   any challenge / response delivered on any connection in any order (dropped,
   reordered, replayed, redirected, reflected), time passing, the purge of stale
   entries, and signatures made with any key other than the node's own
   (honest remote nodes and attacker alike).  The single restriction on the
   environment is symbolic unforgeability ([act_ok]): a delivered signature term
   [Sig k m] is one that came into existence ([ESigned k m] is in the trace), and
   only the node's own handlers sign with [me g].  Fresh challenges are values
   that did not occur earlier in the run. *)
From Saito Require Import Base Handshake HandshakeProofs.

(* ---- authentication ---- *)

(* If connection c is Connected under key K then: the current session of c was
   established by an acceptance under K that nothing has reset since
   ([session]); the accepted challenge ch was issued by this node on that very
   connection, AFTERWARDS a signature by K over ch came into existence, AFTER
   that it was accepted on c; and ch was accepted exactly once in the whole run
   (on any connection). *)
Theorem C17_connected_authentic : forall g n f0 tr s c p K,
  Reach g n f0 tr s ->
  aget c (peers s) = Some p -> p_status p = Connected -> p_pk p = Some K ->
  exists ch,
    session c tr = Some (K, ch)
    /\ before (EIssued c ch) (ESigned K ch) tr
    /\ before (ESigned K ch) (EAccepted c K ch) tr
    /\ accepted_count ch tr = 1%nat.
Proof. exact connected_authentic. Qed.

(* each challenge is accepted at most once, on whatever connection *)
Theorem C17_challenge_accepted_once : forall g n f0 tr s ch,
  Reach g n f0 tr s -> (accepted_count ch tr <= 1)%nat.
Proof. exact challenge_accepted_once. Qed.

(* the mechanism: an acceptance clears the stored challenge, so the same (or any)
   response delivered again on that connection is "unsolicited" — see
   C17_bad_response_inert, case [p_chal p = None] *)
Theorem C17_accept_clears_challenge : forall g s c r pref s' outs ev K ch,
  ksorted (peers s) ->
  step g s (ADeliverResp c r pref) = Ok (s', outs, ev) -> In (EAccepted c K ch) ev ->
  exists p', aget c (peers s') = Some p' /\ p_chal p' = None /\ p_status p' = Connected
             /\ p_pk p' = Some K.
Proof. exact accept_clears_challenge. Qed.

(* The accepted challenge belongs to the CURRENT connection of the entry: between
   the issue of the accepted challenge and its acceptance the connection of c was
   neither re-opened nor closed, nor the entry removed (mark_as_disconnected,
   handle_new_peer — since fix 8a16f73 also for static entries — and
   initiate_handshake discard or replace the challenge of the old connection).
   A response withheld across a disconnect and re-dial is therefore never accepted. *)
Theorem C17_accepted_on_this_connection : forall g n f0 tr s c K ch,
  Reach g n f0 tr s -> In (EAccepted c K ch) tr ->
  exists l1 l2 l3, tr = l3 ++ EAccepted c K ch :: l2 ++ EIssued c ch :: l1
                   /\ forall e, In e l2 -> closes c e = false.
Proof. exact accepted_on_this_connection. Qed.

(* regression (8a16f73): challenge 6 is stored on the static entry 1 while it is not
   connected; the re-dial discards it; the response signed over 6 is not accepted *)
Example C17_stale_challenge_rejected :
  exists tr s p, Reach g1 1 1 tr s
    /\ In (EIssued 1 6) tr /\ In (ESigned 2 6) tr
    /\ aget 1 (peers s) = Some p /\ p_status p = Disconnected /\ p_pk p = None
    /\ addr s = [] /\ accepted_count 6 tr = 0%nat.
Proof. exact stale_challenge_rejected. Qed.

(* ---- rejected responses are inert ---- *)

(* In ANY state: a response that carries no core version, or arrives when no
   challenge is outstanding (unsolicited, or replayed after acceptance), or whose
   signature does not verify under the response's key over the outstanding
   challenge of THIS connection (made for another challenge: replayed, reflected,
   lifted from another connection; or a bad signature; or another key), or whose
   core version is incompatible, or whose key differs from the key the entry
   already records, is handled without panic and
   - leaves every other connection entry unchanged,
   - leaves address_to_peers unchanged,
   - makes the node sign nothing,
   - emits no acceptance (only a reset of c, or nothing),
   - does not change the key recorded for c and does not make c Connected. *)
Theorem C17_bad_response_inert : forall g s c r pref,
  (forall p, aget c (peers s) = Some p -> rejects g p r) ->
  exists s' outs ev,
    step g s (ADeliverResp c r pref) = Ok (s', outs, ev)
    /\ (forall c', c' <> c -> aget c' (peers s') = aget c' (peers s))
    /\ addr s' = addr s
    /\ signed s' = signed s
    /\ (forall e, In e ev -> e = EReset c)
    /\ (forall p', aget c (peers s') = Some p' ->
          exists p, aget c (peers s) = Some p /\ p_pk p' = p_pk p
                    /\ (p_status p' = Connected -> p_status p = Connected)).
Proof. exact bad_response_inert. Qed.

(* Boundary (same connection): such a response delivered ON an authenticated
   connection tears that connection down ([mark_disc]: Connected -> Disconnected);
   the statement above is about every OTHER connection, as the property text is. *)

(* ---- panics ----
   no handler panics in any reachable state, whatever is delivered (unguarded
   since fix ae2aeaa turned the key-change assert_eq! into a rejection; the
   join_as_reconnection assert and the expect() are unreachable) *)
Theorem C17_no_panic : forall g n f0 tr s a site,
  Reach g n f0 tr s -> step g s a <> Panic site.
Proof. exact no_panic. Qed.

(* ---- address_to_peers ---- *)

(* the map never points at an entry of another key *)
Theorem C17_address_sound : forall g n f0 tr s K c,
  Reach g n f0 tr s -> aget K (addr s) = Some c ->
  exists p, aget c (peers s) = Some p /\ p_pk p = Some K.
Proof. intros g n f0 tr s K c HR. apply (address_sound g n f0 tr s HR). Qed.

(* every entry that records key K — in particular every connection Connected
   under K — is reachable through the map, and the map entry is an entry of that
   key (unguarded since fixes f517868 and 88efef8: reconnection merges and purges
   included) *)
Theorem C17_address_complete : forall g n f0 tr s c p K,
  Reach g n f0 tr s ->
  aget c (peers s) = Some p -> p_pk p = Some K ->
  exists c' p', aget K (addr s) = Some c' /\ aget c' (peers s) = Some p' /\ p_pk p' = Some K.
Proof. exact address_complete'. Qed.

(* regression examples for the three fixed classes *)
Example C17_reconnection_keeps_key :
  exists tr s p, Reach g1 1 1 tr s
    /\ In (ERemoved 2) tr /\ aget 2 (peers s) = None
    /\ aget 3 (peers s) = Some p /\ p_status p = Connected /\ p_pk p = Some 2
    /\ aget 2 (addr s) = Some 3.
Proof. exact reconnection_keeps_key. Qed.

Example C17_purge_keeps_key :
  exists tr s p, Reach g1 1 1 tr s
    /\ In (EPurged 3) tr /\ aget 3 (peers s) = None
    /\ aget 2 (peers s) = Some p /\ p_status p = Connected /\ p_pk p = Some 2
    /\ aget 2 (addr s) = Some 2.
Proof. exact purge_keeps_key. Qed.

Example C17_keychange_rejected :
  exists tr s p, Reach g1 1 1 tr s
    /\ aget 2 (peers s) = Some p /\ p_status p = Disconnected /\ p_pk p = Some 3
    /\ p_chal p = None /\ aget 3 (addr s) = Some 2 /\ aget 4 (addr s) = None
    /\ accepted_count 6 tr = 0%nat.
Proof. exact keychange_rejected. Qed.

(* ---- the boundary of what the signature proves ----
   C17_connected_authentic says that a signature by K over the challenge of c
   exists and is fresh.  It does NOT say that the party at the other end of c
   holds K: every node signs any 32 bytes it is sent as a challenge
   (Peer::handle_handshake_challenge), and the signed bytes name neither the
   connection nor the verifier.  Both consequences are reachable: *)

(* reflection: without any key but the node's own ever signing, the attacker's
   connection 2 is Connected under the node's OWN key *)
Theorem C17_reflection_connected :
  exists tr s p, Reach g1 1 1 tr s
    /\ aget 2 (peers s) = Some p /\ p_status p = Connected /\ p_pk p = Some (me g1)
    /\ signed_only_by (me g1) tr.
Proof. exact reflection_connected. Qed.

(* relay: honest nodes A (key 1) and B (key 2), the attacker signs nothing; A
   marks the attacker's connection Connected under B's key and maps B's key to
   it, while B has authenticated nobody *)
Theorem C17_relay_connected :
  exists w pa pb,
    wrun g1 g2 (mkW (init 1 1) (init 0 1000)) relay_acts = Ok (w, true)
    /\ aget 2 (peers (w_a w)) = Some pa /\ p_status pa = Connected /\ p_pk pa = Some (me g2)
    /\ aget 2 (addr (w_a w)) = Some 2
    /\ peers (w_b w) = [(7, pb)] /\ p_status pb = Connecting /\ p_pk pb = None
    /\ addr (w_b w) = [].
Proof. exact relay_connected. Qed.

(* ---- non-vacuity: a complete honest handshake in both roles ---- *)
Example C17_example :
  exists tr s p2 p1, Reach g1 1 1 tr s
    /\ aget 2 (peers s) = Some p2 /\ p_status p2 = Connected /\ p_pk p2 = Some 2
    /\ aget 1 (peers s) = Some p1 /\ p_status p1 = Connected /\ p_pk p1 = Some 4
    /\ aget 2 (addr s) = Some 2 /\ aget 4 (addr s) = Some 1.
Proof. exact honest_run. Qed.

(* a response that is rejected for each of the five reasons, on a state where a
   challenge is outstanding *)
Example C17_example_rejects :
  let p := set_chal (set_status new_peer Connecting) (Some 1) in
  rejects g1 p (mkR 2 (Sig 2 1) 2 v_zero vW)
  /\ rejects g1 new_peer (mkR 2 (Sig 2 1) 2 vA vW)
  /\ rejects g1 p (mkR 2 (Sig 2 7) 2 vA vW)
  /\ rejects g1 p (mkR 2 SigBad 2 vA vW)
  /\ rejects g1 p (mkR 2 (Sig 3 1) 2 vA vW)
  /\ rejects g1 p (mkR 2 (Sig 2 1) 2 (mkV 1 3 3) vW)
  /\ rejects g1 (mkP Connecting false (Some 1) (Some 3) vA vW (mkL 0 0) None) (mkR 2 (Sig 2 1) 2 vA vW).
Proof.
  cbv zeta. unfold rejects. repeat split.
  - left. reflexivity.
  - right; left. reflexivity.
  - right; right; left. exists 1. split; reflexivity.
  - right; right; left. exists 1. split; reflexivity.
  - right; right; left. exists 1. split; reflexivity.
  - right; right; right; left. reflexivity.
  - right; right; right; right. reflexivity.
Qed.

Print Assumptions C17_connected_authentic.
Print Assumptions C17_challenge_accepted_once.
Print Assumptions C17_accept_clears_challenge.
Print Assumptions C17_accepted_on_this_connection.
Print Assumptions C17_bad_response_inert.
Print Assumptions C17_no_panic.
Print Assumptions C17_address_sound.
Print Assumptions C17_address_complete.
Print Assumptions C17_reflection_connected.
Print Assumptions C17_relay_connected.
