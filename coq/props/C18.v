(* C18 — A lite block is a faithful projection of its full block.
   Only statements here; proofs are in proofs/LiteProofs.v; model in model/Merkle.v, model/Lite.v.

   Vocabulary (all over the executable model of the pinned code):
     lite b ks            Block::generate_lite_block(keylist) on block b              : res block
     receive l            serialize_for_net; deserialize_from_net; generate (client)  : res block
     generate_merkle_root Block::generate_merkle_root                                 : res hv
     touches ks t         t has a from- or to-slip of a listed key, or is a golden ticket
     no_spv txs           no transaction of the placeholder type (a full block as Block::create builds it)
     generated b          Block::generate has run on b (hash and transaction hashes are those of its content)
   Hashes are free terms (model/Merkle.v): every equation below holds for any hash function;
   every inequation (the refutations) holds up to a collision of the real hash. *)
From Saito Require Import Base Merkle Lite LiteProofs HashBridge LiteBridge.

(* ------------------------------------------------------------------------------------------
   THE PROPERTY AT FULL STRENGTH (false on the pinned code, see the refutations):

     forall b ks, no_spv (b_txs b) -> generated b ->
       exists l c, lite b ks = Ok l /\ receive l = Ok c /\
         b_hdr l = b_hdr b /\ b_hash l = b_hash b /\                              (header, hash)
         filter nonspv (b_txs l) = filter (touches ks) (b_txs b) /\               (relevant, in full, in order)
         b_hash c = b_hash b /\                                                   (wire trip keeps the hash)
         generate_merkle_root l false false = generate_merkle_root b false false /\   (commitment, in memory)
         generate_merkle_root c false false = generate_merkle_root b false false      (commitment, as received)

   It is proved below conjunct by conjunct; three conjuncts need a guard:
     header/hash       unless Known_C18_stale b      (merkle_root field of the full block is not the root of its txs;
                                                      such blocks were accepted by the pinned tree and are rejected
                                                      since fix 22133df, so for chain blocks this guard is now an
                                                      input-validity hypothesis discharged by Block::validate)
     commitment (mem)  unless Known_C18_mem b ks     (a sibling pair 2k,2k+1 omitted as a whole; or an omitted
                                                      transaction with txs_replacements > 1)
     commitment (wire) unless Known_C18_wire b ks    (anything omitted at all)
   and each guard is shown necessary by a refutation.
   ------------------------------------------------------------------------------------------ *)

(* the route never panics and the merge loop terminates (fuel suffices) on a generated full block *)
Theorem C18_total : forall b ks, no_spv (b_txs b) -> all_hashed (b_txs b) ->
  exists l, lite b ks = Ok l.
Proof. exact lite_total. Qed.

(* every header field except merkle_root is copied, hash is copied, and the merkle_root field is the
   root recomputed from the full block's transactions — for EVERY block, no hypothesis *)
Theorem C18_header_fields : forall b ks l, lite b ks = Ok l ->
  b_hash l = b_hash b
  /\ generate_merkle_root b true true = Ok (h_merkle_root (b_hdr l))
  /\ set_merkle_root (b_hdr l) (h_merkle_root (b_hdr b)) = b_hdr b.
Proof. exact header_same_but_root. Qed.

(* id, hash, signature and every header field equal *)
Theorem C18_header_same : forall b ks l, ~ Known_C18_stale b -> lite b ks = Ok l ->
  b_hdr l = b_hdr b /\ b_hash l = b_hash b.
Proof. exact header_guarded. Qed.

(* ... refuted for a block whose merkle_root field is stale: the lite block carries a different
   merkle_root, still advertises the full block's hash, and the client computes another hash.
   (Such blocks were accepted by the pinned tree — Block::validate compared the root only when the
   field was zero — and the harness reproduced this on a chain block; since fix 22133df they are
   rejected, generate_lite_block itself is unchanged.) *)
Theorem C18_header_refuted :
  exists b ks l c, no_spv (b_txs b) /\ generated b /\ lite b ks = Ok l /\ receive l = Ok c /\
    b_hdr l <> b_hdr b /\ b_hash l = b_hash b /\ b_hash c <> b_hash b.
Proof. exact header_refuted. Qed.

(* every transaction with an input or output for a listed key, and every golden ticket, is present
   in full and in order; nothing else of non-placeholder type is — for EVERY block *)
Theorem C18_keeps_relevant : forall b ks l, lite b ks = Ok l ->
  filter nonspv (b_txs l) = filter (fun t => nonspv t && touches ks t) (b_txs b).
Proof. exact keeps_relevant. Qed.

Theorem C18_keeps_relevant_in : forall b ks l t, lite b ks = Ok l ->
  In t (b_txs b) -> is_spv t = false -> touches ks t = true -> In t (b_txs l).
Proof. exact keeps_relevant_in. Qed.

(* "in full" includes the position: every kept transaction has, in the lite block and in the block the
   client generates from it, the tx_index it has in the full block — the placeholders' replacement
   counts add up — so Block::generate writes the same tx_ordinal into its output slips.
   (kept_idx i l = the non-placeholder transactions of l, each with the index Block::generate gives it;
   for a full block these are the positions: kept_idx_full.) *)
Theorem C18_ordinals : forall b ks l, no_spv (b_txs b) -> lite b ks = Ok l ->
  kept_idx 0 (b_txs l) = filter (fun p => touches ks (snd p)) (kept_idx 0 (b_txs b)).
Proof. exact ordinals_preserved. Qed.

Theorem C18_ordinals_wire : forall b ks l c, no_spv (b_txs b) -> lite b ks = Ok l -> receive l = Ok c ->
  map fst (kept_idx 0 (b_txs c)) = map fst (filter (fun p => touches ks (snd p)) (kept_idx 0 (b_txs b))).
Proof. exact ordinals_preserved_wire. Qed.

Theorem C18_full_block_positions : forall l i, no_spv l ->
  map fst (kept_idx i l) = tx_indices i l /\ map snd (kept_idx i l) = l.
Proof. exact kept_idx_full. Qed.

(* the wire trip keeps the hash and the header *)
(* (all_decodable: every GoldenTicket-typed transaction of the block has the 97-byte payload that
   Transaction::deserialize_from_net demands since fix eeb4ec7 — true of any block that was itself
   read with deserialize_from_net, as the route does) *)
Theorem C18_wire_hash : forall b ks l,
  generated b -> ~ Known_C18_stale b -> all_decodable (b_txs b) ->
  (h_merkle_root (b_hdr b) = hzero -> b_txs b = []) ->
  lite b ks = Ok l ->
  exists c, receive l = Ok c /\ b_hash c = b_hash b /\ b_hdr c = b_hdr b.
Proof. exact wire_hash_guarded. Qed.

(* the placeholders suffice to recompute the commitment — in memory *)
Theorem C18_root : forall b ks l, no_spv (b_txs b) -> ~ Known_C18_mem b ks ->
  lite b ks = Ok l ->
  generate_merkle_root l false false = generate_merkle_root b false false.
Proof. exact root_mem_guarded. Qed.

(* smallest witnesses: two transfers, empty key list (the pair is merged into one placeholder with
   txs_replacements = 2, which MerkleTree::generate expands into two identical leaves) *)
Theorem C18_root_refuted :
  exists b ks l, no_spv (b_txs b) /\ generated b /\ root_consistent b /\ lite b ks = Ok l /\
    aligned_omitted ks (b_txs b) = true /\
    generate_merkle_root l false false <> generate_merkle_root b false false.
Proof. exact root_mem_refuted_merge. Qed.

(* ... and: two transfers, the omitted one has txs_replacements = 2 (two leaves in the full tree, one
   leaf for its placeholder); no merge involved *)
Theorem C18_root_refuted_replacements :
  exists b ks l, no_spv (b_txs b) /\ generated b /\ root_consistent b /\ lite b ks = Ok l /\
    aligned_omitted ks (b_txs b) = false /\ omitted_multi ks (b_txs b) = true /\
    generate_merkle_root l false false <> generate_merkle_root b false false.
Proof. exact root_mem_refuted_repl. Qed.

(* the placeholders suffice to recompute the commitment — as received by the light client *)
Theorem C18_root_wire : forall b ks l c, no_spv (b_txs b) -> generated b -> ~ Known_C18_wire b ks ->
  lite b ks = Ok l -> receive l = Ok c ->
  generate_merkle_root c false false = generate_merkle_root b false false.
Proof. exact root_wire_guarded. Qed.

(* smallest witness: one transfer, omitted, nothing merged: the in-memory root is right, the root
   after the wire trip is not (the placeholder's hash is not serialised; the client recomputes it as
   signature[0..32]) *)
Theorem C18_root_wire_refuted :
  exists b ks l c, no_spv (b_txs b) /\ generated b /\ root_consistent b /\ lite b ks = Ok l /\
    receive l = Ok c /\ ~ Known_C18_mem b ks /\
    generate_merkle_root l false false = generate_merkle_root b false false /\
    generate_merkle_root c false false <> generate_merkle_root b false false.
Proof. exact root_wire_refuted. Qed.

(* the classes are exact — on each of them the commitment really fails (free hash: the two roots are
   different expressions; for the real hash: different unless they collide):
   (1) a sibling pair omitted as a whole (no omitted transaction with several leaves) *)
Theorem C18_root_fails_on_merge : forall b ks l,
  no_spv (b_txs b) -> all_hashed (b_txs b) ->
  aligned_omitted ks (b_txs b) = true -> omitted_multi ks (b_txs b) = false ->
  lite b ks = Ok l ->
  generate_merkle_root l false false <> generate_merkle_root b false false.
Proof. exact root_fails_on_merge. Qed.

(* (2) an omitted transaction with txs_replacements > 1 (nothing merged).  The mixed case (1)+(2)
   together is covered by the guard of C18_root but not by an exactness theorem. *)
Theorem C18_root_fails_on_replacements : forall b ks l,
  no_spv (b_txs b) -> all_hashed (b_txs b) ->
  aligned_omitted ks (b_txs b) = false -> omitted_multi ks (b_txs b) = true ->
  lite b ks = Ok l ->
  generate_merkle_root l false false <> generate_merkle_root b false false.
Proof. exact root_fails_on_replacements. Qed.

(* (3) after the wire trip: anything omitted, provided no signature prefix of the block happens to
   equal a transaction hash of the block *)
Theorem C18_root_wire_fails : forall b ks l c,
  no_spv (b_txs b) -> generated b ->
  (forall t u, In t (b_txs b) -> In u (b_txs b) -> t_sig32 t <> t_chash u) ->
  Known_C18_wire b ks ->
  lite b ks = Ok l -> receive l = Ok c ->
  generate_merkle_root c false false <> generate_merkle_root b false false.
Proof. exact root_fails_on_wire. Qed.

(* the in-memory commitment statements for an ARBITRARY concrete hash function H (32-byte output) in
   place of the free terms (proofs/HashBridge.v: ev = the 32 bytes a term stands for; leaf_ok = no
   transaction's signed bytes are exactly 64 bytes long, the one case in which the real code cannot
   tell a leaf from an inner node): outside the class the two roots are the same bytes, whatever H is;
   on the class they differ or the computation exhibits a collision of H *)
Theorem C18_root_concrete : forall (H : list N -> list N) (bytes_of : N -> list N) b ks l r1 r2,
  no_spv (b_txs b) -> ~ Known_C18_mem b ks -> lite b ks = Ok l ->
  generate_merkle_root l false false = Ok r1 -> generate_merkle_root b false false = Ok r2 ->
  ev H bytes_of r1 = ev H bytes_of r2.
Proof. exact root_concrete. Qed.

Theorem C18_root_fails_on_merge_concrete : forall (H : list N -> list N) (bytes_of : N -> list N),
  (forall x, length (H x) = 32%nat) -> (forall a b, bytes_of a = bytes_of b -> a = b) ->
  forall b ks l r1 r2,
  no_spv (b_txs b) -> all_hashed (b_txs b) ->
  aligned_omitted ks (b_txs b) = true -> omitted_multi ks (b_txs b) = false ->
  lite b ks = Ok l ->
  generate_merkle_root l false false = Ok r1 -> generate_merkle_root b false false = Ok r2 ->
  leaf_ok bytes_of r1 -> leaf_ok bytes_of r2 ->
  ev H bytes_of r1 <> ev H bytes_of r2 \/ Collision H.
Proof. exact root_fails_on_merge_concrete. Qed.

Theorem C18_root_fails_on_replacements_concrete : forall (H : list N -> list N) (bytes_of : N -> list N),
  (forall x, length (H x) = 32%nat) -> (forall a b, bytes_of a = bytes_of b -> a = b) ->
  forall b ks l r1 r2,
  no_spv (b_txs b) -> all_hashed (b_txs b) ->
  aligned_omitted ks (b_txs b) = false -> omitted_multi ks (b_txs b) = true ->
  lite b ks = Ok l ->
  generate_merkle_root l false false = Ok r1 -> generate_merkle_root b false false = Ok r2 ->
  leaf_ok bytes_of r1 -> leaf_ok bytes_of r2 ->
  ev H bytes_of r1 <> ev H bytes_of r2 \/ Collision H.
Proof. exact root_fails_on_replacements_concrete. Qed.

(* the /lite-block/<hash>/<key> route (network_controller.rs): whatever it serves is the wire form of
   the lite block of the stored block, for a key list that contains the requester's key and every key
   the requester registered as a peer; so the theorems above apply to what a light client is sent *)
Theorem C18_route_served : forall own k peers disk w,
  route own k peers (Some disk) = RServed (Ok w) ->
  exists key b l,
    route_key own k = Some key /\ receive disk = Ok b /\
    lite b (route_keylist peers key) = Ok l /\ w = wire l /\
    In key (route_keylist peers key) /\
    (forall kl, aget key peers = Some kl -> forall x, In x kl -> In x (route_keylist peers key)).
Proof. exact route_served. Qed.

(* the guards are decidable classes *)
Theorem C18_known_decidable : forall b ks,
  ({Known_C18_mem b ks} + {~ Known_C18_mem b ks}) *
  ({Known_C18_wire b ks} + {~ Known_C18_wire b ks}) *
  ({Known_C18_stale b} + {~ Known_C18_stale b}).
Proof.
  intros b ks. exact (Known_C18_mem_dec b ks, Known_C18_wire_dec b ks, Known_C18_stale_dec b).
Qed.

(* non-vacuity: a generated full block with three transfers and a golden ticket, key list touching
   two transfers: outside every known class for the in-memory statements, lite block has one placeholder *)
Example C18_example :
  let b := wblock (Node (Node (Leaf 10) (Leaf 11)) (Node (Leaf 12) (Leaf 13)))
             [mkTx TY_GT 1 110 20 1000 [30] [30] 210 97 10 (Some (Leaf 10));
              wtx 11 21 31 41 1; wtx 12 22 32 42 1; wtx 13 23 33 43 1] in
  let ks := [41; 33] in
  no_spv (b_txs b) /\ generated b /\ ~ Known_C18_stale b /\ ~ Known_C18_mem b ks /\
  exists l, lite b ks = Ok l /\ length (filter is_spv (b_txs l)) = 1%nat /\ length (b_txs l) = 4%nat.
Proof.
  cbv zeta. split; [repeat (constructor; try reflexivity)|].
  split; [apply wblock_generated; repeat (constructor; try reflexivity)|].
  split; [intro H; vm_compute in H; discriminate|].
  split; [intros [H|H]; vm_compute in H; discriminate|].
  eexists. split; [vm_compute; reflexivity|]. split; reflexivity.
Qed.

Print Assumptions C18_total.
Print Assumptions C18_header_fields.
Print Assumptions C18_header_same.
Print Assumptions C18_header_refuted.
Print Assumptions C18_keeps_relevant.
Print Assumptions C18_keeps_relevant_in.
Print Assumptions C18_ordinals.
Print Assumptions C18_ordinals_wire.
Print Assumptions C18_full_block_positions.
Print Assumptions C18_wire_hash.
Print Assumptions C18_root.
Print Assumptions C18_root_refuted.
Print Assumptions C18_root_refuted_replacements.
Print Assumptions C18_root_wire.
Print Assumptions C18_root_wire_refuted.
Print Assumptions C18_root_fails_on_merge.
Print Assumptions C18_root_fails_on_replacements.
Print Assumptions C18_root_wire_fails.
Print Assumptions C18_root_concrete.
Print Assumptions C18_root_fails_on_merge_concrete.
Print Assumptions C18_root_fails_on_replacements_concrete.
Print Assumptions C18_route_served.
Print Assumptions C18_known_decidable.
