(* C19 — Wallet accounting matches the ledger.
   Only statements here; proofs are in proofs/WalletProofs.v and
   proofs/WalletLedgerProofs.v.

   [run dbg (init pk) ops]: every sequence of wallet operations — blocks wound and
   unwound (any content: payments to / from the wallet's key, NFT groups, SPV
   entries), add_slip / delete_slip, window expiry (remove_old_slips), pruning
   (delete_block), outgoing transactions of arbitrary amount / fee built with any
   hash-set iteration order, staking transactions, pending insertions,
   update_from_balance_snapshot, reset.
   [dbg = true]: overflow checks on (debug profile: a u64 overflow is a Panic);
   [dbg = false]: release profile (wraps).  [ops_u64]: the amounts in the
   operations are u64 values. *)
From Saito Require Import Base Wallet WalletProofs WalletLedgerProofs.

(* ---- (1) the balance is the sum of the unspent outputs ---- *)

(* debug profile: exactly *)
Theorem C19_balance_is_sum : forall pk ops w,
  ops_u64 ops -> run true (init pk) ops = Ok w -> w_balance w = sum_unspent w.
Proof. exact balance_is_sum_debug. Qed.

(* either profile: modulo 2^64, hence exactly whenever the wallet holds less than
   2^64 (on a real ledger the total supply is below 2^64) *)
Theorem C19_balance_is_sum_mod : forall dbg pk ops w,
  ops_u64 ops -> run dbg (init pk) ops = Ok w -> w_balance w = sum_unspent w mod W64.
Proof. exact balance_is_sum_mod. Qed.

Theorem C19_balance_is_sum_bounded : forall dbg pk ops w,
  ops_u64 ops -> run dbg (init pk) ops = Ok w -> sum_unspent w < W64 ->
  w_balance w = sum_unspent w.
Proof. exact balance_is_sum_bounded. Qed.

(* hence `available_balance -= amount` never underflows (delete_slip,
   generate_slips, find_slips_for_staking) *)
Theorem C19_no_underflow_panic : forall dbg pk ops,
  ops_u64 ops -> run dbg (init pk) ops <> Panic SITE_BAL_SUB.
Proof. exact no_underflow_panic. Qed.

(* ---- (2) transactions the wallet builds ----
   Full statement (REFUTED on the pinned code, four ways, see below):

     forall dbg pk ops w order keys pays fee latest gp w' t,
       ops_u64 ops -> run dbg (init pk) ops = Ok w ->
       enumerates order (w_unspent w) = true ->
       create dbg w order keys pays fee latest gp = Ok (w', Built t) ->
       NoDup (map slip_key (bt_from t)) /\
       sum_amt (bt_to t) <= sum_amt (bt_from t) /\
       (forall i, In i (bt_from t) -> 0 < s_amt i -> In (slip_key i) (w_unspent w)) /\
       sum_amt (bt_from t) = sum_amt (bt_to t) + fee_eff w fee
*)

(* window edge: slips "about to be rebroadcast" are skipped by generate_slips but
   counted in available_balance; the transaction is built with inputs < outputs *)
Theorem C19_built_tx_ok_refuted_edge :
  exists ops w order keys pays fee latest gp w' t,
    run true (init 1) ops = Ok w /\ enumerates order (w_unspent w) = true /\
    create true w order keys pays fee latest gp = Ok (w', Built t) /\
    sum_amt (bt_from t) < sum_amt (bt_to t).
Proof. exact refuted_edge. Qed.

(* total_payment + fee wraps in the release profile *)
Theorem C19_built_tx_ok_refuted_wrap :
  exists ops w order keys pays fee latest gp w' t,
    run false (init 1) ops = Ok w /\ enumerates order (w_unspent w) = true /\
    create false w order keys pays fee latest gp = Ok (w', Built t) /\
    sum_amt (bt_from t) < sum_amt (bt_to t).
Proof. exact refuted_wrap. Qed.

(* more than 255 selected inputs: add_from_slip silently drops the rest, which the
   wallet has nevertheless marked as spent *)
Theorem C19_built_tx_ok_refuted_cap :
  exists ops w order keys pays fee latest gp w' t,
    run true (init 1) ops = Ok w /\ enumerates order (w_unspent w) = true /\
    create true w order keys pays fee latest gp = Ok (w', Built t) /\
    sum_amt (bt_from t) < sum_amt (bt_to t).
Proof. exact refuted_cap. Qed.

(* unwinding a block re-adds the inputs it spent under the SPENDING block's id and
   transaction index; a transaction built afterwards references an output that is
   not one the wallet lists as unspent (and does not exist in the ledger) *)
Theorem C19_built_tx_ok_refuted_stale :
  exists ops w order keys pays fee latest gp w' t i,
    run true (init 1) ops = Ok w /\ enumerates order (w_unspent w) = true /\
    create true w order keys pays fee latest gp = Ok (w', Built t) /\
    In i (bt_from t) /\ 0 < s_amt i /\ ~ In (slip_key i) (w_unspent w).
Proof. exact refuted_stale. Qed.

(* not a defect of create_with_multiple_payments but of the same clause ("never reference the
   same output twice"): update_from_balance_snapshot does not clear staking_slips and files
   every slip, BlockStake included, under unspent_slips; create_staking_transaction then takes
   the staked output from both sets *)
Theorem C19_staking_tx_refuted_snapshot :
  exists ops w sorder uorder amount unlocked lastvalid w' t,
    ops_u64 ops /\ run true (init 1) ops = Ok w /\
    enumerates sorder (w_staking w) = true /\ enumerates uorder (w_unspent w) = true /\
    create_staking true w sorder uorder amount unlocked lastvalid = Ok (w', Some t) /\
    ~ NoDup (map s_key (bt_from t)).
Proof. exact refuted_snapshot_staking. Qed.

(* outside the four classes ([Known_C19], decidable, defined on the call) every
   built transaction is fine; [Exact w] holds for every state reachable with
   overflow checks, and for every state whose balance did not wrap *)
Theorem C19_built_tx_ok : forall dbg w order keys pays fee latest gp w' t,
  Exact w -> enumerates order (w_unspent w) = true ->
  Known_C19 w order pays fee latest gp = false ->
  create dbg w order keys pays fee latest gp = Ok (w', Built t) ->
  NoDup (map slip_key (bt_from t)) /\
  sum_amt (bt_to t) <= sum_amt (bt_from t) /\
  (forall i, In i (bt_from t) -> 0 < s_amt i -> In (slip_key i) (w_unspent w)) /\
  ((length pays <= 254)%nat -> sum_amt (bt_from t) = sum_amt (bt_to t) + fee_eff w fee).
Proof. exact built_tx_ok. Qed.

Theorem C19_reachable_exact : forall pk ops w,
  ops_u64 ops -> run true (init pk) ops = Ok w -> Exact w.
Proof. exact run_debug_Exact. Qed.

Theorem C19_reachable_exact_release : forall pk ops w,
  ops_u64 ops -> run false (init pk) ops = Ok w -> sum_unspent w < W64 -> Exact w.
Proof. exact run_release_Exact. Qed.

(* ---- (3) on a chain without reorganisation the unspent set is the ledger's ----
   [chain_run]: blocks wound in order (Blockchain::add_block: wallet wind, ledger
   wind, delete_block of the block 2*gp back), interleaved with transactions built
   by the wallet; [c_committed]: the outputs the wallet selected for them.
   [chain_wf]: consecutive ids from 1, blocks as Block::generate leaves them
   (cached key = computed key, outputs carry the block id and transaction index),
   inputs reference outputs of earlier blocks, no Bound slips (NFT groups are
   outside this theorem), a block beyond the window is non-empty (Block::validate
   rejects empty blocks).  Purging of the ledger itself (it only removes keys
   older than 2*gp) is not part of [ledger_wind]. *)
Theorem C19_matches_ledger : forall dbg pk gp ops st,
  1 <= gp -> chain_wf gp 0 ops ->
  chain_run dbg gp (cinit pk) ops = Ok st ->
  forall k, In k (w_unspent (c_w st)) <->
            In k (ledger_mine pk gp (c_top st) (c_u st)) /\ ~ In k (c_committed st).
Proof. exact matches_ledger. Qed.

(* and there no stored slip is stale, i.e. the fourth class needs an unwind *)
Theorem C19_no_stale_without_reorg : forall dbg pk gp ops st,
  1 <= gp -> chain_wf gp 0 ops ->
  chain_run dbg gp (cinit pk) ops = Ok st ->
  forall k, stale pk (w_slips (c_w st)) k = false.
Proof. exact no_stale_on_chain. Qed.

(* ---- non-vacuity ---- *)
Example C19_example_reach :
  exists w, run true (init 1) ex_ops = Ok w /\ w_balance w = 1100 /\ length (w_unspent w) = 2%nat.
Proof. eexists. split; [vm_compute; reflexivity|split; reflexivity]. Qed.

Example C19_example_built :
  exists w w' t, run true (init 1) ex_ops = Ok w /\
    Known_C19 w ex_order [700; 50] 3 9 5 = false /\
    create true w ex_order [2; 3] [700; 50] 3 9 5 = Ok (w', Built t) /\
    sum_amt (bt_from t) = 1100 /\ sum_amt (bt_to t) = 1097.
Proof. do 3 eexists. split; [vm_compute; reflexivity|]. repeat split; vm_compute; reflexivity. Qed.

Example C19_example_chain :
  exists st, chain_wf 3 0 ex_chain /\ chain_run true 3 (cinit 1) ex_chain = Ok st /\
             c_top st = 6 /\ length (w_unspent (c_w st)) = 2%nat /\ length (c_committed st) = 2%nat.
Proof. eexists. split; [exact ex_chain_wf|]. split; [vm_compute; reflexivity|repeat split; reflexivity]. Qed.

Print Assumptions C19_balance_is_sum.
Print Assumptions C19_balance_is_sum_mod.
Print Assumptions C19_balance_is_sum_bounded.
Print Assumptions C19_no_underflow_panic.
Print Assumptions C19_built_tx_ok_refuted_edge.
Print Assumptions C19_built_tx_ok_refuted_wrap.
Print Assumptions C19_built_tx_ok_refuted_cap.
Print Assumptions C19_built_tx_ok_refuted_stale.
Print Assumptions C19_staking_tx_refuted_snapshot.
Print Assumptions C19_built_tx_ok.
Print Assumptions C19_reachable_exact.
Print Assumptions C19_reachable_exact_release.
Print Assumptions C19_matches_ledger.
Print Assumptions C19_no_stale_without_reorg.
