(* C19 — Wallet accounting matches the ledger.
   Only statements here; proofs are in proofs/WalletProofs.v and
   proofs/WalletLedgerProofs.v.

   [run dbg (init pk) ops]: every sequence of wallet operations — blocks wound and
   unwound (any content: payments to / from the wallet's key, NFT groups, SPV
   entries), add_slip / delete_slip, window expiry (remove_old_slips), pruning
   (delete_block), outgoing transactions of arbitrary amount / fee built with any
   hash-set iteration order, staking transactions, pending insertions,
   update_from_balance_snapshot, reset.
   [dbg = true]: overflow checks on (debug profile: a u64 overflow is a Panic);
   [dbg = false]: release profile (wraps).  [ops_u64]: the amounts in the
   operations are u64 values. *)
From Saito Require Import Base Wallet WalletProofs WalletLedgerProofs.

(* ---- (1) the balance is the sum of the unspent outputs ---- *)

(* debug profile: exactly *)
Theorem C19_balance_is_sum : forall pk ops w,
  ops_u64 ops -> run true (init pk) ops = Ok w -> w_balance w = sum_unspent w.
Proof. exact balance_is_sum_debug. Qed.

(* either profile: modulo 2^64, hence exactly whenever the wallet holds less than
   2^64 (on a real ledger the total supply is below 2^64) *)
Theorem C19_balance_is_sum_mod : forall dbg pk ops w,
  ops_u64 ops -> run dbg (init pk) ops = Ok w -> w_balance w = sum_unspent w mod W64.
Proof. exact balance_is_sum_mod. Qed.

Theorem C19_balance_is_sum_bounded : forall dbg pk ops w,
  ops_u64 ops -> run dbg (init pk) ops = Ok w -> sum_unspent w < W64 ->
  w_balance w = sum_unspent w.
Proof. exact balance_is_sum_bounded. Qed.

(* hence `available_balance -= amount` never underflows (delete_slip,
   generate_slips, find_slips_for_staking) *)
Theorem C19_no_underflow_panic : forall dbg pk ops,
  ops_u64 ops -> run dbg (init pk) ops <> Panic SITE_BAL_SUB.
Proof. exact no_underflow_panic. Qed.

(* ---- (2) transactions the wallet builds ----
   Full statement (REFUTED on the code at /repo HEAD, two ways, see below):

     forall dbg pk ops w order keys pays fee latest gp w' t,
       ops_u64 ops -> (forall o, In o ops -> op_ns pk o) -> run dbg (init pk) ops = Ok w ->
       enumerates order (w_unspent w) = true ->
       create dbg w order keys pays fee latest gp = Ok (w', Built t) ->
       NoDup (map slip_key (bt_from t)) /\
       sum_amt (bt_to t) <= sum_amt (bt_from t) /\
       (forall i, In i (bt_from t) -> 0 < s_amt i -> In (slip_key i) (w_unspent w)) /\
       sum_amt (bt_from t) = sum_amt (bt_to t) + fee_eff w fee

   Four more defects of this clause were found with this package and have been
   repaired in /repo (2da67eb u64 wrap of payments + fee, 953d536 stale coordinates
   after an unwind, bc2e87e balance snapshot vs staking set, e604c7e NFT mint input);
   the first three are regression Examples below, the model follows the repaired code.
*)

(* window edge: slips "about to be rebroadcast" are skipped by generate_slips but
   counted in available_balance; the transaction is built with inputs < outputs *)
Theorem C19_built_tx_ok_refuted_edge :
  exists ops w order keys pays fee latest gp w' t,
    run true (init 1) ops = Ok w /\ enumerates order (w_unspent w) = true /\
    create true w order keys pays fee latest gp = Ok (w', Built t) /\
    sum_amt (bt_from t) < sum_amt (bt_to t).
Proof. exact refuted_edge. Qed.

(* more than 255 selected inputs: add_from_slip silently drops the rest, which the
   wallet has nevertheless marked as spent *)
Theorem C19_built_tx_ok_refuted_cap :
  exists ops w order keys pays fee latest gp w' t,
    run true (init 1) ops = Ok w /\ enumerates order (w_unspent w) = true /\
    create true w order keys pays fee latest gp = Ok (w', Built t) /\
    sum_amt (bt_from t) < sum_amt (bt_to t).
Proof. exact refuted_cap. Qed.

(* outside the two classes ([Known_C19], decidable, defined on the call) every built
   transaction is fine, in either profile; [Exact w] and [NoStale w] hold for the
   reachable states (next three theorems) *)
Theorem C19_built_tx_ok : forall dbg w order keys pays fee latest gp w' t,
  Exact w -> NoStale w -> enumerates order (w_unspent w) = true ->
  Known_C19 w order pays fee latest gp = false ->
  create dbg w order keys pays fee latest gp = Ok (w', Built t) ->
  NoDup (map slip_key (bt_from t)) /\
  sum_amt (bt_to t) <= sum_amt (bt_from t) /\
  (forall i, In i (bt_from t) -> 0 < s_amt i -> In (slip_key i) (w_unspent w)) /\
  ((length pays <= 254)%nat -> sum_amt (bt_from t) = sum_amt (bt_to t) + fee_eff w fee).
Proof. exact built_tx_ok. Qed.

(* no stored slip has coordinates that disagree with its key, for every operation
   sequence whose callers respect [op_ns]: add_slip is given the slip's own block id /
   index and the wallet's key, wound blocks are as Block::generate leaves them, snapshot
   slips carry their own key.  NOTHING is required of unwound blocks (953d536) *)
Theorem C19_no_stale : forall dbg pk ops w,
  (forall o, In o ops -> op_ns pk o) -> run dbg (init pk) ops = Ok w -> NoStale w.
Proof. exact no_stale_reachable. Qed.

Theorem C19_reachable_exact : forall pk ops w,
  ops_u64 ops -> run true (init pk) ops = Ok w -> Exact w.
Proof. exact run_debug_Exact. Qed.

Theorem C19_reachable_exact_release : forall pk ops w,
  ops_u64 ops -> run false (init pk) ops = Ok w -> sum_unspent w < W64 -> Exact w.
Proof. exact run_release_Exact. Qed.

(* ---- (3) on a chain without reorganisation the unspent set is the ledger's ----
   [chain_run]: blocks wound in order (Blockchain::add_block: wallet wind, ledger
   wind, delete_block of the block 2*gp back), interleaved with transactions built
   by the wallet; [c_committed]: the outputs the wallet selected for them.
   [chain_wf]: consecutive ids from 1, blocks as Block::generate leaves them
   (cached key = computed key, outputs carry the block id and transaction index),
   inputs reference outputs of earlier blocks, no Bound slips (NFT groups are
   outside this theorem), a block beyond the window is non-empty (Block::validate
   rejects empty blocks).  Purging of the ledger itself (it only removes keys
   older than 2*gp) is not part of [ledger_wind]. *)
Theorem C19_matches_ledger : forall dbg pk gp ops st,
  1 <= gp -> chain_wf gp 0 ops ->
  chain_run dbg gp (cinit pk) ops = Ok st ->
  forall k, In k (w_unspent (c_w st)) <->
            In k (ledger_mine pk gp (c_top st) (c_u st)) /\ ~ In k (c_committed st).
Proof. exact matches_ledger. Qed.

(* and there no stored slip is stale, i.e. the fourth class needs an unwind *)
Theorem C19_no_stale_without_reorg : forall dbg pk gp ops st,
  1 <= gp -> chain_wf gp 0 ops ->
  chain_run dbg gp (cinit pk) ops = Ok st ->
  forall k, stale pk (w_slips (c_w st)) k = false.
Proof. exact no_stale_on_chain. Qed.

(* ---- regressions of the repaired defects ---- *)
Example C19_regress_wrap : forall dbg,
  exists w, run dbg (init 1) [OWind (pay_block 1 1 1000) 5] = Ok w /\
    create dbg w [mkK 1 1 0 0 1000 0] [2] [18446744073709551615] 2 1 5 = Ok (w, ErrInvalidInput) /\
    create dbg w [mkK 1 1 0 0 1000 0] [2; 3] [18446744073709551615; 1] 0 1 5 = Ok (w, ErrInvalidInput).
Proof. exact regress_wrap. Qed.

Example C19_regress_stale :
  exists w w' t, run true (init 1) wit_stale_ops = Ok w /\ NoStale w /\
    create true w [mkK 1 1 0 0 1000 0] [2] [400] 0 2 5 = Ok (w', Built t) /\
    map slip_key (bt_from t) = [mkK 1 1 0 0 1000 0] /\ w_unspent w = [mkK 1 1 0 0 1000 0] /\
    sum_amt (bt_from t) = 1000 /\ sum_amt (bt_to t) = 1000.
Proof. exact regress_stale. Qed.

Example C19_regress_snapshot_staking :
  exists w w' t, ops_u64 wit_snapshot_ops /\ run true (init 1) wit_snapshot_ops = Ok w /\
    w_staking w = [mkK 1 4 2 1 645 8] /\ w_unspent w = [] /\ w_balance w = 0 /\
    create_staking true w [mkK 1 4 2 1 645 8] [] 600 10 0 = Ok (w', Some t) /\
    map s_key (bt_from t) = [mkK 1 4 2 1 645 8].
Proof. exact regress_snapshot_staking. Qed.

(* ---- non-vacuity ---- *)
Example C19_example_reach :
  exists w, run true (init 1) ex_ops = Ok w /\ w_balance w = 1100 /\ length (w_unspent w) = 2%nat.
Proof. eexists. split; [vm_compute; reflexivity|split; reflexivity]. Qed.

Example C19_example_built :
  exists w w' t, run true (init 1) ex_ops = Ok w /\
    Known_C19 w ex_order [700; 50] 3 9 5 = false /\
    create true w ex_order [2; 3] [700; 50] 3 9 5 = Ok (w', Built t) /\
    sum_amt (bt_from t) = 1100 /\ sum_amt (bt_to t) = 1097.
Proof. do 3 eexists. split; [vm_compute; reflexivity|]. repeat split; vm_compute; reflexivity. Qed.

Example C19_example_chain :
  exists st, chain_wf 3 0 ex_chain /\ chain_run true 3 (cinit 1) ex_chain = Ok st /\
             c_top st = 6 /\ length (w_unspent (c_w st)) = 2%nat /\ length (c_committed st) = 2%nat.
Proof. eexists. split; [exact ex_chain_wf|]. split; [vm_compute; reflexivity|repeat split; reflexivity]. Qed.

Print Assumptions C19_balance_is_sum.
Print Assumptions C19_balance_is_sum_mod.
Print Assumptions C19_balance_is_sum_bounded.
Print Assumptions C19_no_underflow_panic.
Print Assumptions C19_built_tx_ok_refuted_edge.
Print Assumptions C19_built_tx_ok_refuted_cap.
Print Assumptions C19_built_tx_ok.
Print Assumptions C19_no_stale.
Print Assumptions C19_reachable_exact.
Print Assumptions C19_reachable_exact_release.
Print Assumptions C19_matches_ledger.
Print Assumptions C19_no_stale_without_reorg.
