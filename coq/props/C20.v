(* C20 — Shared locks are taken in the documented global order
   (configuration < blockchain < mempool < peers < wallet); no set of tasks can deadlock on them.
   Only statements here; definitions in model/LockOrder.v, proofs in proofs/LockOrderProofs.v.

   The object the theorems talk about, [LockGraph.repo_graph], is regenerated from the Rust sources of
   /repo by /verif/srcfacts on every check (gen/LockGraph.v): per function, the acquisitions, releases
   and calls in evaluation order, guard live ranges following Rust's drop rules.

   FULL STATEMENT (what the property asks):   check repo_graph not_linked [] = true,
   i.e. by [C20_check_sound] every acquisition on every call path is in strictly increasing rank order,
   and by [C20_no_deadlock] no set of tasks deadlocks on the five locks.
   The pinned tree VIOLATES it at the sites of [LockOrder.known_sites] (each confirmed by reading the
   source, see /verif/known_findings.txt); what is proved about the tree is the statement for all paths
   that do not go through a listed site: [C20_repo] + [C20_check_sound] + [C20_no_deadlock]. *)
From Saito Require Import Base LockOrder LockOrderProofs LockSched LockSchedProofs LockGraph.
From Coq Require Import String Relation_Operators.

(* (a) the static checker is sound for the path semantics of any graph, at every call depth:
   on a path that does not enter a callee through a listed call site, every acquisition at an unlisted
   site takes a lock ranked strictly above every shared lock held in any frame of the task
   (or the task is inside the universal wasm gate, which [check] accepts only if every export is gated) *)
Theorem C20_check_sound : forall g nl known, check g nl known = true ->
  forall o h l m site es, reach known g o h (Acq l m site :: es) -> in_known known site = false ->
  forall x, In x (h ++ o) -> lock_lt x l \/ In LSaito (h ++ o).
Proof. exact check_sound_known. Qed.

(* the same with no listed site: the full-strength statement for a graph that passes with [] *)
Theorem C20_check_sound_full : forall g nl, check g nl [] = true ->
  forall o h l m site es, reach [] g o h (Acq l m site :: es) ->
  forall x, In x (h ++ o) -> lock_lt x l \/ In LSaito (h ++ o).
Proof. exact check_sound. Qed.

(* (b) classical argument, with tokio's fair queue: if every task only waits for a lock ranked strictly
   above all locks it holds, the blocked-by relation has no cycle *)
Theorem C20_ordered_no_deadlock : forall (L : Type) (rk : L -> nat) (ts : list (@task L)),
  Forall (ordered_task rk) ts -> ~ deadlocked rk ts.
Proof. exact @ordered_no_deadlock. Qed.

(* (a)+(b): tasks stopped at acquisition points reachable in a checked graph cannot deadlock *)
Theorem C20_no_deadlock : forall g nl known, check g nl known = true ->
  forall ts, Forall (from_graph known g) ts -> ~ deadlocked rk5 ts.
Proof. exact no_deadlock_from_check. Qed.

(* the ranks used are the LOCK_ORDER constants of saito-core/src/core/defs.rs as they are now *)
Theorem C20_ranks_match_source :
  forallb (fun p => existsb (fun q => String.eqb (fst p) (fst q) && N.eqb (snd p) (snd q)) lock_order_consts)
          rank_table = true.
Proof. vm_compute. reflexivity. Qed.

(* ---- per run, over the graph extracted from the sources as they are now ---- *)
(* size of the extracted graph: functions (incl. spawned-task roots), acquisition sites, call edges;
   then: (held shared lock, acquired shared lock) pairs compared by the checker, functions with such a pair *)
Eval vm_compute in (List.length repo_graph, count_acq repo_graph, count_edges repo_graph, count_pairs repo_graph).
(* every order violation the checker finds (function, held lock, site, lock acquired directly or by a
   callee, under the wasm gate?) -- an unlisted entry here is what makes [C20_repo] fail *)
Eval vm_compute in (violations repo_graph).
(* wasm exports that touch a shared lock outside the SAITO gate (non-empty => the gate is not universal,
   so violations under the gate are not excused) *)
Eval vm_compute in (ungated repo_graph).
(* listed sites that no longer violate (stale entries of known_sites; informational) *)
Eval vm_compute in (stale repo_graph known_sites).
(* listed sites that are reproduced on the sources as they are now (between the two markers in the build log) *)
Goal True. idtac "@@C20-KNOWN-REPRODUCED-BEGIN". Abort.
Eval vm_compute in
  (filter (fun k => existsb (fun v => String.eqb (v_site v) k) (violations repo_graph)) known_sites).
Goal True. idtac "@@C20-KNOWN-REPRODUCED-END". Abort.
(* functions the translator did not link same-named calls to and that are NOT lock-free: must be empty *)
Eval vm_compute in
  (let s := summaries repo_graph in
   map f_name (filter (fun f => existsb (Pos.eqb (f_id f)) not_linked && negb (lock_free s (f_id f))) repo_graph)).

(* violations that [check] does not accept (site not listed in LockOrder.known_sites, not excused by a
   universal wasm gate): must be empty.  When [C20_repo] below fails these lines name the offending sites --
   "site : holds H, then acquires L directly | via f1 -> f2 -> acquisition site'" -- and bin/check copies
   them from the build log (between the markers) into the replay file *)
Goal True. idtac "@@C20-VIOLATIONS-BEGIN". Abort.
Eval vm_compute in
  (explain repo_graph known_sites ++ explain_pairs repo_graph ++ explain_ungated repo_graph)%list.
Goal True. idtac "@@C20-VIOLATIONS-END". Abort.

(* ---- the converse direction: concrete deadlock schedules ----
   (c) a schedule accepted by the validator is a set of tasks that the path semantics of the graph really
   brings in front of the acquisitions they wait for, holding the locks of the snapshot, and the snapshot is
   deadlocked; hence some task of it is not ordered.  The validator additionally checks guard modes (see
   model/LockSched.v).  The search that proposes schedules is not trusted. *)
Theorem C20_schedule_sound : forall g sc ts, valid_sched g sc = Some ts ->
  Forall (at_acquisition g) ts /\ deadlocked rk5 ts.
Proof. exact valid_sched_sound. Qed.

Theorem C20_schedule_unordered : forall g sc ts, valid_sched g sc = Some ts -> ~ Forall (ordered_task rk5) ts.
Proof. exact valid_sched_unordered. Qed.

(* coherence of the two directions: a graph with a validated schedule outside the wasm gate is rejected by
   the checker when no site is listed -- a schedule can never be "found" in a graph that passes [check g nl []] *)
Theorem C20_schedule_implies_rejected : forall g sc ts, valid_sched g sc = Some ts -> gate_free g sc = true ->
  forall nl, check g nl [] = false.
Proof. exact valid_sched_check_rejects. Qed.

(* non-vacuity: the excerpt plus an ordered block-processing function has a validated two-task schedule
   (handshake task two frames deep), found by the search as well *)
Example C20_excerpt_schedule :
  valid_sched excerpt2 [mkST 1 [Step; Enter 2; Step] 1; mkST 3 [Step] 1] <> None
  /\ gate_free excerpt2 [mkST 1 [Step; Enter 2; Step] 1; mkST 3 [Step] 1] = true
  /\ existsb (fun x => match snd x with Some _ => true | None => false end) (find_schedules excerpt2 (fun _ => true)) = true.
Proof. split; [vm_compute; discriminate | split; vm_compute; reflexivity]. Qed.

(* schedules for the violations that [check] does not accept (must be empty on the unchanged tree); bin/check
   copies these lines into the replay file: a line with a DEADLOCK SCHEDULE is a concrete failing history of the
   model, validated by [valid_sched] inside this very evaluation *)
Goal True. idtac "@@C20-SCHEDULES-BEGIN". Abort.
Eval vm_compute in (map (show_schedule repo_graph) (schedules_for repo_graph (unaccepted repo_graph))).
Goal True. idtac "@@C20-SCHEDULES-END". Abort.
(* informational: schedules for the listed findings (wasm runtime only: exports outside the SAITO gate are the
   only possible partners of a gated export) *)
Goal True. idtac "@@C20-KNOWN-SCHEDULES-BEGIN". Abort.
Eval vm_compute in (map (show_schedule repo_graph) (find_schedules repo_graph (in_known known_sites))).
Goal True. idtac "@@C20-KNOWN-SCHEDULES-END". Abort.

Theorem C20_repo : check repo_graph not_linked known_sites = true.
Proof. vm_compute. reflexivity. Qed.

(* a listed site excuses only the listed (held, acquired) pairs *)
Theorem C20_known_pairs_pinned : pairs_pinned repo_graph = true.
Proof. vm_compute. reflexivity. Qed.

(* the wasm gate: every export that touches a shared lock outside the SAITO mutex is one of the reviewed
   [known_ungated]; an export that newly loses or delays its gate breaks this obligation *)
Theorem C20_ungated_pinned : ungated_pinned repo_graph = true.
Proof. vm_compute. reflexivity. Qed.

(* ---- non-vacuity ---- *)
(* the three functions behind DESIGN 9 row 18, transcribed by hand from the pinned source: the path
   semantics does contain the unordered acquisition (peers held in the caller, blockchain taken two
   frames below), and the checker rejects the excerpt *)
Example C20_excerpt_unordered :
  reach [] excerpt [LPeers] [LCfg] [Acq LBlockchain Read "rb#1"; Rel LBlockchain; Rel LCfg]
  /\ bad LPeers LBlockchain = true
  /\ check excerpt [] [] = false
  /\ check excerpt [] ["hr#c0"%string] = true.
Proof.
  repeat split; try (vm_compute; reflexivity).
  apply (reach_next [] excerpt [LPeers] [] (Acq LCfg Read "rb#0")).
  apply (reach_call [] excerpt [] [LPeers] "hr#c0" [2%positive] [Rel LPeers] 2%positive
                    (mkFn 2 "Network::request_blockchain_from_peer" Core Plain
                       [Acq LCfg Read "rb#0"; Acq LBlockchain Read "rb#1"; Rel LBlockchain; Rel LCfg]));
    try (vm_compute; reflexivity); [| left; reflexivity].
  apply (reach_next [] excerpt [] [] (Acq LPeers Write "hr#0")).
  apply (reach_root [] excerpt (mkFn 1 "Network::handle_handshake_response" Core Plain
      [Acq LPeers Write "hr#0"; Call "hr#c0" [2%positive]; Rel LPeers])).
  left; reflexivity.
Qed.

(* the deadlock such a site makes possible: task 1 (handshake) holds peers and waits for the blockchain
   lock; task 2 (block processing, ordered) holds blockchain and waits for peers *)
Example C20_two_task_deadlock :
  let t1 := mkTask [LPeers] (Some (LBlockchain, 0%nat)) in
  let t2 := mkTask [LBlockchain] (Some (LPeers, 0%nat)) in
  deadlocked rk5 [t1; t2] /\ ~ ordered_task rk5 t1 /\ ordered_task rk5 t2.
Proof.
  intros t1 t2; repeat split.
  - exists t1; apply t_trans with t2; apply t_step; unfold blocked_by; simpl;
      (split; [tauto |]; split; [tauto |]).
    + exists LBlockchain, 0%nat; split; [reflexivity | left; simpl; tauto].
    + exists LPeers, 0%nat; split; [reflexivity | left; simpl; tauto].
  - intros H; specialize (H LBlockchain 0%nat eq_refl LPeers (or_introl eq_refl)); vm_compute in H; lia.
  - intros w k Hw h Hh; simpl in Hw; injection Hw as <- <-; simpl in Hh; destruct Hh as [<- | []]; vm_compute; lia.
Qed.

(* read/read on one lock: the second read queues behind a writer that arrived in between *)
Example C20_reentrant_read_deadlock :
  let t1 := mkTask [LBlockchain] (Some (LBlockchain, 2%nat)) in     (* holds a read guard, asks again *)
  let t2 := mkTask [] (Some (LBlockchain, 1%nat)) in                 (* writer queued before t1's 2nd read *)
  deadlocked rk5 [t1; t2] /\ ~ ordered_task rk5 t1.
Proof.
  intros t1 t2; split.
  - exists t1; apply t_trans with t2; apply t_step; unfold blocked_by; simpl;
      (split; [tauto |]; split; [tauto |]).
    + exists LBlockchain, 2%nat; split; [reflexivity |].
      right; exists LBlockchain, 1%nat; repeat split; lia.
    + exists LBlockchain, 1%nat; split; [reflexivity | left; simpl; tauto].
  - intros H; specialize (H LBlockchain 2%nat eq_refl LBlockchain (or_introl eq_refl)); lia.
Qed.

Print Assumptions C20_check_sound.
Print Assumptions C20_check_sound_full.
Print Assumptions C20_ordered_no_deadlock.
Print Assumptions C20_no_deadlock.
Print Assumptions C20_ranks_match_source.
Print Assumptions C20_schedule_sound.
Print Assumptions C20_schedule_unordered.
Print Assumptions C20_schedule_implies_rejected.
Print Assumptions C20_repo.
Print Assumptions C20_known_pairs_pinned.
Print Assumptions C20_ungated_pinned.
