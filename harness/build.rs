//! Extracts source text from the repository the harness is built against (the checkout that
//! the `saito-core` path dependency of Cargo.toml points into) into OUT_DIR, so that harness
//! binaries can compile and run code that is not reachable as a library item.
//!
//! * `lite_route.rs` (used by bin/c18.rs): the body of the `async move { .. }` closure of the
//!   `/lite-block/<hash>/<key>` route in saito-rust/src/network_controller.rs, wrapped as
//!   `pub async fn lite_route_body(block_hash, key, peer_lock, public_key)`. The including module
//!   supplies shims for `warp`, `StatusCode`, `BLOCKS_DIR_PATH`.  If the closure cannot be found
//!   a stub is written and `LITE_ROUTE_EXTRACTED` is false (only c18 looks at it).
use std::env;
use std::fs;
use std::path::PathBuf;

/// index of the `}` matching the `{` at `open` (string / char literals and comments skipped)
fn matching_brace(src: &[u8], open: usize) -> Option<usize> {
    let mut depth = 0i64;
    let mut i = open;
    while i < src.len() {
        let c = src[i];
        if c == b'/' && i + 1 < src.len() && src[i + 1] == b'/' {
            while i < src.len() && src[i] != b'\n' {
                i += 1;
            }
            continue;
        }
        if c == b'/' && i + 1 < src.len() && src[i + 1] == b'*' {
            i += 2;
            while i + 1 < src.len() && !(src[i] == b'*' && src[i + 1] == b'/') {
                i += 1;
            }
            i += 2;
            continue;
        }
        if c == b'"' {
            i += 1;
            while i < src.len() && src[i] != b'"' {
                if src[i] == b'\\' {
                    i += 1;
                }
                i += 1;
            }
            i += 1;
            continue;
        }
        if c == b'\'' && i + 2 < src.len() && (src[i + 2] == b'\'' || (src[i + 1] == b'\\' && i + 3 < src.len() && src[i + 3] == b'\'')) {
            // char literal ('x' or '\x'); lifetimes have no closing quote and fall through
            i += if src[i + 1] == b'\\' { 4 } else { 3 };
            continue;
        }
        if c == b'{' {
            depth += 1;
        } else if c == b'}' {
            depth -= 1;
            if depth == 0 {
                return Some(i);
            }
        }
        i += 1;
    }
    None
}

fn extract_lite_route(src: &str) -> Option<String> {
    let start = src.find("warp::path!(\"lite-block\"")?;
    let rest = &src[start..];
    let am = rest.find("async move {")?;
    // the closure parameters, as written
    let params = &rest[..am];
    if !(params.contains("block_hash: String") && params.contains("key: Option<String>") && params.contains("peer_lock: Arc<RwLock<PeerCollection>>")) {
        return None;
    }
    let open = start + am + "async move ".len();
    let close = matching_brace(src.as_bytes(), open)?;
    Some(src[open..=close].to_string())
}

fn main() {
    let manifest = PathBuf::from(env::var("CARGO_MANIFEST_DIR").unwrap());
    let out = PathBuf::from(env::var("OUT_DIR").unwrap());
    let cargo = fs::read_to_string(manifest.join("Cargo.toml")).unwrap_or_default();
    println!("cargo:rerun-if-changed=build.rs");
    println!("cargo:rerun-if-changed=Cargo.toml");
    // saito-core = { path = "<repo>/saito-core" }
    let repo = cargo
        .lines()
        .find(|l| l.trim_start().starts_with("saito-core"))
        .and_then(|l| l.split("path = \"").nth(1))
        .and_then(|s| s.split('"').next())
        .map(|p| PathBuf::from(p).parent().map(|x| x.to_path_buf()).unwrap_or_default())
        .unwrap_or_else(|| PathBuf::from("/repo"));
    let nc = repo.join("saito-rust/src/network_controller.rs");
    println!("cargo:rerun-if-changed={}", nc.display());
    let body = fs::read_to_string(&nc).ok().and_then(|s| extract_lite_route(&s));
    let text = match body {
        Some(b) => format!(
            "pub const LITE_ROUTE_EXTRACTED: bool = true;\n\
             pub const LITE_ROUTE_SOURCE: &str = {:?};\n\
             pub async fn lite_route_body(\n    block_hash: String,\n    key: Option<String>,\n    peer_lock: Arc<RwLock<PeerCollection>>,\n    public_key: SaitoPublicKey,\n) -> Result<warp::reply::Reply, warp::Rejection> {}\n",
            nc.display().to_string(),
            b
        ),
        None => format!(
            "pub const LITE_ROUTE_EXTRACTED: bool = false;\n\
             pub const LITE_ROUTE_SOURCE: &str = {:?};\n\
             pub async fn lite_route_body(\n    _block_hash: String,\n    _key: Option<String>,\n    _peer_lock: Arc<RwLock<PeerCollection>>,\n    _public_key: SaitoPublicKey,\n) -> Result<warp::reply::Reply, warp::Rejection> {{ Err(warp::reject::reject()) }}\n",
            nc.display().to_string()
        ),
    };
    fs::write(out.join("lite_route.rs"), text).unwrap();
    extract_rust_io_handler(&repo, &out);
}

// ---------------------------------------------------------------------------------------------
// (C12, bin/c12.rs) `rust_io_handler.rs`: saito-rust/src/rust_io_handler.rs as it is in the checkout
// the harness is built against, so that the REAL RustIOHandler (write_value = File::create +
// write_all, read_value, remove_value, load_block_file_list) is compiled into the harness and run
// against the in-memory MemIo.  saito-rust is a binary crate with heavy dependencies, so the file
// is included textually; only the lines that tie it to its crate are rewritten:
//   `use lazy_static::lazy_static;`   removed (the including module defines an equivalent macro)
//   `use crate::io_event::IoEvent;`   -> `use super::io_event::IoEvent;` (shim with the same fields)
//   the `#[cfg(test)] mod ...` tail   dropped
// If the file is missing a stub is written and RUST_IO_HANDLER_EXTRACTED is false.
fn extract_rust_io_handler(repo: &std::path::Path, out: &std::path::Path) {
    let src = repo.join("saito-rust/src/rust_io_handler.rs");
    println!("cargo:rerun-if-changed={}", src.display());
    let text = match fs::read_to_string(&src) {
        Ok(t) => {
            let mut body = String::new();
            for line in t.lines() {
                let l = line.trim();
                if l == "use lazy_static::lazy_static;" {
                    continue;
                }
                if l == "#[cfg(test)]" {
                    break;
                }
                if l == "use crate::io_event::IoEvent;" {
                    body.push_str("use super::io_event::IoEvent;\n");
                    continue;
                }
                body.push_str(line);
                body.push('\n');
            }
            format!(
                "pub const RUST_IO_HANDLER_EXTRACTED: bool = true;\npub const RUST_IO_HANDLER_SOURCE: &str = {:?};\n{}",
                src.display().to_string(),
                body
            )
        }
        Err(_) => format!(
            "pub const RUST_IO_HANDLER_EXTRACTED: bool = false;\npub const RUST_IO_HANDLER_SOURCE: &str = {:?};\n",
            src.display().to_string()
        ),
    };
    fs::write(out.join("rust_io_handler.rs"), text).unwrap();
}
