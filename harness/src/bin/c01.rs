//! C01 — only authorised, existing, unspent outputs are ever spent.
//! A catalogue of adversarial edits of valid transactions (plain transfers,
//! BlockStake transactions, NFT create/send transactions built with the real
//! wallet functions) is offered (i) to the transaction pool and (ii) inside an
//! otherwise consistent block (assembled the way an attacker with his own block
//! builder would) to the real node, in plain and in staking worlds; the verdict
//! of the real `Transaction::validate` on every generated transaction is
//! compared with the Coq model `TxValid.tx_validate` (plus a randomised field
//! mutation part that only feeds this comparison), and the property itself
//! (SpendOK for every value input of every accepted user transaction) is the
//! direct oracle.
use std::collections::BTreeSet;
use std::panic::AssertUnwindSafe;

use saito_core::core::consensus::block::Block;
use saito_core::core::consensus::slip::{Slip, SlipType};
use saito_core::core::consensus::transaction::{Transaction, TransactionType};
use saito_core::core::consensus::wallet::Wallet;
use saito_core::core::defs::{SaitoPrivateKey, SaitoPublicKey};
use saito_core::core::consensus::blockchain::Blockchain;
use saito_core::core::consensus::peers::peer_collection::PeerCollection;
use saito_core::core::consensus_thread::ConsensusEvent;
use saito_core::core::defs::{StatVariable, STAT_BIN_COUNT};
use saito_core::core::util::crypto::verify_signature;
use saito_core::core::verification_thread::VerificationThread;
use verif_harness::chainsim::futures_catch;
use verif_harness::common::{Args, Summary};
use verif_harness::gal;
use verif_harness::rng::Rng;
use verif_harness::world::*;

#[derive(Clone, Copy, PartialEq, Debug)]
enum Expect {
    /// a legitimate transaction: must be accepted
    Accept,
    /// violates the property (or a rule the property relies on): must be rejected
    Reject,
    /// recorded only (behaviour outside the statement of C01)
    Observe,
}
use Expect::*;

#[derive(Clone, Copy, PartialEq, Debug)]
enum Needs {
    /// any world whose genesis outputs are still inside the window
    Fresh,
    /// only once the window has wrapped
    Wrapped,
    /// a world with NFTs on chain
    Nft,
    /// social staking required
    Staking,
    /// a world whose transfers paid fees, so that fee transactions with payouts are on chain
    Payouts,
    /// a world in which a competing two-block branch can be built (no staking, window not wrapped)
    Fork,
}

#[derive(Clone, Copy, PartialEq, Debug)]
enum Venues {
    Both,
    BlockOnly,
}

struct Edit {
    name: &'static str,
    expect: Expect,
    /// id of the listed finding an acceptance falls under (default: "<name>-<venue>")
    known: Option<&'static str>,
    needs: Needs,
    venues: Venues,
    /// the edited transaction takes the place of the block's staking transaction
    /// (in staking worlds) instead of the carrier's
    stake_slot: bool,
}

const fn ed(name: &'static str, expect: Expect, needs: Needs) -> Edit {
    Edit { name, expect, known: None, needs, venues: Venues::Both, stake_slot: false }
}
const fn edk(name: &'static str, known: &'static str, needs: Needs) -> Edit {
    Edit { name, expect: Reject, known: Some(known), needs, venues: Venues::Both, stake_slot: false }
}
const fn eds(name: &'static str, expect: Expect, needs: Needs) -> Edit {
    Edit { name, expect, known: None, needs, venues: Venues::Both, stake_slot: true }
}

const EDITS: &[Edit] = &[
    ed("baseline-valid", Accept, Needs::Fresh),
    ed("signature-flipped", Reject, Needs::Fresh),
    ed("signature-zero", Reject, Needs::Fresh),
    ed("foreign-extra-input", Reject, Needs::Fresh),
    ed("foreign-only-input", Reject, Needs::Fresh),
    ed("nonexistent-input", Reject, Needs::Fresh),
    ed("already-spent-input", Reject, Needs::Fresh),
    // a golden-ticket-typed transaction (a real ticket mined for the tip) is a user transaction like
    // any other: a value input of its signer that is already spent / never existed makes it invalid
    ed("golden-ticket-with-spent-own-input", Reject, Needs::Fresh),
    ed("golden-ticket-with-nonexistent-own-input", Reject, Needs::Fresh),
    // two different spends of one output: one pooled first, the other arriving in an accepted block;
    // afterwards the pool must not hold the loser
    Edit { name: "rival-spend-pooled-then-block", expect: Accept, known: None, needs: Needs::Fresh, venues: Venues::BlockOnly, stake_slot: false },
    // the ledger look-up covers every slip type: a BlockStake-typed input of the signer's own key
    // that never existed / was already re-staked, named by a transaction that is not a staking one
    ed("nonexistent-stake-typed-input", Reject, Needs::Fresh),
    ed("nonexistent-stake-typed-only-input", Reject, Needs::Fresh),
    ed("spent-stake-typed-input", Reject, Needs::Staking),
    ed("duplicate-input-in-tx", Reject, Needs::Fresh),
    Edit { name: "same-input-in-two-txs", expect: Reject, known: None, needs: Needs::Fresh, venues: Venues::BlockOnly, stake_slot: false },
    ed("outputs-exceed-inputs", Reject, Needs::Fresh),
    ed("type-issuance", Reject, Needs::Fresh),
    ed("type-spv-with-outputs", Reject, Needs::Fresh),
    ed("type-fee-forged", Reject, Needs::Fresh),
    ed("type-atr-forged", Reject, Needs::Fresh),
    ed("type-fee-forged-moves-victim-output", Reject, Needs::Fresh),
    ed("output-sum-wraps-u64", Reject, Needs::Fresh),
    ed("expired-input", Reject, Needs::Wrapped),
    // the edge of the retention window (Transaction::validate's age rule, /repo bb88717): with the
    // tip at L, an output of block L+1-gp can be spent in the next block, one of block L-gp -- still
    // in the ledger, the next block is the one that rebroadcasts it -- cannot
    ed("window-edge-last-valid", Accept, Needs::Wrapped),
    ed("window-edge-first-expired", Reject, Needs::Wrapped),
    ed("window-edge-expired-second-input", Reject, Needs::Wrapped),
    ed("window-edge-expired-in-nft-create", Reject, Needs::Wrapped),
    ed("window-edge-expired-in-stake-tx", Reject, Needs::Wrapped),
    // the same edge for an output that is itself a rebroadcast (slip type ATR), in deeper worlds
    ed("window-edge-first-expired-atr", Reject, Needs::Wrapped),
    ed("window-edge-last-valid-atr", Accept, Needs::Wrapped),
    // a fork block that was rejected inside a reorganisation leaves nothing behind: the output
    // it tried to spend (which no block ever created) is still unspendable afterwards
    ed("input-of-rejected-fork-block", Reject, Needs::Fork),
    ed("input-of-rejected-first-fork-block", Reject, Needs::Fork),
    // duplicates of value-carrying slips that are not Normal slips (signed by their owner)
    ed("duplicate-input-in-tx-atr", Reject, Needs::Wrapped),
    ed("duplicate-input-in-tx-block-stake", Reject, Needs::Staking),
    ed("duplicate-input-in-tx-miner-output", Reject, Needs::Payouts),
    ed("duplicate-input-in-tx-router-output", Reject, Needs::Payouts),
    Edit { name: "same-input-in-two-txs-atr", expect: Reject, known: None, needs: Needs::Wrapped, venues: Venues::BlockOnly, stake_slot: false },
    Edit { name: "same-input-in-two-txs-block-stake", expect: Reject, known: None, needs: Needs::Staking, venues: Venues::BlockOnly, stake_slot: false },
    Edit { name: "same-input-in-two-txs-miner-output", expect: Reject, known: None, needs: Needs::Payouts, venues: Venues::BlockOnly, stake_slot: false },
    // the sweep of Block::validate must look past zero-amount and Bound inputs
    Edit { name: "same-input-in-two-txs-after-zero-input", expect: Reject, known: None, needs: Needs::Fresh, venues: Venues::BlockOnly, stake_slot: false },
    Edit { name: "bound-deposit-nft-twice-in-block", expect: Reject, known: None, needs: Needs::Nft, venues: Venues::BlockOnly, stake_slot: false },
    // user-transaction types that must get no exemption
    ed("type-golden-ticket-zero-signature", Reject, Needs::Fresh),
    ed("type-golden-ticket-foreign-input", Reject, Needs::Fresh),
    ed("type-golden-ticket-outputs-exceed-inputs", Reject, Needs::Fresh),
    ed("type-vip-zero-signature", Reject, Needs::Fresh),
    ed("type-vip-foreign-input", Reject, Needs::Fresh),
    ed("type-vip-outputs-exceed-inputs", Reject, Needs::Fresh),
    // SPV placeholders that name inputs (unsigned: they would burn the input into fees)
    ed("type-spv-burns-own-input", Reject, Needs::Fresh),
    ed("type-spv-burns-foreign-input", Reject, Needs::Fresh),
    ed("type-spv-empty", Observe, Needs::Fresh),
    // Bound slips count 0 in the fee: only the "no inputs" rule stops a placeholder from consuming one
    ed("type-spv-burns-nft-slip", Reject, Needs::Nft),
    // the signed bytes carry no slip counts: from=[a] to=[b, c] signs like from=[a, b'] to=[c]
    ed("resplit-output-as-input", Reject, Needs::Fresh),
    // one signed field changed after signing, signature kept: pins what the signature covers
    ed("tamper-after-signing-output-amount", Reject, Needs::Fresh),
    ed("tamper-after-signing-output-key", Reject, Needs::Fresh),
    ed("tamper-after-signing-output-type", Reject, Needs::Fresh),
    ed("tamper-after-signing-input-key", Reject, Needs::Fresh),
    ed("tamper-after-signing-data", Reject, Needs::Fresh),
    ed("tamper-after-signing-timestamp", Reject, Needs::Fresh),
    ed("tamper-after-signing-tx-type", Reject, Needs::Fresh),
    ed("tamper-after-signing-replacements", Reject, Needs::Fresh),
    ed("unsigned-other-key", Reject, Needs::Fresh),
    // foreign inputs that are not Normal slips: payouts of fee transactions, rebroadcast
    // outputs, stakes (the ownership rule covers every slip type but Bound)
    ed("foreign-extra-input-miner-output", Reject, Needs::Payouts),
    ed("foreign-extra-input-router-output", Reject, Needs::Payouts),
    ed("foreign-extra-input-atr", Reject, Needs::Wrapped),
    ed("foreign-extra-input-block-stake", Reject, Needs::Staking),
    ed("foreign-extra-input-block-stake-zero-first", Reject, Needs::Staking),
    // the signature does not cover block_id / tx_ordinal of the inputs
    edk("replayed-signature-other-output", "replayed-signature-other-output", Needs::Fresh),
    // ---- BlockStake transactions
    eds("stake-valid-wallet", Accept, Needs::Fresh),
    eds("stake-valid-producer", Accept, Needs::Staking),
    eds("stake-foreign-input", Reject, Needs::Fresh),
    eds("stake-foreign-extra-input", Reject, Needs::Fresh),
    eds("stake-signature-zero", Reject, Needs::Fresh),
    eds("stake-no-inputs-mints", Reject, Needs::Fresh),
    eds("stake-inflated-outputs", Reject, Needs::Fresh),
    eds("stake-output-type-vip", Reject, Needs::Fresh),
    eds("stake-below-requirement", Reject, Needs::Staking),
    eds("stake-locked-input", Reject, Needs::Staking),
    ed("stake-locked-spent-by-normal-tx", Observe, Needs::Staking),
    // ---- Bound (NFT) transactions
    ed("bound-create-valid", Accept, Needs::Nft),
    ed("bound-send-valid", Accept, Needs::Nft),
    // the holder of an NFT with a deposit signs its transfer (/repo c1271fb)
    ed("bound-owner-not-creator-sends", Accept, Needs::Nft),
    ed("bound-creator-reclaims-deposit", Reject, Needs::Nft),
    ed("bound-foreign-extra-input", Reject, Needs::Nft),
    ed("bound-fabricated-triple", Reject, Needs::Fresh),
    ed("bound-send-others-nft", Reject, Needs::Nft),
    ed("bound-detached-triple", Reject, Needs::Nft),
    ed("bound-send-amount-modified", Reject, Needs::Nft),
    ed("bound-send-wrong-order", Reject, Needs::Nft),
    ed("bound-send-uuid-modified", Reject, Needs::Nft),
    ed("bound-send-forged-uuid-input", Observe, Needs::Nft),
    ed("bound-send-deposit-inflated", Reject, Needs::Nft),
    ed("bound-create-id-block-mismatch", Reject, Needs::Nft),
    ed("bound-create-id-ordinal-mismatch", Reject, Needs::Nft),
    ed("bound-create-id-index-mismatch", Reject, Needs::Nft),
    ed("bound-create-foreign-input", Reject, Needs::Nft),
    ed("bound-create-slip3-nonzero", Reject, Needs::Nft),
    ed("bound-create-inflated", Reject, Needs::Nft),
    // since /repo 5a3c1b6 the outputs after the three NFT slips must be Normal
    ed("bound-create-extra-bound-output", Reject, Needs::Nft),
    ed("bound-slip-in-normal-tx-output", Reject, Needs::Nft),
    ed("bound-slip-in-normal-tx-input", Reject, Needs::Nft),
    Edit { name: "bound-same-nft-twice-in-block", expect: Reject, known: None, needs: Needs::Nft, venues: Venues::BlockOnly, stake_slot: false },
];

#[derive(Clone, Copy, Debug)]
struct Plan {
    gp: u64,
    len: usize,
    stake: u64,
    nft: bool,
    /// fee paid by the filler transfer of every block (0 in worlds that wrap)
    fee: u64,
}
impl Plan {
    fn wrapped(&self) -> bool {
        (self.len as u64) + 1 > self.gp + 1
    }
}

const STAKE: u64 = 600_000;
const STAKE_PERIOD: u64 = 2;
const EQ_AMOUNT: u64 = 3_000_000;

/// the three slips of an NFT as they sit on chain
#[derive(Clone)]
struct Nft {
    slips: [Slip; 3],
}
impl Nft {
    fn id(&self) -> Vec<u8> {
        self.slips[1].utxoset_key.to_vec()
    }
}

struct World {
    plan: Plan,
    node: Node,
    attacker: (SaitoPublicKey, SaitoPrivateKey),
    victim: (SaitoPublicKey, SaitoPrivateKey),
    /// unspent outputs of the attacker: [0] is used by the carrier of attacker blocks
    attacker_slips: Vec<Slip>,
    victim_slips: Vec<Slip>,
    spent_slip: Slip,
    expired_slip: Option<Slip>,
    tip: Block,
    /// wallets of attacker and victim fed with the chain
    aw: Wallet,
    vw: Wallet,
    /// NFT created by the attacker for the victim (deposit 400k), by the attacker for
    /// himself (deposit 300k), by the victim for himself (200k), by the attacker for
    /// himself without deposit
    nft_a2v: Option<Nft>,
    nft_a2a: Option<Nft>,
    nft_v2v: Option<Nft>,
    nft_a0: Option<Nft>,
    /// a payment of the victim to the attacker that is on chain, and an unspent
    /// output of the victim equal (amount, slip index, type) to the one it spent
    replay_src: Transaction,
    replay_alt: Slip,
    /// the victim's change output of that payment (slip index 1)
    victim_change: Slip,
    /// an output of the attacker with slip index 2 (third output of that payment)
    attacker_idx2: Slip,
    /// the producer's BlockStake output in the tip block (locked)
    locked_stake: Option<Slip>,
    /// unspent outputs of other keys than the attacker's, by slip type, found on chain:
    /// payouts of fee transactions, rebroadcast outputs, stakes
    foreign_miner_output: Option<Slip>,
    foreign_router_output: Option<Slip>,
    foreign_atr: Option<Slip>,
    foreign_stake: Option<Slip>,
    /// an unspent rebroadcast output of the attacker
    own_atr: Option<Slip>,
    /// the attacker's chain: its current head (an output of the tip block) and the outputs it
    /// left behind, by block id
    chain_head: Slip,
    left_behind: Vec<(u64, Slip)>,
    /// unspent rebroadcast outputs (slip type ATR) of the attacker, by the block that carries them
    own_atr_by_block: Vec<(u64, Slip)>,
    /// the longest chain as delivered (pristine blocks): what the history oracle replays
    history: Vec<Block>,
    /// why a scripted scenario could not be played (reported as a failure of the property's setting)
    scenario_failure: Option<String>,
}

struct Built {
    plan: Plan,
    blocks: Vec<Block>,
}

async fn stake_tx_of_node(node: &Node) -> Option<Transaction> {
    let mut w = node.wallet_lock.write().await;
    w.create_staking_transaction(
        node.blockchain.social_stake_requirement,
        node.blockchain.get_latest_unlocked_stake_block_id(),
        (node.blockchain.get_latest_block_id() + 1).saturating_sub(node.params.genesis_period),
    )
    .ok()
}

fn params_of(plan: &Plan) -> Params {
    Params {
        genesis_period: plan.gp,
        social_stake: plan.stake,
        social_stake_period: STAKE_PERIOD,
        ..Params::default()
    }
}

/// builds the chain of a world once (blocks are kept pristine and replayed into
/// fresh nodes for every case)
async fn build_blocks(plan: Plan, rng: &mut Rng) -> Built {
    let mut node = Node::new(&params_of(&plan), 1);
    let attacker = keypair(2);
    let victim = keypair(3);
    let filler = keypair(4);
    let mut issuance = vec![];
    for k in 0..8u64 {
        issuance.push((attacker.0, 1_000_000 + k * 1000));
    }
    for k in 0..4u64 {
        issuance.push((victim.0, 2_000_000 + k * 1000));
    }
    issuance.push((victim.0, EQ_AMOUNT));
    issuance.push((victim.0, EQ_AMOUNT));
    issuance.push((filler.0, 777_000));
    for k in 0..8u64 {
        issuance.push((node.pk, 5_000_000 + k));
    }
    issuance.push((attacker.0, 900_000));
    let g = make_genesis(&node, 1_000_000, &issuance).await.unwrap();
    assert_eq!(node.add_block(g.clone()).await, AddClass::OnChain);
    let mut blocks = vec![g.clone()];
    let a_slips: Vec<Slip> = (0..8).map(|k| g.transactions[k].to[0].clone()).collect();
    let v_slips: Vec<Slip> = (8..14).map(|k| g.transactions[k].to[0].clone()).collect();
    let mut fill = g.transactions[14].to[0].clone();
    let mut head = g.transactions[23].to[0].clone();
    let mut aw = Wallet::new(attacker.1, attacker.0);
    let mut vw = Wallet::new(victim.1, victim.0);
    aw.on_chain_reorganization(&g, true, plan.gp);
    vw.on_chain_reorganization(&g, true, plan.gp);
    let mut parent = g.clone();
    for i in 0..plan.len {
        let ts = parent.timestamp + 120_000 + rng.below(1000);
        let mut txs = vec![];
        // keep blocks non-empty: a spare key pays itself
        let f = make_tx(&[fill.clone()], &[(filler.0, fill.amount - plan.fee)], &filler.1, ts);
        let fsig = f.signature;
        txs.push(f);
        // the attacker leaves an output of 1000 + block id behind in every block (slip index 1)
        let left = 1000 + parent.id + 1;
        let h = make_tx(&[head.clone()], &[(attacker.0, head.amount - left), (attacker.0, left)], &attacker.1, ts);
        let hsig = h.signature;
        txs.push(h);
        if i == 0 {
            // the attacker spends slip 0 (so it is "already spent" afterwards)
            txs.push(make_tx(&[a_slips[0].clone()], &[(attacker.0, a_slips[0].amount)], &attacker.1, ts));
            // the victim pays the attacker out of the first of two equal outputs
            txs.push(make_tx(
                &[v_slips[4].clone()],
                &[(attacker.0, 150_000), (victim.0, EQ_AMOUNT - 151_000), (attacker.0, 1_000)],
                &victim.1,
                ts,
            ));
            if plan.nft {
                let latest = node.blockchain.get_latest_block_id();
                for (who, slip, deposit, recipient, label) in [
                    (0, &a_slips[1], 400_000u64, victim.0, "a2v"),
                    (0, &a_slips[2], 300_000, attacker.0, "a2a"),
                    (1, &v_slips[3], 200_000, victim.0, "v2v"),
                    (0, &a_slips[3], 0, attacker.0, "a0"),
                ] {
                    if label == "a0" && std::env::var("C01_NO_ZERO_DEPOSIT").is_ok() {
                        // trial runs against a tree where NFTs must carry a deposit
                        continue;
                    }
                    let w = if who == 0 { &mut aw } else { &mut vw };
                    let mut t = w
                        .create_bound_transaction(
                            slip.amount,
                            slip.block_id,
                            slip.tx_ordinal,
                            slip.slip_index as u64,
                            deposit,
                            vec![],
                            &recipient,
                            None,
                            latest,
                            plan.gp,
                            label.to_string(),
                        )
                        .await
                        .expect("create_bound_transaction");
                    // distinct timestamps (the wallet leaves 0) so the map keeps them apart
                    t.timestamp = ts + deposit / 100_000 + 1;
                    t.sign(if who == 0 { &attacker.1 } else { &victim.1 });
                    txs.push(t);
                }
            }
        }
        if plan.stake > 0 {
            txs.push(stake_tx_of_node(&node).await.expect("staking transaction"));
        }
        let b = make_block(&node, parent.hash, ts, txs, true, i as u64 + 100).await.unwrap();
        let r = node.add_block(b.clone()).await;
        assert_eq!(r, AddClass::OnChain, "world block {} rejected", b.id);
        aw.on_chain_reorganization(&b, true, plan.gp);
        vw.on_chain_reorganization(&b, true, plan.gp);
        fill = b.transactions.iter().find(|t| t.signature == fsig).unwrap().to[0].clone();
        head = b.transactions.iter().find(|t| t.signature == hsig).unwrap().to[0].clone();
        blocks.push(b.clone());
        parent = b;
    }
    Built { plan, blocks }
}

/// a fresh node holding the world's chain, plus everything the edits need
async fn fresh_world(built: &Built) -> World {
    let plan = built.plan;
    let mut node = Node::new(&params_of(&plan), 1);
    let attacker = keypair(2);
    let victim = keypair(3);
    let mut aw = Wallet::new(attacker.1, attacker.0);
    let mut vw = Wallet::new(victim.1, victim.0);
    for b in &built.blocks {
        let r = node.add_block(b.clone()).await;
        assert_eq!(r, AddClass::OnChain);
        aw.on_chain_reorganization(b, true, plan.gp);
        vw.on_chain_reorganization(b, true, plan.gp);
    }
    let g = &built.blocks[0];
    let a_slips: Vec<Slip> = (0..8).map(|k| g.transactions[k].to[0].clone()).collect();
    let v_slips: Vec<Slip> = (8..14).map(|k| g.transactions[k].to[0].clone()).collect();
    let b2 = &built.blocks[1];
    let replay_src = b2
        .transactions
        .iter()
        .find(|t| t.transaction_type == TransactionType::Normal && t.from.len() == 1 && t.from[0].public_key == victim.0)
        .unwrap()
        .clone();
    let victim_change = replay_src.to[1].clone();
    let attacker_idx2 = replay_src.to[2].clone();
    let nft_of = |creator: &SaitoPublicKey, deposit: u64| -> Option<Nft> {
        b2.transactions
            .iter()
            .find(|t| {
                t.transaction_type == TransactionType::Bound
                    && t.to[0].public_key == *creator
                    && t.to[1].amount == deposit
            })
            .map(|t| Nft { slips: [t.to[0].clone(), t.to[1].clone(), t.to[2].clone()] })
    };
    let tip = built.blocks.last().unwrap().clone();
    let locked_stake = tip
        .transactions
        .iter()
        .find(|t| t.transaction_type == TransactionType::BlockStake)
        .and_then(|t| t.to.iter().find(|s| s.slip_type == SlipType::BlockStake && s.amount > 0).cloned());
    let expired_slip = if plan.wrapped() { Some(a_slips[5].clone()) } else { None };
    // the latest unspent output of the given type on chain, owned / not owned by the attacker
    let find = |ty: SlipType, tx_ty: Option<TransactionType>, own: bool| -> Option<Slip> {
        for b in built.blocks.iter().rev() {
            for t in b.transactions.iter() {
                if tx_ty.is_some() && Some(t.transaction_type) != tx_ty {
                    continue;
                }
                for s in t.to.iter() {
                    if s.slip_type == ty
                        && s.amount > 0
                        && (s.public_key == attacker.0) == own
                        && node.blockchain.utxoset.get(&s.utxoset_key).copied().unwrap_or(false)
                    {
                        return Some(s.clone());
                    }
                }
            }
        }
        None
    };
    let foreign_miner_output = find(SlipType::MinerOutput, Some(TransactionType::Fee), false);
    let foreign_router_output = find(SlipType::RouterOutput, Some(TransactionType::Fee), false);
    let foreign_atr = find(SlipType::ATR, Some(TransactionType::ATR), false);
    let own_atr = find(SlipType::ATR, Some(TransactionType::ATR), true);
    let foreign_stake = find(SlipType::BlockStake, Some(TransactionType::BlockStake), false);
    let mut left_behind = vec![];
    let mut chain_head = g.transactions[23].to[0].clone();
    for b in built.blocks.iter().skip(1) {
        for t in b.transactions.iter() {
            if t.transaction_type == TransactionType::Normal
                && t.to.len() == 2
                && t.to[0].public_key == attacker.0
                && t.to[1].public_key == attacker.0
                && t.to[1].amount == 1000 + b.id
            {
                left_behind.push((b.id, t.to[1].clone()));
                chain_head = t.to[0].clone();
            }
        }
    }
    let mut own_atr_by_block = vec![];
    for b in built.blocks.iter() {
        for t in b.transactions.iter().filter(|t| t.transaction_type == TransactionType::ATR) {
            for s in t.to.iter() {
                if s.slip_type == SlipType::ATR
                    && s.amount > 0
                    && s.public_key == attacker.0
                    && node.blockchain.utxoset.get(&s.utxoset_key).copied().unwrap_or(false)
                    && !own_atr_by_block.iter().any(|(id, _)| *id == b.id)
                {
                    own_atr_by_block.push((b.id, s.clone()));
                }
            }
        }
    }
    World {
        plan,
        node,
        attacker,
        victim,
        attacker_slips: a_slips[4..8].to_vec(),
        victim_slips: v_slips[0..3].to_vec(),
        spent_slip: a_slips[0].clone(),
        expired_slip,
        tip,
        aw,
        vw,
        nft_a2v: nft_of(&attacker.0, 400_000),
        nft_a2a: nft_of(&attacker.0, 300_000),
        nft_v2v: nft_of(&victim.0, 200_000),
        nft_a0: nft_of(&attacker.0, 0),
        replay_src,
        replay_alt: v_slips[5].clone(),
        victim_change,
        attacker_idx2,
        locked_stake,
        foreign_miner_output,
        foreign_router_output,
        foreign_atr,
        foreign_stake,
        own_atr,
        chain_head,
        left_behind,
        own_atr_by_block,
        history: built.blocks.clone(),
        scenario_failure: None,
    }
}

/// discrepancies between the real helper functions and the harness's own re-computation of
/// them (utxo key from the slip's fields, the lock predicate), reported per case
static DISCREPANCIES: std::sync::Mutex<Vec<String>> = std::sync::Mutex::new(Vec::new());

/// the utxo key as the byte layout says: key(33) block_id(8) tx_ordinal(8) slip_index(1) amount(8) type(1)
fn key_of(s: &Slip) -> [u8; 59] {
    let mut k = [0u8; 59];
    k[0..33].copy_from_slice(&s.public_key);
    k[33..41].copy_from_slice(&s.block_id.to_be_bytes());
    k[41..49].copy_from_slice(&s.tx_ordinal.to_be_bytes());
    k[49] = s.slip_index;
    k[50..58].copy_from_slice(&s.amount.to_be_bytes());
    k[58] = s.slip_type as u8;
    k
}

/// Blockchain::is_slip_unlocked re-stated: the ledger holds the key as spendable, and a BlockStake
/// output is older than the stake period (block_id <= latest + 1 - period once latest > period)
fn unlocked_independent(node: &Node, key: &[u8; 59]) -> bool {
    if key[58] > SlipType::Bound as u8 {
        return false;
    }
    if node.blockchain.utxoset.get(key).copied() != Some(true) {
        return false;
    }
    if key[58] == SlipType::BlockStake as u8 {
        let latest = node.blockchain.get_latest_block_id();
        let period = node.params.social_stake_period;
        let bound = if latest > period { latest + 1 - period } else { 0 };
        if be64(&key[33..41]) > bound {
            return false;
        }
    }
    true
}

/// the node's utxo set against the history ledger, for outputs inside the window
fn ledger_discrepancies(w: &World) -> Vec<String> {
    let ledger = history_ledger(&w.history);
    let latest = w.history.last().map(|b| b.id).unwrap_or(0);
    let lo = (latest + 1).saturating_sub(w.plan.gp);
    let mut v = vec![];
    let mut real: BTreeSet<Vec<u8>> = BTreeSet::new();
    for (k, sp) in w.node.blockchain.utxoset.iter() {
        if *sp && be64(&k[33..41]) >= lo {
            real.insert(k.to_vec());
        }
    }
    for (k, created) in ledger.iter() {
        if *created >= lo && !real.contains(k) {
            v.push(format!("history has unspent output {}-{}-{} (amount {}, type {}), the utxo set does not", be64(&k[33..41]), be64(&k[41..49]), k[49], be64(&k[50..58]), k[58]));
        }
    }
    for k in real.iter() {
        if !ledger.contains_key(k) {
            v.push(format!("the utxo set holds {}-{}-{} (amount {}, type {}) as spendable, no block of the chain left it unspent", be64(&k[33..41]), be64(&k[41..49]), k[49], be64(&k[50..58]), k[58]));
        }
    }
    v.truncate(6);
    v
}

/// the ledger as the history says it is: every output with an amount created by a block of the
/// chain and not consumed by a later transaction of the chain -> the block that created it
fn history_ledger(blocks: &[Block]) -> std::collections::BTreeMap<Vec<u8>, u64> {
    let mut m = std::collections::BTreeMap::new();
    for b in blocks {
        for t in &b.transactions {
            for s in &t.from {
                if s.amount > 0 {
                    m.remove(&key_of(s).to_vec());
                }
            }
            for s in &t.to {
                if s.amount > 0 {
                    m.insert(key_of(s).to_vec(), b.id);
                }
            }
        }
    }
    m
}

/// C01 evaluated against the block history (not the node's utxo set): every input with an amount
/// was created by a block of this chain and not consumed since; unless it is a Bound slip it is
/// still inside the retention window for the next block
fn history_violations(w: &World, tx: &Transaction) -> Vec<String> {
    let ledger = history_ledger(&w.history);
    let latest = w.history.last().map(|b| b.id).unwrap_or(0);
    let mut v = vec![];
    if matches!(tx.transaction_type, TransactionType::Fee | TransactionType::ATR | TransactionType::Issuance) {
        return v;
    }
    for s in &tx.from {
        if s.amount == 0 {
            continue;
        }
        match ledger.get(&key_of(s).to_vec()) {
            None => v.push(format!(
                "input {}-{}-{} (amount {}, type {}) is not an unspent output of any block of the chain",
                s.block_id, s.tx_ordinal, s.slip_index, s.amount, s.slip_type as u8
            )),
            Some(created) => {
                if s.slip_type != SlipType::Bound && created + w.plan.gp < latest + 1 {
                    v.push(format!("input {}-{}-{} was created by block {}: outside the window at tip {}", s.block_id, s.tx_ordinal, s.slip_index, created, latest));
                }
            }
        }
    }
    v
}

fn slip_out(pk: SaitoPublicKey, amount: u64) -> Slip {
    slip_typed(pk, amount, SlipType::Normal)
}
fn slip_typed(pk: SaitoPublicKey, amount: u64, ty: SlipType) -> Slip {
    let mut o = Slip::default();
    o.public_key = pk;
    o.amount = amount;
    o.slip_type = ty;
    o
}

fn raw_tx(ty: TransactionType, from: Vec<Slip>, to: Vec<Slip>, sk: &SaitoPrivateKey, ts: u64) -> Transaction {
    let mut tx = Transaction::default();
    tx.transaction_type = ty;
    tx.timestamp = ts;
    for mut s in from {
        s.generate_utxoset_key();
        tx.add_from_slip(s);
    }
    for s in to {
        tx.add_to_slip(s);
    }
    tx.sign(sk);
    tx
}

/// a transfer of the NFT `n` signed by `sk`: the three slips, the Normal one to `recipient`
fn send_nft(n: &Nft, recipient: SaitoPublicKey, extra_from: Vec<Slip>, extra_to: Vec<Slip>, sk: &SaitoPrivateKey, ts: u64) -> Transaction {
    let mut from = n.slips.to_vec();
    from.extend(extra_from);
    let mut to = vec![n.slips[0].clone(), slip_out(recipient, n.slips[1].amount), n.slips[2].clone()];
    to.extend(extra_to);
    raw_tx(TransactionType::Bound, from, to, sk, ts)
}

/// the private key of one of the world's keys
fn sk_of(w: &World, pk: &SaitoPublicKey) -> Option<SaitoPrivateKey> {
    for k in [1u8, 2, 3, 4] {
        let kp = keypair(k);
        if kp.0 == *pk {
            return Some(kp.1);
        }
    }
    let _ = w;
    None
}

/// returns the adversarial transaction(s) for edit `e`; None if not applicable in this world
async fn make_edit(w: &mut World, built: &Built, e: usize, ts: u64, rng: &mut Rng) -> Option<Vec<Transaction>> {
    let own = w.attacker_slips[rng.below(w.attacker_slips.len() as u64 - 1) as usize + 1].clone();
    let vic = w.victim_slips[rng.below(w.victim_slips.len() as u64) as usize].clone();
    let (apk, ask) = (w.attacker.0, w.attacker.1);
    let (vpk, vsk) = (w.victim.0, w.victim.1);
    let n = TransactionType::Normal;
    let st = TransactionType::BlockStake;
    let bd = TransactionType::Bound;
    let req = w.node.blockchain.social_stake_requirement;
    let stake_amt = req.max(500_000);
    let gp = w.plan.gp;
    let latest = w.node.blockchain.get_latest_block_id();
    let one = |t: Transaction| Some(vec![t]);
    // three outputs of the attacker that blocks latest+1 and latest+2 may spend (fork scenarios)
    let fork_carriers: Vec<Slip> = if w.plan.wrapped() {
        [latest, latest.saturating_sub(1), latest.saturating_sub(2)]
            .iter()
            .filter_map(|id| w.left_behind.iter().find(|(b, _)| b == id).map(|(_, s)| s.clone()))
            .collect()
    } else {
        vec![w.attacker_slips[1].clone(), w.attacker_slips[2].clone(), w.attacker_slips[3].clone()]
    };
    match EDITS[e].name {
        "baseline-valid" => one(raw_tx(n, vec![own.clone()], vec![slip_out(apk, own.amount)], &ask, ts)),
        "signature-flipped" => {
            let mut t = raw_tx(n, vec![own.clone()], vec![slip_out(apk, own.amount)], &ask, ts);
            t.signature[rng.below(64) as usize] ^= 0x40;
            one(t)
        }
        "signature-zero" => {
            let mut t = raw_tx(n, vec![own.clone()], vec![slip_out(apk, own.amount)], &ask, ts);
            t.signature = [0; 64];
            one(t)
        }
        "foreign-extra-input" => one(raw_tx(n, vec![own.clone(), vic.clone()], vec![slip_out(apk, own.amount + vic.amount)], &ask, ts)),
        "foreign-extra-input-miner-output" | "foreign-extra-input-router-output" | "foreign-extra-input-block-stake" => {
            let f = match EDITS[e].name {
                "foreign-extra-input-miner-output" => w.foreign_miner_output.clone()?,
                "foreign-extra-input-router-output" => w.foreign_router_output.clone()?,
                _ => w.foreign_stake.clone()?,
            };
            one(raw_tx(n, vec![own.clone(), f.clone()], vec![slip_out(apk, own.amount + f.amount)], &ask, ts))
        }
        "foreign-extra-input-block-stake-zero-first" => {
            // the signer named by a zero-amount slip of the attacker that exists nowhere
            let f = w.foreign_stake.clone()?;
            one(raw_tx(n, vec![slip_out(apk, 0), f.clone()], vec![slip_out(apk, f.amount)], &ask, ts))
        }
        "foreign-extra-input-atr" => {
            // window wrapped: the victim's rebroadcast output next to the attacker's own one
            let f = w.foreign_atr.clone()?;
            let first = match w.own_atr.clone() {
                Some(s) => s,
                None => slip_out(apk, 0),
            };
            one(raw_tx(n, vec![first.clone(), f.clone()], vec![slip_out(apk, first.amount + f.amount)], &ask, ts))
        }
        "foreign-only-input" => one(raw_tx(n, vec![vic.clone()], vec![slip_out(apk, vic.amount)], &ask, ts)),
        "nonexistent-input" => {
            let mut s = own.clone();
            s.amount += 777;
            one(raw_tx(n, vec![s.clone()], vec![slip_out(apk, s.amount)], &ask, ts))
        }
        "nonexistent-stake-typed-input" | "nonexistent-stake-typed-only-input" => {
            let mut fake = slip_typed(apk, 500_000, SlipType::BlockStake);
            fake.block_id = latest;
            fake.tx_ordinal = 1;
            fake.slip_index = 0;
            if EDITS[e].name == "nonexistent-stake-typed-input" {
                one(raw_tx(n, vec![own.clone(), fake.clone()], vec![slip_out(apk, own.amount + fake.amount)], &ask, ts))
            } else {
                one(raw_tx(n, vec![fake.clone()], vec![slip_out(apk, fake.amount)], &ask, ts))
            }
        }
        "spent-stake-typed-input" => {
            // a stake the producer has already re-staked, spent once more by its owner in a Normal transaction
            let mut spent: Option<Slip> = None;
            for b in w.history.iter().rev() {
                for t in b.transactions.iter() {
                    for sl in t.from.iter() {
                        if sl.slip_type == SlipType::BlockStake && sl.amount > 0 && spent.is_none() {
                            spent = Some(sl.clone());
                        }
                    }
                }
            }
            let sl = spent?;
            let sk = sk_of(w, &sl.public_key)?;
            one(raw_tx(n, vec![sl.clone()], vec![slip_out(sl.public_key, sl.amount)], &sk, ts))
        }
        "golden-ticket-with-spent-own-input" | "golden-ticket-with-nonexistent-own-input" => {
            let mut t = golden_ticket_tx(w.tip.hash, w.tip.difficulty, &apk, &ask, 7_000 + e as u64).await;
            let mut input = if EDITS[e].name == "golden-ticket-with-spent-own-input" {
                w.spent_slip.clone()
            } else {
                let mut x = own.clone();
                x.amount += 777;
                x
            };
            input.generate_utxoset_key();
            t.from = vec![input.clone()];
            t.to = vec![slip_out(apk, input.amount)];
            t.timestamp = ts;
            t.sign(&ask);
            one(t)
        }
        "rival-spend-pooled-then-block" => {
            let rival = raw_tx(n, vec![own.clone()], vec![slip_out(vpk, own.amount)], &ask, ts + 5);
            let sig = rival.signature;
            let r = futures_catch(AssertUnwindSafe(w.node.mempool.add_transaction_if_validates(rival, &w.node.blockchain))).await;
            if r.is_err() || !w.node.mempool.transactions.contains_key(&sig) {
                w.scenario_failure = Some("a valid transaction was not pooled".to_string());
                return None;
            }
            one(raw_tx(n, vec![own.clone()], vec![slip_out(apk, own.amount)], &ask, ts))
        }
        "already-spent-input" => one(raw_tx(n, vec![w.spent_slip.clone()], vec![slip_out(apk, w.spent_slip.amount)], &ask, ts)),
        "duplicate-input-in-tx" => one(raw_tx(n, vec![own.clone(), own.clone()], vec![slip_out(apk, own.amount * 2)], &ask, ts)),
        "same-input-in-two-txs" => Some(vec![
            raw_tx(n, vec![own.clone()], vec![slip_out(apk, own.amount)], &ask, ts),
            raw_tx(n, vec![own.clone()], vec![slip_out(vpk, own.amount)], &ask, ts + 1),
        ]),
        "outputs-exceed-inputs" => one(raw_tx(n, vec![own.clone()], vec![slip_out(apk, own.amount + 1)], &ask, ts)),
        "type-issuance" => one(raw_tx(TransactionType::Issuance, vec![], vec![slip_out(apk, 123_456)], &ask, ts)),
        "type-spv-with-outputs" => one(raw_tx(TransactionType::SPV, vec![], vec![slip_out(apk, 123_456)], &ask, ts)),
        "type-fee-forged" => one(raw_tx(TransactionType::Fee, vec![], vec![slip_out(apk, 123_456)], &ask, ts)),
        "type-fee-forged-moves-victim-output" => one(raw_tx(TransactionType::Fee, vec![vic.clone()], vec![slip_out(apk, vic.amount)], &ask, ts)),
        "type-atr-forged" => one(raw_tx(TransactionType::ATR, vec![vic.clone()], vec![slip_out(apk, vic.amount)], &ask, ts)),
        "output-sum-wraps-u64" => one(raw_tx(n, vec![own.clone()], vec![slip_out(apk, u64::MAX - 5), slip_out(apk, own.amount + 6)], &ask, ts)),
        "expired-input" => {
            let s = w.expired_slip.clone()?;
            one(raw_tx(n, vec![s.clone()], vec![slip_out(apk, s.amount)], &ask, ts))
        }
        "window-edge-first-expired-atr" | "window-edge-last-valid-atr" => {
            if latest < gp {
                return None;
            }
            let id = if EDITS[e].name == "window-edge-first-expired-atr" { latest - gp } else { latest + 1 - gp };
            let s = w.own_atr_by_block.iter().find(|(b, _)| *b == id).map(|(_, s)| s.clone())?;
            one(raw_tx(n, vec![s.clone()], vec![slip_out(apk, s.amount)], &ask, ts))
        }
        "window-edge-last-valid" | "window-edge-first-expired" | "window-edge-expired-second-input" | "window-edge-expired-in-nft-create"
        | "window-edge-expired-in-stake-tx" => {
            if latest < gp {
                return None;
            }
            let at = |id: u64| w.left_behind.iter().find(|(b, _)| *b == id).map(|(_, s)| s.clone());
            let fresh = at(latest + 1 - gp)?;
            let old = at(latest - gp)?;
            match EDITS[e].name {
                "window-edge-last-valid" => one(raw_tx(n, vec![fresh.clone()], vec![slip_out(apk, fresh.amount)], &ask, ts)),
                "window-edge-first-expired" => one(raw_tx(n, vec![old.clone()], vec![slip_out(apk, old.amount)], &ask, ts)),
                "window-edge-expired-second-input" => one(raw_tx(n, vec![fresh.clone(), old.clone()], vec![slip_out(apk, fresh.amount + old.amount)], &ask, ts)),
                "window-edge-expired-in-nft-create" => {
                    let mut input = old.clone();
                    input.generate_utxoset_key();
                    let uuid = Wallet::create_nft_uuid(&input, "c01");
                    one(raw_tx(bd, vec![input.clone()], vec![slip_typed(apk, 1, SlipType::Bound), slip_out(apk, input.amount), slip_typed(uuid, 0, SlipType::Bound)], &ask, ts))
                }
                _ => one(raw_tx(st, vec![old.clone()], vec![slip_typed(apk, old.amount, SlipType::BlockStake)], &ask, ts)),
            }
        }
        "duplicate-input-in-tx-atr" | "duplicate-input-in-tx-block-stake" | "duplicate-input-in-tx-miner-output" | "duplicate-input-in-tx-router-output"
        | "same-input-in-two-txs-atr" | "same-input-in-two-txs-block-stake" | "same-input-in-two-txs-miner-output" => {
            let name = EDITS[e].name;
            let sl = if name.ends_with("-atr") {
                w.own_atr.clone().or(w.foreign_atr.clone())?
            } else if name.ends_with("-block-stake") {
                w.foreign_stake.clone()?
            } else if name.ends_with("-miner-output") {
                w.foreign_miner_output.clone()?
            } else {
                w.foreign_router_output.clone()?
            };
            // signed by the owner of the slip: only the duplicate is wrong
            let sk = sk_of(w, &sl.public_key)?;
            let pk = sl.public_key;
            if name.starts_with("duplicate") {
                one(raw_tx(n, vec![sl.clone(), sl.clone()], vec![slip_out(pk, sl.amount * 2)], &sk, ts))
            } else {
                Some(vec![
                    raw_tx(n, vec![sl.clone()], vec![slip_out(pk, sl.amount)], &sk, ts),
                    raw_tx(n, vec![sl.clone()], vec![slip_out(apk, sl.amount)], &sk, ts + 1),
                ])
            }
        }
        "type-golden-ticket-zero-signature" | "type-vip-zero-signature" | "type-golden-ticket-foreign-input" | "type-vip-foreign-input"
        | "type-golden-ticket-outputs-exceed-inputs" | "type-vip-outputs-exceed-inputs" => {
            let name = EDITS[e].name;
            let ty = if name.starts_with("type-golden") { TransactionType::GoldenTicket } else { TransactionType::Vip };
            // a golden-ticket-typed transaction only travels with a 97-byte ticket as payload
            // (the wire decoder refuses any other length, /repo eeb4ec7)
            let data = if ty == TransactionType::GoldenTicket {
                saito_core::core::consensus::golden_ticket::GoldenTicket::create(w.tip.hash, [3; 32], apk).serialize_for_net()
            } else {
                vec![]
            };
            let mk = |from: Vec<Slip>, to: Vec<Slip>| {
                let mut t = Transaction::default();
                t.transaction_type = ty;
                t.timestamp = ts;
                t.data = data.clone();
                for mut sl in from {
                    sl.generate_utxoset_key();
                    t.add_from_slip(sl);
                }
                for sl in to {
                    t.add_to_slip(sl);
                }
                t.sign(&ask);
                t
            };
            if name.ends_with("zero-signature") {
                let mut t = mk(vec![own.clone()], vec![slip_out(apk, own.amount)]);
                t.signature = [0; 64];
                one(t)
            } else if name.ends_with("foreign-input") {
                one(mk(vec![own.clone(), vic.clone()], vec![slip_out(apk, own.amount + vic.amount)]))
            } else {
                one(mk(vec![own.clone()], vec![slip_out(apk, own.amount + 1)]))
            }
        }
        "resplit-output-as-input" => {
            // the victim signs a payment of 1000 to the attacker with the change first:
            //   from=[a]  to=[b = change 2_000_000 to himself (slip_index 0), c = 1000 to the attacker (1)]
            // the attacker passes on, under the same signature,
            //   from=[a, b']  to=[c (slip_index 1 as signed)]
            // where b' is another unspent output of the victim with b's amount, slip_index 0 and type
            let a = w.victim_slips[1].clone();
            let b_alt = w.victim_slips[0].clone();
            if a.amount != b_alt.amount + 1000 || b_alt.slip_index != 0 {
                return None;
            }
            let signed = raw_tx(n, vec![a.clone()], vec![slip_out(vpk, b_alt.amount), slip_out(apk, 1000)], &vsk, ts);
            let mut t = signed.clone();
            let mut second = b_alt.clone();
            second.generate_utxoset_key();
            t.from.push(second);
            t.to.remove(0);
            // t.to[0] keeps slip_index 1, the value it was signed with
            t.hash_for_signature = None;
            if t.serialize_for_signature() != signed.serialize_for_signature() {
                w.scenario_failure = Some("the re-split transaction does not have the signed bytes of the original".to_string());
                return None;
            }
            one(t)
        }
        "type-spv-burns-own-input" => one(raw_tx(TransactionType::SPV, vec![own.clone()], vec![], &ask, ts)),
        "type-spv-burns-foreign-input" => {
            let mut t = raw_tx(TransactionType::SPV, vec![vic.clone()], vec![], &ask, ts);
            t.signature = [7; 64];
            one(t)
        }
        "type-spv-burns-nft-slip" => {
            let nft = w.nft_v2v.clone()?;
            let mut t = raw_tx(TransactionType::SPV, vec![nft.slips[0].clone()], vec![], &ask, ts);
            t.signature = [9; 64];
            one(t)
        }
        "same-input-in-two-txs-after-zero-input" => Some(vec![
            raw_tx(n, vec![own.clone()], vec![slip_out(apk, own.amount)], &ask, ts),
            raw_tx(n, vec![slip_out(apk, 0), own.clone()], vec![slip_out(vpk, own.amount)], &ask, ts + 1),
        ]),
        "bound-deposit-nft-twice-in-block" => {
            // the deposit (a Normal slip with an amount) follows the Bound slip in both transfers
            let nft = w.nft_a2a.clone()?;
            Some(vec![send_nft(&nft, apk, vec![], vec![], &ask, ts), send_nft(&nft, vpk, vec![], vec![], &ask, ts + 1)])
        }
        "type-spv-empty" => one(raw_tx(TransactionType::SPV, vec![], vec![], &ask, ts)),
        "tamper-after-signing-output-amount" | "tamper-after-signing-output-key" | "tamper-after-signing-output-type" | "tamper-after-signing-input-key"
        | "tamper-after-signing-data" | "tamper-after-signing-timestamp" | "tamper-after-signing-tx-type" | "tamper-after-signing-replacements" => {
            // the victim pays the attacker 1000 and keeps the change; the attacker (or anybody on the
            // route) alters one field and passes the transaction on with the victim's signature
            let mut t = Transaction::default();
            t.timestamp = ts;
            t.data = vec![1, 2, 3, 4];
            let mut i = vic.clone();
            i.generate_utxoset_key();
            t.add_from_slip(i);
            t.add_to_slip(slip_out(apk, 1000));
            t.add_to_slip(slip_out(vpk, vic.amount - 1000));
            t.sign(&vsk);
            match EDITS[e].name {
                "tamper-after-signing-output-amount" => {
                    t.to[0].amount += 500_000;
                    t.to[1].amount -= 500_000;
                }
                "tamper-after-signing-output-key" => t.to[1].public_key = apk,
                "tamper-after-signing-output-type" => t.to[1].slip_type = SlipType::ATR,
                "tamper-after-signing-input-key" => {
                    // another victim output of the same amount does not exist: the owner field alone
                    t.from[0].public_key = apk;
                }
                "tamper-after-signing-data" => t.data[0] ^= 1,
                "tamper-after-signing-timestamp" => t.timestamp += 1,
                "tamper-after-signing-tx-type" => t.transaction_type = TransactionType::Vip,
                _ => t.txs_replacements += 1,
            }
            // as received from the wire: the hash is recomputed by the receiver
            t.hash_for_signature = None;
            one(t)
        }
        "input-of-rejected-first-fork-block" => {
            // the node is on ..T-B; a branch T-C1-C2 arrives whose FIRST block carries the signed spend
            // of an output P that never existed (stored unvalidated: same length); C2 makes the
            // branch longer, the reorganisation is tried, fails at C1 and is abandoned
            if fork_carriers.len() < 3 {
                return None;
            }
            let mut p = if w.plan.wrapped() { fork_carriers[0].clone() } else { own.clone() };
            p.amount += 777;
            let t0 = w.tip.clone();
            let mk_carrier = |s: &Slip, at: u64| raw_tx(n, vec![s.clone()], vec![slip_out(apk, s.amount)], &ask, at);
            let b = make_block(&w.node, t0.hash, t0.timestamp + 100_000, vec![mk_carrier(&fork_carriers[2], t0.timestamp + 100_000)], true, 9_011).await.ok()?;
            if w.node.add_block(b.clone()).await != AddClass::OnChain {
                w.scenario_failure = Some("the valid block B was not accepted".to_string());
                return None;
            }
            // the builder accepts everything it is given up to C1: build C1 valid, C2 on it, then
            // swap the phantom spend into C1 and re-sign C1 and C2 (C2 names C1 by hash)
            let mut builder = fresh_world(built).await.node;
            let c1_ts = t0.timestamp + 101_000;
            let c1_carrier = mk_carrier(&fork_carriers[1], c1_ts);
            let mut c1 = make_block(&builder, t0.hash, c1_ts, vec![c1_carrier.clone()], true, 9_012).await.ok()?;
            let idx = c1.transactions.iter().position(|t| t.signature == c1_carrier.signature)?;
            c1.transactions[idx] = raw_tx(n, vec![p.clone()], vec![slip_out(apk, p.amount)], &ask, c1_ts);
            c1.merkle_root = [0; 32];
            c1.generate().ok()?;
            resign(&mut c1, &builder.sk);
            // a valid twin of C1 for the builder to stand on
            let c1v = make_block(&builder, t0.hash, c1_ts, vec![c1_carrier.clone()], true, 9_012).await.ok()?;
            if builder.add_block(c1v.clone()).await != AddClass::OnChain {
                return None;
            }
            let c2_ts = t0.timestamp + 140_000;
            let mut c2 = make_block(&builder, c1v.hash, c2_ts, vec![mk_carrier(&fork_carriers[0], c2_ts)], true, 9_013).await.ok()?;
            c2.previous_block_hash = c1.hash;
            resign(&mut c2, &builder.sk);
            let r1 = futures_catch(AssertUnwindSafe(w.node.add_block(c1.clone()))).await;
            let r2 = futures_catch(AssertUnwindSafe(w.node.add_block(c2.clone()))).await;
            if r1.is_err() || r2.is_err() {
                w.scenario_failure = Some(format!("add_block panicked while the invalid branch was delivered: {:?} {:?}", r1, r2));
                return None;
            }
            if r1 == Ok(AddClass::OnChain) || r2 == Ok(AddClass::OnChain) || w.node.blockchain.get_latest_block_hash() != b.hash {
                w.scenario_failure = Some(format!(
                    "after a branch whose first block spends a never-created output ({:?}, {:?}) the node is not back on its chain",
                    r1, r2
                ));
                return None;
            }
            w.tip = b.clone();
            w.history.push(b);
            one(raw_tx(n, vec![p.clone()], vec![slip_out(apk, p.amount)], &ask, ts + 1))
        }
        "input-of-rejected-fork-block" => {
            // the node is on ..T-B; a branch T-C1-C2 arrives whose second block carries a signed
            // spend of an output P that never existed: the reorganisation is tried and abandoned.
            // Afterwards the attacker spends P again.
            if fork_carriers.len() < 3 {
                return None;
            }
            let mut p = if w.plan.wrapped() { fork_carriers[0].clone() } else { own.clone() };
            p.amount += 777;
            let t0 = w.tip.clone();
            let mk_carrier = |s: &Slip, at: u64| raw_tx(n, vec![s.clone()], vec![slip_out(apk, s.amount)], &ask, at);
            let b = make_block(&w.node, t0.hash, t0.timestamp + 100_000, vec![mk_carrier(&fork_carriers[2], t0.timestamp + 100_000)], true, 9_001).await.ok()?;
            if w.node.add_block(b.clone()).await != AddClass::OnChain {
                return None;
            }
            let mut builder = fresh_world(built).await.node;
            let c1 = make_block(&builder, t0.hash, t0.timestamp + 101_000, vec![mk_carrier(&fork_carriers[1], t0.timestamp + 101_000)], true, 9_002).await.ok()?;
            if builder.add_block(c1.clone()).await != AddClass::OnChain {
                return None;
            }
            let c2_ts = t0.timestamp + 140_000;
            let c2_carrier = mk_carrier(&fork_carriers[0], c2_ts);
            let mut c2 = make_block(&builder, c1.hash, c2_ts, vec![c2_carrier.clone()], true, 9_003).await.ok()?;
            let idx = c2.transactions.iter().position(|t| t.signature == c2_carrier.signature)?;
            c2.transactions[idx] = raw_tx(n, vec![p.clone()], vec![slip_out(apk, p.amount)], &ask, c2_ts);
            c2.merkle_root = [0; 32];
            c2.generate().ok()?;
            resign(&mut c2, &builder.sk);
            let r1 = futures_catch(AssertUnwindSafe(w.node.add_block(c1.clone()))).await;
            let r2 = futures_catch(AssertUnwindSafe(w.node.add_block(c2.clone()))).await;
            if r1.is_err() || r2.is_err() {
                w.scenario_failure = Some(format!("add_block panicked while the invalid branch was delivered: {:?} {:?}", r1, r2));
                return None;
            }
            if r1 == Ok(AddClass::OnChain) || r2 == Ok(AddClass::OnChain) || w.node.blockchain.get_latest_block_hash() != b.hash {
                w.scenario_failure = Some(format!(
                    "after a branch whose second block spends a never-created output ({:?}, {:?}) the node is not back on its chain",
                    r1, r2
                ));
                return None;
            }
            w.tip = b.clone();
            w.history.push(b);
            one(raw_tx(n, vec![p.clone()], vec![slip_out(apk, p.amount)], &ask, ts + 1))
        }
        "unsigned-other-key" => {
            // signed by a key that owns nothing: from[0] is the victim's slip
            let other = keypair(9);
            one(raw_tx(n, vec![vic.clone()], vec![slip_out(other.0, vic.amount)], &other.1, ts))
        }
        "replayed-signature-other-output" => {
            // the victim's on-chain payment, its input replaced by another unspent output of
            // the victim with the same amount / slip index / type; signature untouched
            let mut t = w.replay_src.clone();
            let mut s = w.replay_alt.clone();
            s.generate_utxoset_key();
            t.from[0] = s;
            one(t)
        }
        // ------------------------------------------------------------ BlockStake
        "stake-valid-wallet" => {
            // the attacker stakes his own coins with the real wallet function
            let mut t = w
                .aw
                .clone()
                .create_staking_transaction(stake_amt, w.node.blockchain.get_latest_unlocked_stake_block_id(), (latest + 1).saturating_sub(gp))
                .ok()?;
            t.timestamp = ts;
            t.sign(&ask);
            one(t)
        }
        "stake-valid-producer" => {
            let mut t = stake_tx_of_node(&w.node).await?;
            t.timestamp = ts + 7;
            let sk = w.node.sk;
            t.sign(&sk);
            one(t)
        }
        "stake-foreign-input" => one(raw_tx(st, vec![vic.clone()], vec![slip_typed(apk, vic.amount, SlipType::BlockStake)], &ask, ts)),
        "stake-foreign-extra-input" => one(raw_tx(
            st,
            vec![own.clone(), vic.clone()],
            vec![slip_typed(apk, stake_amt, SlipType::BlockStake), slip_out(apk, own.amount + vic.amount - stake_amt)],
            &ask,
            ts,
        )),
        "stake-signature-zero" => {
            let mut t = raw_tx(st, vec![own.clone()], vec![slip_typed(apk, stake_amt, SlipType::BlockStake), slip_out(apk, own.amount - stake_amt)], &ask, ts);
            t.signature = [0; 64];
            one(t)
        }
        "stake-no-inputs-mints" => one(raw_tx(st, vec![], vec![slip_typed(apk, stake_amt, SlipType::BlockStake), slip_out(apk, 123_456)], &ask, ts)),
        "stake-inflated-outputs" => one(raw_tx(st, vec![own.clone()], vec![slip_typed(apk, own.amount, SlipType::BlockStake), slip_out(apk, 1000)], &ask, ts)),
        "stake-output-type-vip" => one(raw_tx(
            st,
            vec![own.clone()],
            vec![slip_typed(apk, stake_amt, SlipType::BlockStake), slip_typed(apk, own.amount - stake_amt, SlipType::VipOutput)],
            &ask,
            ts,
        )),
        "stake-below-requirement" => {
            if req == 0 {
                return None;
            }
            one(raw_tx(st, vec![own.clone()], vec![slip_typed(apk, req - 1, SlipType::BlockStake), slip_out(apk, own.amount - req + 1)], &ask, ts))
        }
        "stake-locked-input" => {
            // the producer re-stakes the stake it locked in the tip block
            let s = w.locked_stake.clone()?;
            let (npk, nsk) = (w.node.pk, w.node.sk);
            one(raw_tx(st, vec![s.clone()], vec![slip_typed(npk, s.amount, SlipType::BlockStake)], &nsk, ts))
        }
        "stake-locked-spent-by-normal-tx" => {
            let s = w.locked_stake.clone()?;
            let (npk, nsk) = (w.node.pk, w.node.sk);
            one(raw_tx(n, vec![s.clone()], vec![slip_out(npk, s.amount)], &nsk, ts))
        }
        // ------------------------------------------------------------ Bound (NFT)
        "bound-create-valid" => {
            let mut t = w
                .aw
                .clone()
                .create_bound_transaction(own.amount, own.block_id, own.tx_ordinal, own.slip_index as u64, 250_000, vec![], &vpk, None, latest, gp, "c01".to_string())
                .await
                .ok()?;
            t.timestamp = ts;
            t.sign(&ask);
            one(t)
        }
        "bound-send-valid" => {
            // creator = holder: the attacker hands his NFT to the victim (real wallet function)
            let id = w.nft_a2a.as_ref()?.id();
            let mut t = w.aw.clone().create_send_bound_transaction(1, id, vec![], &vpk).await.ok()?;
            t.timestamp = ts;
            t.sign(&ask);
            one(t)
        }
        "bound-owner-not-creator-sends" => {
            // the victim holds the NFT the attacker minted for him and sends it on
            let id = w.nft_a2v.as_ref()?.id();
            let mut t = w.vw.clone().create_send_bound_transaction(1, id, vec![], &keypair(9).0).await.ok()?;
            t.timestamp = ts;
            t.sign(&vsk);
            one(t)
        }
        "bound-creator-reclaims-deposit" => {
            // the creator moves the NFT he gave away -- and the holder's deposit -- to himself
            let nft = w.nft_a2v.clone()?;
            one(send_nft(&nft, apk, vec![], vec![], &ask, ts))
        }
        "bound-foreign-extra-input" => {
            // the attacker's own NFT, plus a Normal output of the victim as 4th input
            let nft = w.nft_a2a.clone()?;
            one(send_nft(&nft, apk, vec![vic.clone()], vec![slip_out(apk, vic.amount)], &ask, ts))
        }
        "bound-fabricated-triple" => {
            // no NFT needed: zero-amount Bound slips invented around an output of the victim
            let v = w.victim_change.clone();
            let mut f0 = slip_typed(apk, 0, SlipType::Bound);
            f0.block_id = v.block_id;
            f0.tx_ordinal = v.tx_ordinal;
            f0.slip_index = v.slip_index - 1;
            let mut f2 = f0.clone();
            f2.slip_index = v.slip_index + 1;
            one(raw_tx(bd, vec![f0.clone(), v.clone(), f2.clone()], vec![f0, slip_out(apk, v.amount), f2], &ask, ts))
        }
        "bound-send-others-nft" => {
            let nft = w.nft_v2v.clone()?;
            one(send_nft(&nft, apk, vec![], vec![], &ask, ts))
        }
        "bound-detached-triple" => {
            // the Normal slip of the triple replaced by the Normal slip of ANOTHER NFT of the
            // attacker (same block, slip index 1 as well, different transaction)
            let nft = w.nft_a0.clone()?;
            let other = w.nft_a2a.clone()?.slips[1].clone();
            one(raw_tx(
                bd,
                vec![nft.slips[0].clone(), other.clone(), nft.slips[2].clone()],
                vec![nft.slips[0].clone(), slip_out(apk, other.amount), nft.slips[2].clone()],
                &ask,
                ts,
            ))
        }
        "bound-send-amount-modified" => {
            let nft = w.nft_a2a.clone()?;
            let mut t = send_nft(&nft, apk, vec![], vec![], &ask, ts);
            t.to[0].amount = 5;
            t.sign(&ask);
            one(t)
        }
        "bound-send-wrong-order" => {
            let nft = w.nft_a2a.clone()?;
            one(raw_tx(
                bd,
                vec![nft.slips[1].clone(), nft.slips[0].clone(), nft.slips[2].clone()],
                vec![slip_out(apk, nft.slips[1].amount), nft.slips[0].clone(), nft.slips[2].clone()],
                &ask,
                ts,
            ))
        }
        "bound-send-uuid-modified" => {
            let nft = w.nft_a2a.clone()?;
            let mut t = send_nft(&nft, apk, vec![], vec![], &ask, ts);
            t.to[2].public_key[20] ^= 1;
            t.sign(&ask);
            one(t)
        }
        "bound-send-forged-uuid-input" => {
            // slip3 carries no amount, so nothing ties it to the ledger: the id is rewritten
            let nft = w.nft_a2a.clone()?;
            let mut t = send_nft(&nft, apk, vec![], vec![], &ask, ts);
            let other = w.nft_v2v.clone()?.slips[2].public_key;
            t.from[2].public_key = other;
            t.to[2].public_key = other;
            t.sign(&ask);
            one(t)
        }
        "bound-send-deposit-inflated" => {
            let nft = w.nft_a2a.clone()?;
            let mut t = send_nft(&nft, apk, vec![], vec![], &ask, ts);
            t.to[1].amount += 1;
            t.sign(&ask);
            one(t)
        }
        "bound-create-id-block-mismatch" | "bound-create-id-ordinal-mismatch" | "bound-create-id-index-mismatch" | "bound-create-slip3-nonzero"
        | "bound-create-inflated" | "bound-create-extra-bound-output" => {
            let mut t = w
                .aw
                .clone()
                .create_bound_transaction(own.amount, own.block_id, own.tx_ordinal, own.slip_index as u64, 250_000, vec![], &apk, None, latest, gp, "c01".to_string())
                .await
                .ok()?;
            t.timestamp = ts;
            match EDITS[e].name {
                "bound-create-id-block-mismatch" => t.to[2].public_key[7] ^= 1,
                "bound-create-id-ordinal-mismatch" => t.to[2].public_key[15] ^= 1,
                "bound-create-id-index-mismatch" => t.to[2].public_key[16] ^= 1,
                "bound-create-slip3-nonzero" => t.to[2].amount = 1,
                "bound-create-inflated" => t.to[3].amount += 1,
                _ => t.add_to_slip(slip_typed(apk, 1_000_000_000_000, SlipType::Bound)),
            }
            t.sign(&ask);
            one(t)
        }
        "bound-create-foreign-input" => {
            let mut input = vic.clone();
            input.generate_utxoset_key();
            let uuid = Wallet::create_nft_uuid(&input, "c01");
            one(raw_tx(
                bd,
                vec![input.clone()],
                vec![slip_typed(apk, 1, SlipType::Bound), slip_out(apk, input.amount), slip_typed(uuid, 0, SlipType::Bound)],
                &ask,
                ts,
            ))
        }
        "bound-slip-in-normal-tx-output" => one(raw_tx(n, vec![own.clone()], vec![slip_out(apk, own.amount), slip_typed(apk, 1_000_000_000, SlipType::Bound)], &ask, ts)),
        "bound-slip-in-normal-tx-input" => {
            let nft = w.nft_a2a.clone()?;
            one(raw_tx(n, vec![own.clone(), nft.slips[0].clone()], vec![slip_out(apk, own.amount)], &ask, ts))
        }
        "bound-same-nft-twice-in-block" => {
            // an NFT without deposit has no value-carrying slip: both transfers pass the sweep
            let nft = w.nft_a0.clone()?;
            Some(vec![send_nft(&nft, apk, vec![], vec![], &ask, ts), send_nft(&nft, vpk, vec![], vec![], &ask, ts + 1)])
        }
        _ => None,
    }
}

/// attacker's block: a consistent block around a valid zero-fee transaction of
/// the attacker (plus the producer's staking transaction where required), whose
/// carrier (or staking transaction) is then swapped for the adversarial one(s)
async fn attacker_block(w: &World, adversarial: &[Transaction], stake_slot: bool, direct: bool, ts: u64, seed: u64) -> Option<Block> {
    if adversarial.len() == 1 && adversarial[0].transaction_type == TransactionType::GoldenTicket && adversarial[0].data.len() == 97 && adversarial[0].from.len() == 1 && adversarial[0].from[0].amount > 0 && adversarial[0].to.len() == 1 {
        // a ticket transaction with value slips: the block is produced with it as ITS golden ticket
        // (a second ticket would be refused for that reason alone)
        let own2 = if w.plan.wrapped() { w.chain_head.clone() } else { w.attacker_slips[0].clone() };
        let carrier = raw_tx(TransactionType::Normal, vec![own2.clone()], vec![slip_out(w.attacker.0, own2.amount)], &w.attacker.1, ts);
        let mut map = fixed_tx_map();
        let mut txs = vec![carrier];
        if w.plan.stake > 0 {
            txs.push(stake_tx_of_node(&w.node).await?);
        }
        for mut t in txs {
            t.generate(&w.node.pk, 0, 0);
            map.insert(t.signature, t);
        }
        let mut gt = adversarial[0].clone();
        gt.generate(&w.node.pk, 0, 0);
        let mut b = Block::create(&mut map, w.tip.hash, &w.node.blockchain, ts, &w.node.pk, &w.node.sk, Some(gt), &w.node.cfg, &w.node.storage)
            .await
            .ok()?;
        b.generate().ok()?;
        b.sign(&w.node.sk);
        b.generate().ok()?;
        return Some(b);
    }
    if direct {
        // a fee-paying adversarial transaction: the block is produced around it (header values follow
        // from its fee), then the fields the producer normalised are put back as the attacker sent them
        let mut txs: Vec<Transaction> = adversarial.to_vec();
        if w.plan.stake > 0 {
            txs.push(stake_tx_of_node(&w.node).await?);
        }
        let mut b = make_block(&w.node, w.tip.hash, ts, txs, true, seed).await.ok()?;
        for t in b.transactions.iter_mut() {
            if let Some(orig) = adversarial.iter().find(|o| o.signature == t.signature) {
                for (k, sl) in t.to.iter_mut().enumerate() {
                    sl.slip_index = orig.to[k].slip_index;
                }
            }
        }
        // what a receiving node does first (VerificationThread::verify_block): generate
        b.merkle_root = [0; 32];
        b.generate().ok()?;
        resign(&mut b, &w.node.sk);
        return Some(b);
    }
    // genesis outputs are gone once the window has wrapped: the head of the attacker's chain then
    let own2 = if w.plan.wrapped() { w.chain_head.clone() } else { w.attacker_slips[0].clone() };
    let carrier = raw_tx(TransactionType::Normal, vec![own2.clone()], vec![slip_out(w.attacker.0, own2.amount)], &w.attacker.1, ts);
    let mut txs = vec![carrier.clone()];
    let mut stake_sig = None;
    if w.plan.stake > 0 {
        let st = stake_tx_of_node(&w.node).await?;
        stake_sig = Some(st.signature);
        txs.push(st);
    }
    let mut b = make_block(&w.node, w.tip.hash, ts, txs, true, seed).await.ok()?;
    let replace_sig = if stake_slot && stake_sig.is_some() { stake_sig.unwrap() } else { carrier.signature };
    let idx = b.transactions.iter().position(|t| t.signature == replace_sig)?;
    b.transactions.remove(idx);
    for (k, t) in adversarial.iter().enumerate() {
        b.transactions.insert(idx + k, t.clone());
    }
    b.merkle_root = [0; 32];
    b.generate().ok()?;
    resign(&mut b, &w.node.sk);
    Some(b)
}

/// the abstract transaction of the first "(atx, verdict)" pair of a case
fn abstract_tx_of_case(pairs: &[String]) -> String {
    let p = &pairs[0];
    let cut = p.rfind(", ").unwrap();
    format!("({})", &p[1..cut])
}

fn be64(b: &[u8]) -> u64 {
    u64::from_be_bytes(b.try_into().unwrap())
}

/// abstract transaction for the Coq model (TxValid.atx); oracle bits by the real code
fn abstract_tx(node: &Node, tx: &Transaction, int: &mut Interner) -> String {
    let slip = |s: &Slip, int: &mut Interner| {
        let spendable = node.blockchain.utxoset.get(&s.utxoset_key).copied().unwrap_or(false);
        let unlocked = node.blockchain.is_slip_unlocked(&s.utxoset_key);
        if unlocked != unlocked_independent(node, &s.utxoset_key) {
            DISCREPANCIES.lock().unwrap().push(format!(
                "Blockchain::is_slip_unlocked says {} for {}-{}-{} (type {}, amount {}) at tip {}, the stated rule says {}",
                unlocked,
                be64(&s.utxoset_key[33..41]),
                be64(&s.utxoset_key[41..49]),
                s.utxoset_key[49],
                s.utxoset_key[58],
                be64(&s.utxoset_key[50..58]),
                node.blockchain.get_latest_block_id(),
                !unlocked
            ));
        }
        format!(
            "mkSlip {} {} {} {} {} {} {} {} {} {} {} {} {}",
            int.get(&s.public_key),
            s.amount,
            s.slip_type as u8,
            int.get(&s.utxoset_key),
            gal::boolean(spendable),
            s.block_id,
            s.tx_ordinal,
            s.slip_index,
            gal::boolean(unlocked),
            be64(&s.utxoset_key[50..58]),
            be64(&s.public_key[0..8]),
            be64(&s.public_key[8..16]),
            s.public_key[16]
        )
    };
    let from: Vec<String> = tx.from.iter().map(|s| slip(s, int)).collect();
    let to: Vec<String> = tx.to.iter().map(|s| slip(s, int)).collect();
    // the key the signature must verify against, restated: the owner of the first input; in a
    // Bound transaction with >= 3 inputs whose first is a Bound slip and whose second carries an
    // amount, the owner of the second
    let signer_key = if tx.from.is_empty() {
        None
    } else if tx.transaction_type == TransactionType::Bound && tx.from.len() >= 3 && tx.from[0].slip_type == SlipType::Bound && tx.from[1].amount > 0 {
        Some(tx.from[1].public_key)
    } else {
        Some(tx.from[0].public_key)
    };
    if let Some(k) = signer_key {
        if tx.signer_public_key() != k {
            DISCREPANCIES.lock().unwrap().push(format!("Transaction::signer_public_key differs from the stated rule for {}", tx_desc(tx)));
        }
    }
    let sig_ok = match (&tx.hash_for_signature, signer_key) {
        (Some(h), Some(k)) => verify_signature(h, &tx.signature, &k),
        _ => false,
    };
    format!(
        "mkTx {} {} {} {} {} {}",
        tx.transaction_type as u8,
        gal::list(&from),
        gal::list(&to),
        gal::boolean(sig_ok),
        gal::boolean(tx.hash_for_signature.is_some()),
        gal::boolean(tx.validate_routing_path())
    )
}

/// are u64/u8 overflow checks compiled in (debug profile)?
fn overflow_checks_on() -> bool {
    let x = std::hint::black_box(u64::MAX);
    std::panic::catch_unwind(|| std::hint::black_box(x + std::hint::black_box(1))).is_err()
}

fn real_verdict(node: &Node, t: &Transaction) -> u64 {
    match std::panic::catch_unwind(AssertUnwindSafe(|| t.validate(&node.blockchain.utxoset, &node.blockchain, true))) {
        Ok(true) => 1,
        Ok(false) => 0,
        Err(_) => 9,
    }
}

fn tx_desc(t: &Transaction) -> String {
    let sl = |s: &Slip| format!("[{},{},{},{},{}]", s.slip_type as u8, s.amount, s.block_id, s.tx_ordinal, s.slip_index);
    format!(
        "{{\"type\":{},\"from\":[{}],\"to\":[{}]}}",
        t.transaction_type as u8,
        t.from.iter().map(sl).collect::<Vec<_>>().join(","),
        t.to.iter().map(sl).collect::<Vec<_>>().join(",")
    )
}

// ---------------------------------------------------------------- field mutations

const SLIP_TYPES: &[SlipType] = &[SlipType::Normal, SlipType::Bound, SlipType::BlockStake, SlipType::ATR, SlipType::VipOutput];
const TX_TYPES: &[TransactionType] = &[
    TransactionType::Normal,
    TransactionType::BlockStake,
    TransactionType::Bound,
    TransactionType::GoldenTicket,
    TransactionType::ATR,
    TransactionType::Issuance,
    TransactionType::SPV,
    TransactionType::Vip,
    TransactionType::Fee,
];

/// valid transactions of the attacker in world `w` that the mutations start from
async fn bases(w: &mut World, built: &Built, ts: u64) -> Vec<(&'static str, Transaction, SaitoPrivateKey)> {
    let mut v = vec![];
    let mut r = Rng::new(ts);
    for name in [
        "baseline-valid",
        "stake-valid-wallet",
        "stake-valid-producer",
        "bound-create-valid",
        "bound-send-valid",
        "bound-foreign-extra-input",
        "bound-fabricated-triple",
        "bound-creator-reclaims-deposit",
    ] {
        let e = EDITS.iter().position(|x| x.name == name).unwrap();
        if let Some(mut t) = make_edit(w, built, e, ts, &mut r).await {
            let sk = if name == "stake-valid-producer" { w.node.sk } else { w.attacker.1 };
            v.push((name, t.remove(0), sk));
        }
    }
    v
}

fn mutate(w: &World, t: &mut Transaction, rng: &mut Rng) -> &'static str {
    let nf = t.from.len() as u64;
    let nt = t.to.len() as u64;
    let pick_amount = |rng: &mut Rng, cur: u64| *rng.pick(&[0u64, 1, cur.wrapping_add(1), cur.saturating_sub(1), u64::MAX, u64::MAX - 3, 1 << 63]);
    match rng.below(17) {
        0 if nf > 0 => {
            let i = rng.below(nf) as usize;
            t.from[i].slip_type = *rng.pick(SLIP_TYPES);
            "from-type"
        }
        1 if nt > 0 => {
            let i = rng.below(nt) as usize;
            t.to[i].slip_type = *rng.pick(SLIP_TYPES);
            "to-type"
        }
        2 if nf > 0 => {
            let i = rng.below(nf) as usize;
            t.from[i].amount = pick_amount(rng, t.from[i].amount);
            "from-amount"
        }
        3 if nt > 0 => {
            let i = rng.below(nt) as usize;
            t.to[i].amount = pick_amount(rng, t.to[i].amount);
            "to-amount"
        }
        4 if nf > 0 => {
            let i = rng.below(nf) as usize;
            t.from[i].slip_index = *rng.pick(&[0u8, 1, 2, 3, 254, 255]);
            "from-slip-index"
        }
        5 if nf > 0 => {
            let i = rng.below(nf) as usize;
            if rng.below(2) == 0 {
                t.from[i].block_id += 1;
            } else {
                t.from[i].tx_ordinal += 1;
            }
            "from-location"
        }
        6 if nf > 1 => {
            let i = rng.below(nf) as usize;
            let j = rng.below(nf) as usize;
            t.from.swap(i, j);
            "from-swap"
        }
        7 if nt > 1 => {
            let i = rng.below(nt) as usize;
            let j = rng.below(nt) as usize;
            t.to.swap(i, j);
            "to-swap"
        }
        8 if nf > 0 => {
            let i = rng.below(nf) as usize;
            t.from.remove(i);
            "from-remove"
        }
        9 if nt > 0 => {
            let i = rng.below(nt) as usize;
            t.to.remove(i);
            "to-remove"
        }
        10 if nf > 0 => {
            let i = rng.below(nf) as usize;
            let s = t.from[i].clone();
            t.from.push(s);
            "from-duplicate"
        }
        11 if nf > 0 => {
            let i = rng.below(nf) as usize;
            t.from[i].public_key = *rng.pick(&[w.attacker.0, w.victim.0, w.node.pk]);
            "from-key"
        }
        12 if nt > 0 => {
            let i = rng.below(nt) as usize;
            t.to[i].public_key = *rng.pick(&[w.attacker.0, w.victim.0, t.to[i].public_key]);
            if rng.below(2) == 0 {
                t.to[i].public_key[rng.below(17) as usize] ^= 1;
            }
            "to-key"
        }
        13 => {
            t.transaction_type = *rng.pick(TX_TYPES);
            "tx-type"
        }
        14 => {
            let s = rng.pick(&[w.victim_slips[0].clone(), w.attacker_slips[1].clone(), w.attacker_slips[2].clone()]).clone();
            let at = rng.below(nf + 1) as usize;
            t.from.insert(at, s);
            "from-insert"
        }
        15 => {
            let s = slip_typed(w.attacker.0, *rng.pick(&[0u64, 1, 1000]), *rng.pick(SLIP_TYPES));
            let at = rng.below(nt + 1) as usize;
            t.to.insert(at, s);
            "to-insert"
        }
        _ => {
            if let Some(nft) = &w.nft_a0 {
                // the zero-deposit NFT's slips in front: another way into the send rules
                let mut f = nft.slips.to_vec();
                f.extend(t.from.drain(..));
                t.from = f;
                let mut o = vec![nft.slips[0].clone(), slip_out(w.attacker.0, 0), nft.slips[2].clone()];
                o.extend(t.to.drain(..));
                t.to = o;
                "prepend-triple"
            } else {
                "none"
            }
        }
    }
}

/// scripted transactions around the two additions that can overflow
fn overflow_cases(w: &World, ts: u64) -> Vec<(&'static str, Transaction)> {
    let (apk, ask) = (w.attacker.0, w.attacker.1);
    let own = w.attacker_slips[1].clone();
    let mut v = vec![];
    for (name, outs) in [
        ("stake-sum-overflows", vec![(u64::MAX, SlipType::BlockStake), (5, SlipType::BlockStake)]),
        ("stake-sum-overflows-after-bad-type", vec![(5, SlipType::VipOutput), (u64::MAX, SlipType::BlockStake), (5, SlipType::BlockStake)]),
        ("stake-sum-overflows-before-bad-type", vec![(u64::MAX, SlipType::BlockStake), (5, SlipType::BlockStake), (5, SlipType::VipOutput)]),
        ("stake-sum-max-exact", vec![(u64::MAX - 5, SlipType::BlockStake), (5, SlipType::BlockStake)]),
        ("stake-normal-huge", vec![(u64::MAX, SlipType::Normal), (5, SlipType::BlockStake), (u64::MAX, SlipType::Normal)]),
    ] {
        let to = outs.iter().map(|(a, ty)| slip_typed(apk, *a, *ty)).collect();
        v.push((name, raw_tx(TransactionType::BlockStake, vec![own.clone()], to, &ask, ts)));
    }
    for (name, i0, i1, i2) in [
        ("send-index-255-0-1", 255u8, 0u8, 1u8),
        ("send-index-254-255-0", 254, 255, 0),
        ("send-index-253-254-255", 253, 254, 255),
        ("send-index-255-1-2", 255, 1, 2),
        ("send-index-7-8-10", 7, 8, 10),
    ] {
        let mk = |i: u8, ty: SlipType| {
            let mut s = slip_typed(apk, 0, ty);
            s.block_id = 1;
            s.tx_ordinal = 3;
            s.slip_index = i;
            s
        };
        let (f0, f1, f2) = (mk(i0, SlipType::Bound), mk(i1, SlipType::Normal), mk(i2, SlipType::Bound));
        v.push((name, raw_tx(TransactionType::Bound, vec![f0.clone(), f1.clone(), f2.clone()], vec![f0, slip_out(apk, 0), f2], &ask, ts)));
    }
    v
}

/// one transaction per rule of the BlockStake / Bound branches that breaks that rule and
/// nothing else (the altered slips are zero-amount, invented ones or outputs being created, so
/// the ledger look-ups are unaffected), each preceded by its valid base
async fn rule_probes(w: &mut World, ts: u64) -> Vec<(String, Transaction)> {
    let (apk, ask) = (w.attacker.0, w.attacker.1);
    let mut v: Vec<(String, Transaction)> = vec![];
    // ---- send rules: an invented triple around an output of the attacker himself
    let mid = w.attacker_idx2.clone();
    let mk = |d_idx: i16| {
        let mut s = slip_typed(apk, 0, SlipType::Bound);
        s.block_id = mid.block_id;
        s.tx_ordinal = mid.tx_ordinal;
        s.slip_index = (mid.slip_index as i16 + d_idx) as u8;
        s
    };
    let base_from = vec![mk(-1), mid.clone(), mk(1)];
    let base_to = vec![mk(-1), slip_out(apk, mid.amount), mk(1)];
    let zero_normal = slip_out(apk, 0);
    let zero_bound = slip_typed(apk, 0, SlipType::Bound);
    let mut send = |name: &str, f: &dyn Fn(&mut Vec<Slip>, &mut Vec<Slip>)| {
        let (mut from, mut to) = (base_from.clone(), base_to.clone());
        f(&mut from, &mut to);
        v.push((format!("send:{}", name), raw_tx(TransactionType::Bound, from, to, &ask, ts)));
    };
    send("base", &|_, _| {});
    send("from0-normal", &|f, _| f[0].slip_type = SlipType::Normal);
    send("from2-normal", &|f, _| f[2].slip_type = SlipType::Normal);
    send("to0-normal", &|_, t| t[0].slip_type = SlipType::Normal);
    send("to1-bound", &|_, t| t[1].slip_type = SlipType::Bound);
    send("to1-atr", &|_, t| t[1].slip_type = SlipType::ATR);
    send("to2-normal", &|_, t| t[2].slip_type = SlipType::Normal);
    send("extra-from-normal", &|f, _| f.push(zero_normal.clone()));
    send("extra-from-bound", &|f, _| f.push(zero_bound.clone()));
    send("extra-to-normal", &|_, t| t.push(zero_normal.clone()));
    send("extra-to-bound", &|_, t| t.push(zero_bound.clone()));
    send("to0-key", &|_, t| t[0].public_key[5] ^= 1);
    send("to2-key", &|_, t| t[2].public_key[5] ^= 1);
    send("to0-amount", &|_, t| t[0].amount = 1);
    send("to2-amount", &|_, t| t[2].amount = 1);
    send("from0-block", &|f, _| f[0].block_id += 1);
    send("from2-block", &|f, _| f[2].block_id += 1);
    send("from0-ordinal", &|f, _| f[0].tx_ordinal += 1);
    send("from2-ordinal", &|f, _| f[2].tx_ordinal += 1);
    send("from0-index", &|f, _| f[0].slip_index -= 1);
    send("from2-index", &|f, _| f[2].slip_index += 1);
    send("two-inputs", &|f, _| {
        f.pop();
    });
    send("two-outputs", &|_, t| {
        t.pop();
    });
    // ---- create rules
    let own = w.attacker_slips[2].clone();
    let latest = w.node.blockchain.get_latest_block_id();
    let base = w
        .aw
        .clone()
        .create_bound_transaction(own.amount, own.block_id, own.tx_ordinal, own.slip_index as u64, 250_000, vec![], &apk, None, latest, w.plan.gp, "c01".to_string())
        .await;
    if let Ok(mut base) = base {
        base.timestamp = ts;
        let mut create = |name: &str, f: &dyn Fn(&mut Transaction)| {
            let mut t = base.clone();
            f(&mut t);
            t.sign(&ask);
            v.push((format!("create:{}", name), t));
        };
        create("base", &|_| {});
        create("to0-normal", &|t| t.to[0].slip_type = SlipType::Normal);
        create("to1-bound", &|t| t.to[1].slip_type = SlipType::Bound);
        create("to1-stake", &|t| t.to[1].slip_type = SlipType::BlockStake);
        create("to2-normal", &|t| t.to[2].slip_type = SlipType::Normal);
        create("to2-amount", &|t| t.to[2].amount = 1);
        create("to3-bound", &|t| t.to[3].slip_type = SlipType::Bound);
        create("id-block", &|t| t.to[2].public_key[7] ^= 1);
        create("id-block-high", &|t| t.to[2].public_key[0] ^= 1);
        create("id-ordinal", &|t| t.to[2].public_key[15] ^= 1);
        create("id-index", &|t| t.to[2].public_key[16] ^= 1);
        create("id-type-tag", &|t| t.to[2].public_key[17] ^= 1);
        create("to0-amount-huge", &|t| t.to[0].amount = u64::MAX);
        create("two-outputs", &|t| t.to.truncate(2));
        create("three-outputs", &|t| t.to.truncate(3));
        create("input-bound", &|t| t.from[0].slip_type = SlipType::Bound);
        create("second-input", &|t| t.from.push(zero_normal.clone()));
    } else {
        // the wallet refused to build the base transaction: the probes below it would silently vanish
        v.push(("create:BASE-UNAVAILABLE".to_string(), Transaction::default()));
    }
    // ---- stake rules
    let own = w.attacker_slips[3].clone();
    let req = w.node.blockchain.social_stake_requirement.max(1000);
    let mut stake = |name: &str, outs: Vec<Slip>, extra_in: Vec<Slip>| {
        let mut from = vec![own.clone()];
        from.extend(extra_in);
        v.push((format!("stake:{}", name), raw_tx(TransactionType::BlockStake, from, outs, &ask, ts)));
    };
    stake("base", vec![slip_typed(apk, req, SlipType::BlockStake), slip_out(apk, own.amount - req)], vec![]);
    stake("exact-two-slips", vec![slip_typed(apk, req - 1, SlipType::BlockStake), slip_typed(apk, 1, SlipType::BlockStake)], vec![]);
    stake("one-short", vec![slip_typed(apk, req - 1, SlipType::BlockStake), slip_out(apk, 1)], vec![]);
    stake("out-atr", vec![slip_typed(apk, req, SlipType::BlockStake), slip_typed(apk, 1, SlipType::ATR)], vec![]);
    stake("out-bound", vec![slip_typed(apk, req, SlipType::BlockStake), slip_typed(apk, 1, SlipType::Bound)], vec![]);
    stake("zero-amount-input", vec![slip_typed(apk, req, SlipType::BlockStake)], vec![zero_normal.clone()]);
    if let Some(l) = w.locked_stake.clone() {
        let (npk, nsk) = (w.node.pk, w.node.sk);
        v.push(("stake:locked".to_string(), raw_tx(TransactionType::BlockStake, vec![l.clone()], vec![slip_typed(npk, l.amount, SlipType::BlockStake)], &nsk, ts)));
    }
    // ---- the age rule: `block_id + genesis_period` on a block_id chosen by the sender
    {
        let own = w.attacker_slips[1].clone();
        for (name, bid, amount) in [
            ("huge-block-id", u64::MAX, 5u64),
            ("huge-block-id-zero-amount", u64::MAX, 0),
            ("wrapping-block-id", u64::MAX - w.plan.gp + 1, 5),
            ("largest-non-wrapping-block-id", u64::MAX - w.plan.gp, 5),
            ("future-block-id", w.node.blockchain.get_latest_block_id() + 50, 5),
        ] {
            let mut s = slip_out(apk, amount);
            s.block_id = bid;
            v.push((format!("age:{}", name), raw_tx(TransactionType::Normal, vec![own.clone(), s], vec![slip_out(apk, own.amount)], &ask, ts)));
        }
        let mut s = slip_typed(apk, 5, SlipType::Bound);
        s.block_id = u64::MAX;
        v.push(("age:huge-block-id-bound-slip".to_string(), raw_tx(TransactionType::Bound, vec![own.clone(), s], vec![slip_out(apk, own.amount)], &ask, ts)));
    }
    // ---- further single rules
    {
        let own = w.attacker_slips[1].clone();
        let mut t = raw_tx(TransactionType::Normal, vec![own.clone()], vec![slip_out(apk, own.amount)], &ask, ts);
        t.hash_for_signature = None;
        v.push(("normal:no-hash".to_string(), t));
        v.push(("normal:no-outputs".to_string(), raw_tx(TransactionType::Normal, vec![own.clone()], vec![], &ask, ts)));
        v.push(("normal:no-inputs".to_string(), raw_tx(TransactionType::Normal, vec![], vec![slip_out(apk, 0)], &ask, ts)));
        // the same zero-amount input twice in a staking transaction (the keys-unique rule)
        let z = slip_out(apk, 0);
        v.push(("stake:dup-zero-input".to_string(), raw_tx(TransactionType::BlockStake, vec![own.clone(), z.clone(), z.clone()], vec![slip_typed(apk, own.amount, SlipType::BlockStake)], &ask, ts)));
        for ty in [TransactionType::SPV] {
            v.push(("spv:own-input-zero-out".to_string(), raw_tx(ty, vec![own.clone()], vec![], &ask, ts)));
            v.push(("spv:zero-input-zero-out".to_string(), raw_tx(ty, vec![slip_out(apk, 0)], vec![slip_out(apk, 0)], &ask, ts)));
            v.push(("spv:bound-input".to_string(), raw_tx(ty, vec![slip_typed(apk, 5, SlipType::Bound)], vec![], &ask, ts)));
            v.push(("spv:empty".to_string(), raw_tx(ty, vec![], vec![], &ask, ts)));
        }
        if let (Some(a0), Some(a2a)) = (w.nft_a0.clone(), w.nft_a2a.clone()) {
            // send rule `from[2].amount != 0`: a real Bound slip with an amount in third position
            // (the first slip of another NFT of the attacker), mirrored in the outputs
            let third = a2a.slips[0].clone();
            let mut f0 = a0.slips[0].clone();
            let mut f1 = a0.slips[1].clone();
            // make the coordinates line up with `third`: same block, ordinal of `third`, indexes below it
            let _ = (&mut f0, &mut f1);
            v.push((
                "send:from2-real-amount".to_string(),
                raw_tx(
                    TransactionType::Bound,
                    vec![a0.slips[0].clone(), a0.slips[1].clone(), third.clone()],
                    vec![a0.slips[0].clone(), slip_out(apk, 0), third.clone()],
                    &ask,
                    ts,
                ),
            ));
        }
    }
    // ---- Bound slips elsewhere, slip count limits
    let own = w.attacker_slips[1].clone();
    v.push(("normal:bound-zero-input".to_string(), raw_tx(TransactionType::Normal, vec![own.clone(), zero_bound.clone()], vec![slip_out(apk, own.amount)], &ask, ts)));
    v.push(("normal:bound-zero-output".to_string(), raw_tx(TransactionType::Normal, vec![own.clone()], vec![slip_out(apk, own.amount), zero_bound.clone()], &ask, ts)));
    v.push(("golden-ticket-type:bound-output".to_string(), raw_tx(TransactionType::GoldenTicket, vec![own.clone()], vec![slip_out(apk, own.amount), zero_bound.clone()], &ask, ts)));
    for (name, nin, nout) in [("255-inputs", 255usize, 1usize), ("256-inputs", 256, 1), ("255-outputs", 1, 255), ("256-outputs", 1, 256)] {
        let mut from = vec![own.clone()];
        from.extend((1..nin).map(|_| zero_normal.clone()));
        let mut to = vec![slip_out(apk, own.amount)];
        to.extend((1..nout).map(|_| zero_normal.clone()));
        // add_from_slip / add_to_slip refuse to grow beyond 255: push directly
        let mut t = raw_tx(TransactionType::Normal, vec![], vec![], &ask, ts);
        for mut s in from {
            s.generate_utxoset_key();
            t.from.push(s);
        }
        t.to = to;
        t.sign(&ask);
        v.push((format!("normal:{}", name), t));
    }
    v
}

#[tokio::main(flavor = "current_thread")]
async fn main() {
    verif_harness::common::init_log();
    let args = Args::parse();
    if std::env::var("VERIF_PANICS").is_err() {
        std::panic::set_hook(Box::new(|_| {}));
    }
    let thorough = args.tier == "thorough";
    let ovf = overflow_checks_on();
    let mut rng = Rng::new(args.seed);
    let mut summary = Summary::new("C01");
    summary.notes.push(format!("overflow checks compiled in: {}", ovf));
    let mut coq_cases: Vec<String> = vec![];
    let mut distinct = BTreeSet::new();
    let mut case_no = 0usize;
    let mut plans: Vec<Plan> = vec![
        Plan { gp: 20, len: 2, stake: 0, nft: true, fee: 0 },
        Plan { gp: 20, len: 4, stake: STAKE, nft: true, fee: 5_000 },
        Plan { gp: 5, len: 8, stake: 0, nft: false, fee: 0 },
        Plan { gp: 8, len: 3, stake: STAKE, nft: false, fee: 0 },
        Plan { gp: 4, len: 7, stake: 0, nft: false, fee: 0 },
        Plan { gp: 4, len: 12, stake: 0, nft: false, fee: 0 },
        // tip 15: the next block (16 = 2 * ring size) sits in slot 0 of the block ring, and block 1 has
        // long left the ring
        Plan { gp: 4, len: 14, stake: 0, nft: false, fee: 0 },
        Plan { gp: 20, len: 4, stake: 0, nft: false, fee: 7_000 },
    ];
    if thorough {
        for _ in 0..14 {
            let (gp, len) = *rng.pick(&[(20u64, 2usize), (20, 5), (5, 8), (4, 7), (4, 12), (5, 14), (8, 3), (12, 6), (30, 1)]);
            let wrapped = (len as u64) + 1 > gp + 1;
            plans.push(Plan {
                gp,
                len,
                stake: if !wrapped && rng.below(2) == 0 { STAKE } else { 0 },
                nft: !wrapped && rng.below(3) > 0,
                fee: if !wrapped && len >= 3 && rng.below(2) == 0 { 1_000 + rng.below(9_000) } else { 0 },
            });
        }
    }
    let n_fuzz = if thorough { 600 } else { 160 };
    {
        // before there is a chain the pool takes issuance transactions (genesis production); the
        // gate that refuses them later must not refuse them here
        let mut node = Node::new(&params_of(&Plan { gp: 20, len: 0, stake: 0, nft: false, fee: 0 }), 1);
        let mut t = Transaction::create_issuance_transaction(keypair(2).0, 1_000_000);
        let (pk, sk) = (node.pk, node.sk);
        t.generate(&pk, 0, 0);
        t.sign(&sk);
        let mut g = t.clone();
        g.generate(&pk, 0, 0);
        let code = real_verdict(&node, &g);
        let mut int = Interner::default();
        let abs = abstract_tx(&node, &g, &mut int);
        let sig = t.signature;
        let r = futures_catch(AssertUnwindSafe(node.mempool.add_transaction_if_validates(t, &node.blockchain))).await;
        let taken = r.is_ok() && node.mempool.transactions.contains_key(&sig);
        let desc = format!("{{\"case\":{},\"edit\":\"issuance-before-genesis\",\"venue\":\"pool\"}}", case_no);
        if !taken {
            summary.oracle_failure(case_no, "an issuance transaction is not pooled on a node without a chain (genesis production)", &desc);
        }
        coq_cases.push(format!(
            "(mkEnv 0 {} 0 20 {} true, [({}, {})], None, Some ({}, {}), None)",
            gal::boolean(ovf),
            int.get(&pk),
            abs,
            code,
            abs,
            gal::boolean(taken)
        ));
        summary.count("outcome", &format!("issuance-before-genesis:pool:{}", if taken { "accepted" } else { "rejected" }));
        summary.case_descs.push(desc);
        case_no += 1;
    }
    for (wi, plan) in plans.iter().enumerate() {
        let mut brng = Rng::new(args.seed * 1000 + wi as u64);
        let built = build_blocks(*plan, &mut brng).await;
        let env = |w: &World, int: &mut Interner| {
            format!(
                "mkEnv {} {} {} {} {} {}",
                w.node.blockchain.social_stake_requirement,
                gal::boolean(ovf),
                w.node.blockchain.get_latest_block_id(),
                w.node.blockchain.genesis_period,
                int.get(&w.node.pk),
                gal::boolean(w.node.blockchain.blocks.is_empty() && w.node.blockchain.genesis_block_id == 0)
            )
        };
        let world_desc = format!(
            "\"genesis_period\":{},\"chain_len\":{},\"social_stake\":{},\"nfts_on_chain\":{},\"fee_per_block\":{}",
            plan.gp,
            plan.len + 1,
            plan.stake,
            plan.nft,
            plan.fee
        );
        let mut world_checked = false;
        for (e, edit) in EDITS.iter().enumerate() {
            let applicable = match edit.needs {
                Needs::Wrapped => plan.wrapped(),
                Needs::Fresh => !plan.wrapped(),
                Needs::Nft => !plan.wrapped() && plan.nft,
                Needs::Staking => !plan.wrapped() && plan.stake > 0,
                Needs::Payouts => !plan.wrapped() && plan.fee > 0 && plan.len >= 3,
                Needs::Fork => plan.stake == 0,
            };
            if !applicable {
                continue;
            }
            // "block-browser": the attacker's block offered to a full node whose configuration says
            // browser = true (spv = false): block validation is the same
            for venue in ["pool", "block", "verify", "block-browser"] {
                if !venue.starts_with("block") && edit.venues == Venues::BlockOnly {
                    continue;
                }
                // a fresh node per case (the world's blocks replayed) so cases do not interfere
                let mut w = fresh_world(&built).await;
                if !world_checked {
                    // once per world: the node's ledger is the one the block history describes
                    world_checked = true;
                    for d in ledger_discrepancies(&w) {
                        summary.oracle_failure(case_no, &format!("after the world's blocks: {}", d), &format!("{{\"case\":{},\"edit\":\"world\",{}}}", case_no, world_desc));
                    }
                }
                let ts = w.tip.timestamp + 150_000;
                let txs = match make_edit(&mut w, &built, e, ts, &mut rng).await {
                    Some(t) => t,
                    None => {
                        if let Some(why) = w.scenario_failure.take() {
                            // a scripted scenario that cannot be played is a finding, not a skipped case
                            summary.oracle_failure(case_no, &format!("[{}] {}", edit.name, why), &format!("{{\"case\":{},\"edit\":\"{}\",\"venue\":\"{}\",{}}}", case_no, edit.name, venue, world_desc));
                            summary.case_descs.push(format!("{{\"case\":{},\"edit\":\"{}\",\"venue\":\"{}\",{}}}", case_no, edit.name, venue, world_desc));
                            coq_cases.push("(mkEnv 0 true 0 0 0 false, [], None, None, None)".to_string());
                            case_no += 1;
                        } else {
                            summary.count("edit_not_applicable", edit.name);
                        }
                        continue;
                    }
                };
                DISCREPANCIES.lock().unwrap().clear();
                let mut int = Interner::default();
                let mut generated: Vec<Transaction> = txs.clone();
                let mut gen_panicked = false;
                for t in generated.iter_mut() {
                    let pk = w.node.pk;
                    if std::panic::catch_unwind(AssertUnwindSafe(|| t.generate(&pk, 0, 0))).is_err() {
                        gen_panicked = true;
                    }
                }
                let desc = format!(
                    "{{\"case\":{},\"edit\":\"{}\",\"venue\":\"{}\",{},\"txs\":[{}]}}",
                    case_no,
                    edit.name,
                    venue,
                    world_desc,
                    generated.iter().map(tx_desc).collect::<Vec<_>>().join(",")
                );
                // model comparison: verdict of the real Transaction::validate on each tx
                let mut verdicts = vec![];
                let mut pairs = vec![];
                for t in &generated {
                    let code = if gen_panicked { 9 } else { real_verdict(&w.node, t) };
                    verdicts.push(code);
                    pairs.push(format!("({}, {})", abstract_tx(&w.node, t, &mut int), code));
                }
                let env_s = env(&w, &mut int);
                let mut block_part = "None".to_string();
                let mut pool_part = "None".to_string();
                let mut verify_part = "None".to_string();
                // the cached utxo key of every slip is the key of its fields (Slip::generate_utxoset_key
                // / get_utxoset_key against the byte layout restated in the harness)
                for t in generated.iter() {
                    for sl in t.from.iter().chain(t.to.iter()) {
                        if sl.utxoset_key != key_of(sl) || sl.get_utxoset_key() != key_of(sl) {
                            DISCREPANCIES.lock().unwrap().push(format!(
                                "utxo key of slip {}-{}-{} (amount {}, type {}) is not the concatenation of its fields",
                                sl.block_id, sl.tx_ordinal, sl.slip_index, sl.amount, sl.slip_type as u8
                            ));
                        }
                    }
                }
                // the property against the block history, decided before the venue is tried
                let hist: Vec<String> = generated.iter().flat_map(|t| history_violations(&w, t)).collect();
                summary.count("edit", edit.name);
                summary.count("venue", venue);
                summary.count("world", &format!("gp{}-len{}-stake{}-nft{}-fee{}", plan.gp, plan.len + 1, plan.stake, plan.nft, plan.fee));
                summary.count("tx_validate_verdict", &format!("{}:{:?}", edit.name, verdicts));
                let mut accepted = false;
                let mut block_added = false;
                let mut block_txs: Option<(u64, Vec<String>, Vec<u64>)> = None;
                let mut what = String::new();
                if venue == "pool" {
                    let t = txs[0].clone();
                    let sig = t.signature;
                    let r = futures_catch(AssertUnwindSafe(w.node.mempool.add_transaction_if_validates(t, &w.node.blockchain))).await;
                    match r {
                        Ok(()) => {
                            accepted = w.node.mempool.transactions.contains_key(&sig);
                            pool_part = format!("Some ({}, {})", abstract_tx_of_case(&pairs), gal::boolean(accepted));
                            // whatever the pool holds now (also what a failed block handed back) must
                            // satisfy the property against the block history
                            let mut pooled: Vec<&Transaction> = w.node.mempool.transactions.values().collect();
                            pooled.sort_by_key(|t| t.signature);
                            for t in pooled {
                                let hv = history_violations(&w, t);
                                if !hv.is_empty() {
                                    summary.oracle_failure(
                                        case_no,
                                        &format!("[{}] the pool holds transaction {} although, by the chain's block history: {}", edit.name, tx_desc(t), hv.join("; ")),
                                        &desc,
                                    );
                                }
                            }
                            what = format!("pool {} the transaction", if accepted { "accepted" } else { "rejected" });
                        }
                        Err(m) => {
                            what = format!("pool intake panicked: {}", m);
                            summary.oracle_failure(case_no, &format!("[{}] {}", edit.name, what), &desc);
                        }
                    }
                } else if venue == "verify" {
                    // the route of a transaction received from a peer: VerificationThread::verify_tx /
                    // verify_txs forward it to the consensus thread iff it validates; the consensus
                    // thread hands it to Mempool::add_transaction_if_validates (golden tickets go to
                    // the ticket pool directly)
                    let t = txs[0].clone();
                    let sig = t.signature;
                    let bc = std::mem::replace(
                        &mut w.node.blockchain,
                        Blockchain::new(w.node.wallet_lock.clone(), plan.gp, plan.stake, STAKE_PERIOD),
                    );
                    let lock = std::sync::Arc::new(tokio::sync::RwLock::new(bc));
                    let (tx_cons, mut rx_cons) = tokio::sync::mpsc::channel::<ConsensusEvent>(64);
                    let (tx_stat, _rx_stat) = tokio::sync::mpsc::channel::<String>(4096);
                    let sv = |n: &str| StatVariable::new(n.to_string(), STAT_BIN_COUNT, tx_stat.clone());
                    let mut vt = VerificationThread {
                        sender_to_consensus: tx_cons.clone(),
                        blockchain_lock: lock.clone(),
                        peer_lock: std::sync::Arc::new(tokio::sync::RwLock::new(PeerCollection::default())),
                        wallet_lock: w.node.wallet_lock.clone(),
                        processed_txs: sv("verification::processed_txs"),
                        processed_blocks: sv("verification::processed_blocks"),
                        processed_msgs: sv("verification::processed_msgs"),
                        invalid_txs: sv("verification::invalid_txs"),
                        stat_sender: tx_stat.clone(),
                    };
                    let mut drain = |rx: &mut tokio::sync::mpsc::Receiver<ConsensusEvent>| -> Vec<Transaction> {
                        let mut v = vec![];
                        while let Ok(ev) = rx.try_recv() {
                            match ev {
                                ConsensusEvent::NewTransaction { transaction } => v.push(transaction),
                                ConsensusEvent::NewTransactions { transactions } => v.extend(transactions),
                                _ => {}
                            }
                        }
                        v
                    };
                    let r1 = futures_catch(AssertUnwindSafe(vt.verify_tx(t.clone()))).await;
                    let fwd1 = drain(&mut rx_cons);
                    let mut dq: std::collections::VecDeque<Transaction> = txs.iter().cloned().collect();
                    let r2 = futures_catch(AssertUnwindSafe(vt.verify_txs(&mut dq))).await;
                    let fwd2 = drain(&mut rx_cons);
                    drop(vt);
                    w.node.blockchain = match std::sync::Arc::try_unwrap(lock) {
                        Ok(l) => l.into_inner(),
                        Err(_) => panic!("verification thread kept the blockchain"),
                    };
                    if let Err(m) = r1.as_ref().and(r2.as_ref()) {
                        what = format!("verification thread panicked: {}", m);
                        summary.oracle_failure(case_no, &format!("[{}] {}", edit.name, what), &desc);
                    } else {
                        let f1 = fwd1.iter().any(|x| x.signature == sig);
                        let f2 = fwd2.iter().any(|x| x.signature == sig);
                        let valid = verdicts[0] == 1;
                        verify_part = format!("Some ({}, {})", abstract_tx_of_case(&pairs), gal::boolean(f1));
                        if f1 != valid || f2 != valid || fwd1.len() > 1 || fwd2.len() != verdicts.iter().filter(|c| **c == 1).count() {
                            summary.oracle_failure(
                                case_no,
                                &format!(
                                    "[{}] Transaction::validate says {} but verify_tx forwarded {} and verify_txs forwarded {} transaction(s) to the consensus thread",
                                    edit.name,
                                    if valid { "valid" } else { "invalid" },
                                    fwd1.len(),
                                    fwd2.len()
                                ),
                                &desc,
                            );
                        }
                        if f1 {
                            // what the consensus thread does with it
                            let fwd = fwd1.into_iter().next().unwrap();
                            if fwd.transaction_type == TransactionType::GoldenTicket {
                                accepted = true;
                                what = "forwarded by the verification thread; golden tickets are pooled without a further check".to_string();
                            } else {
                                let r = futures_catch(AssertUnwindSafe(w.node.mempool.add_transaction_if_validates(fwd, &w.node.blockchain))).await;
                                accepted = r.is_ok() && w.node.mempool.transactions.contains_key(&sig);
                                what = format!("forwarded by the verification thread, pool {} it", if accepted { "accepted" } else { "rejected" });
                            }
                        } else {
                            what = "dropped by the verification thread".to_string();
                        }
                    }
                } else {
                    let ab = futures_catch(AssertUnwindSafe(attacker_block(&w, &txs, edit.stake_slot, edit.name == "resplit-output-as-input", ts, case_no as u64))).await;
                    match ab.unwrap_or(None) {
                        None => {
                            what = "attacker block could not be assembled".to_string();
                            summary.count("attacker_block", "not-assembled");
                            summary.oracle_failure(case_no, &format!("[{}] the attacker's block could not be assembled with the real producer", edit.name), &desc);
                        }
                        Some(b) => {
                            let carried = txs.iter().all(|t| b.transactions.iter().any(|x| x.signature == t.signature));
                            // the block's transactions as the model sees them, before the ledger changes
                            let abs: Vec<String> = b.transactions.iter().map(|t| abstract_tx(&w.node, t, &mut int)).collect();
                            let mut real: Vec<u64> = vec![];
                            for t in &b.transactions {
                                real.push(real_verdict(&w.node, t));
                            }
                            block_txs = Some((b.id, abs, real));
                            if venue == "block-browser" {
                                w.node.cfg.browser = true;
                            }
                            let r = futures_catch(AssertUnwindSafe(w.node.add_block(b.clone()))).await;
                            match r {
                                Ok(c) => {
                                    accepted = c == AddClass::OnChain && carried;
                                    block_added = c == AddClass::OnChain;
                                    what = format!("block result {:?}", c);
                                    if block_added {
                                        // the ledger after an accepted block is the history's ledger
                                        w.history.push(b.clone());
                                        for d in ledger_discrepancies(&w) {
                                            summary.oracle_failure(case_no, &format!("[{}] after the accepted block: {}", edit.name, d), &desc);
                                        }
                                    }
                                    // whatever the block's fate, what the pool holds afterwards (transactions
                                    // handed back by add_block_transactions_back) validates and satisfies the
                                    // property against the block history
                                    let mut pooled: Vec<&Transaction> = w.node.mempool.transactions.values().collect();
                                    pooled.sort_by_key(|t| t.signature);
                                    for t in pooled {
                                        let rv = real_verdict(&w.node, t);
                                        let hv = history_violations(&w, t);
                                        if rv != 1 || !hv.is_empty() {
                                            summary.oracle_failure(
                                                case_no,
                                                &format!(
                                                    "[{}] after the block ({:?}) the pool holds transaction {}: Transaction::validate verdict {}{}",
                                                    edit.name,
                                                    c,
                                                    tx_desc(t),
                                                    rv,
                                                    if hv.is_empty() { String::new() } else { format!("; by the block history: {}", hv.join("; ")) }
                                                ),
                                                &desc,
                                            );
                                        }
                                    }
                                }
                                Err(m) => {
                                    what = format!("add_block panicked: {}", m);
                                    summary.oracle_failure(case_no, &format!("[{}] {}", edit.name, what), &desc);
                                }
                            }
                        }
                    }
                }
                if let Some((id, abs, real)) = block_txs {
                    // every transaction of the block as judged by the real validate, and the block's fate
                    for (a, r) in abs.iter().zip(real.iter()) {
                        pairs.push(format!("({}, {})", a, r));
                    }
                    block_part = format!("Some ({}, {}, {})", id, gal::list(&abs), gal::boolean(block_added));
                }
                coq_cases.push(format!("({}, {}, {}, {}, {})", env_s, gal::list(&pairs), block_part, pool_part, verify_part));
                for d in DISCREPANCIES.lock().unwrap().drain(..) {
                    summary.oracle_failure(case_no, &format!("[{}] {}", edit.name, d), &desc);
                }
                if accepted && !hist.is_empty() {
                    summary.oracle_failure(
                        case_no,
                        &format!("[{}] accepted via {} although, by the chain's block history: {}", edit.name, venue, hist.join("; ")),
                        &desc,
                    );
                }
                summary.count("outcome", &format!("{}:{}:{}", edit.name, venue, if accepted { "accepted" } else { "rejected" }));
                match edit.expect {
                    Reject if accepted => {
                        let id = match edit.known {
                            Some(k) => k.to_string(),
                            None => format!("{}-{}", edit.name, if venue == "verify" { "pool" } else { venue }),
                        };
                        summary.known_hit(&id, case_no, &format!("{} ({}) violates SpendOK but: {}", edit.name, venue, what));
                    }
                    // the pool takes no staking transaction of another key (repo fix 9879695); C01 asks
                    // nothing about that, the Accept expectation is only a sanity check of the harness
                    Accept
                        if !accepted
                            && !venue.starts_with("block")
                            && txs[0].transaction_type == TransactionType::BlockStake
                            && txs[0].from.iter().any(|i| i.public_key != w.node.pk) =>
                    {
                        summary.count("pool_refuses_foreign_stake_tx", edit.name);
                    }
                    Accept if !accepted => {
                        summary.oracle_failure(case_no, &format!("valid transaction ({}) not accepted via {}: {}", edit.name, venue, what), &desc);
                    }
                    _ => {}
                }
                if distinct.insert(format!("{}{}{}", e, venue, wi)) && edit.expect == Reject {
                    summary.nontrivial += 1;
                }
                if summary.samples.len() < 4 && e % 13 == 3 {
                    summary.samples.push(desc.clone());
                }
                summary.case_descs.push(desc);
                case_no += 1;
            }
        }
        if plan.wrapped() {
            continue;
        }
        // ---- correspondence only: random field mutations of valid transactions, and the
        // scripted overflow cases, judged by the real Transaction::validate at the tip
        let mut w = fresh_world(&built).await;
        let ts = w.tip.timestamp + 150_000;
        let base = bases(&mut w, &built, ts).await;
        let mut scripted: Vec<(String, Transaction)> = overflow_cases(&w, ts).into_iter().map(|(n, t)| (n.to_string(), t)).collect();
        scripted.extend(rule_probes(&mut w, ts).await);
        for k in 0..n_fuzz + scripted.len() {
            if k >= n_fuzz && scripted[0].0.ends_with("UNAVAILABLE") {
                let (name, _) = scripted.remove(0);
                summary.oracle_failure(case_no, &format!("scripted probes cannot be built: {}", name), &format!("{{\"case\":{},\"edit\":\"{}\",{}}}", case_no, name, world_desc));
                continue;
            }
            let (label, mut t, tamper) = if k < n_fuzz {
                let (bname, t0, sk) = rng.pick(&base).clone();
                let mut t = t0.clone();
                let mut ops = vec![];
                for _ in 0..*rng.pick(&[1usize, 1, 1, 2, 2, 3]) {
                    ops.push(mutate(&w, &mut t, &mut rng));
                }
                match rng.below(8) {
                    0 => {} // signature left as it was
                    1 => t.sign(&w.victim.1),
                    _ => t.sign(&sk),
                }
                if rng.below(40) == 0 {
                    t.hash_for_signature = None;
                }
                (format!("{}+{}", bname, ops.join("+")), t, rng.below(12))
            } else {
                let (name, t) = scripted.remove(0);
                (name, t, 99)
            };
            let had_hash = t.hash_for_signature.is_some();
            let pk = w.node.pk;
            let gen_ok = std::panic::catch_unwind(AssertUnwindSafe(|| t.generate(&pk, 0, 0))).is_ok();
            if !had_hash {
                t.hash_for_signature = None;
            }
            // after generate(): tamper with the cached utxo keys (only reachable by calling
            // validate() without generate(); exercises the key checks of the BlockStake branch)
            if !t.from.is_empty() {
                let i = rng.below(t.from.len() as u64) as usize;
                match tamper {
                    0 => t.from[i].utxoset_key = [0; 59],
                    1 => t.from[i].utxoset_key[57] ^= 1,
                    2 => {
                        let j = rng.below(t.from.len() as u64) as usize;
                        t.from[i].utxoset_key = t.from[j].utxoset_key;
                    }
                    _ => {}
                }
            }
            let code = if gen_ok { real_verdict(&w.node, &t) } else { 9 };
            let mut int = Interner::default();
            let desc = format!(
                "{{\"case\":{},\"edit\":\"mutation:{}\",\"venue\":\"validate\",{},\"txs\":[{}],\"verdict\":{}}}",
                case_no,
                label,
                world_desc,
                tx_desc(&t),
                code
            );
            let env_s = env(&w, &mut int);
            DISCREPANCIES.lock().unwrap().clear();
            coq_cases.push(format!("({}, [({}, {})], None, None, None)", env_s, abstract_tx(&w.node, &t, &mut int), code));
            if tamper > 2 {
                for d in DISCREPANCIES.lock().unwrap().drain(..) {
                    summary.oracle_failure(case_no, &format!("[mutation:{}] {}", label, d), &desc);
                }
            }
            summary.count("mutation_verdict", &format!("type{}:{}", t.transaction_type as u8, code));
            if tamper == 99 {
                summary.count("scripted_verdict", &format!("{}={}", label, code));
            }
            if code == 9 {
                summary.count("validate_panics", &label);
            }
            summary.case_descs.push(desc);
            case_no += 1;
        }
    }
    summary.evaluations = case_no as u64;
    let header = "From Saito Require Import Base TxValid.\n\
        Definition check (c : env * list (atx * N) * option (N * list atx * bool) * option (atx * bool) * option (atx * bool)) : bool :=\n  \
        let '(e, l, b, p, v) := c in\n  \
        match v with None => true | Some (t, fwd) => Bool.eqb fwd (N.eqb (verdict_code (tx_validate e t)) 1) end &&\n  \
        match p with None => true | Some (t, taken) => implb taken (pool_gate e t) end &&\n  \
        forallb (fun p => N.eqb (verdict_code (tx_validate e (fst p))) (snd p)) l &&\n  \
        match b with None => true | Some (id, txs, added) => implb added (block_txs_ok e id txs) end.";
    let files = gal::write_shards(&format!("{}/cases", args.out), "C01", header, "env * list (atx * N) * option (N * list atx * bool) * option (atx * bool) * option (atx * bool)", &coq_cases, args.shards).unwrap();
    summary.case_files = files;
    summary.notes.push(format!("{} cases: Transaction::validate verdicts compared with TxValid.tx_validate", coq_cases.len()));
    summary.write(&args.out);
}
