//! C01 — only authorised, existing, unspent outputs are ever spent.
//! A catalogue of adversarial edits of a valid transaction is offered (i) to the
//! transaction pool and (ii) inside an otherwise consistent block (assembled the
//! way an attacker with his own block builder would) to the real node; the
//! verdict of the real `Transaction::validate` on the abstract transaction is
//! compared with the Coq model `TxValid.tx_validate`, and the property itself
//! (SpendOK for every value input of every accepted user transaction) is the
//! direct oracle.
use std::collections::BTreeSet;
use std::panic::AssertUnwindSafe;

use saito_core::core::consensus::block::Block;
use saito_core::core::consensus::slip::{Slip, SlipType};
use saito_core::core::consensus::transaction::{Transaction, TransactionType};
use saito_core::core::defs::{SaitoPrivateKey, SaitoPublicKey};
use saito_core::core::util::crypto::{hash, verify_signature};
use verif_harness::chainsim::futures_catch;
use verif_harness::common::{Args, Summary};
use verif_harness::gal;
use verif_harness::rng::Rng;
use verif_harness::world::*;

const EDITS: &[(&str, bool)] = &[
    // (name, violates SpendOK / must be rejected)
    ("baseline-valid", false),
    ("signature-flipped", true),
    ("signature-zero", true),
    ("foreign-extra-input", true),
    ("foreign-only-input", true),
    ("nonexistent-input", true),
    ("already-spent-input", true),
    ("duplicate-input-in-tx", true),
    ("same-input-in-two-txs", true),
    ("outputs-exceed-inputs", true),
    ("type-issuance", true),
    ("type-spv-with-outputs", true),
    ("type-fee-forged", true),
    ("type-atr-forged", true),
    ("output-sum-wraps-u64", true),
    ("expired-input", true),
    ("unsigned-other-key", true),
];

struct World {
    node: Node,
    attacker: (SaitoPublicKey, SaitoPrivateKey),
    victim: (SaitoPublicKey, SaitoPrivateKey),
    attacker_slips: Vec<Slip>,
    victim_slips: Vec<Slip>,
    spent_slip: Slip,
    expired_slip: Option<Slip>,
    tip: Block,
}

async fn build_world(gp: u64, len: usize, rng: &mut Rng) -> World {
    let params = Params { genesis_period: gp, ..Params::default() };
    let mut node = Node::new(&params, 1);
    let attacker = keypair(2);
    let victim = keypair(3);
    let mut issuance = vec![];
    for k in 0..6u64 {
        issuance.push((attacker.0, 1_000_000 + k * 1000));
    }
    for k in 0..4u64 {
        issuance.push((victim.0, 2_000_000 + k * 1000));
    }
    issuance.push((node.pk, 5_000_000));
    let g = make_genesis(&node, 1_000_000, &issuance).await.unwrap();
    assert_eq!(node.add_block(g.clone()).await, AddClass::OnChain);
    let mut attacker_slips: Vec<Slip> = (0..6).map(|k| g.transactions[k].to[0].clone()).collect();
    let victim_slips: Vec<Slip> = (6..10).map(|k| g.transactions[k].to[0].clone()).collect();
    // block 2: the attacker spends slip 0 (so it is "already spent" afterwards)
    let spent_slip = attacker_slips.remove(0);
    let mut parent = g.clone();
    let mut expired_slip = None;
    for i in 0..len {
        let ts = parent.timestamp + 120_000 + rng.below(1000);
        let mut txs = vec![];
        if i == 0 {
            txs.push(make_tx(&[spent_slip.clone()], &[(attacker.0, spent_slip.amount)], &attacker.1, ts));
        } else {
            // keep blocks non-empty: the node pays itself
            let s = node_slip(&parent, &node.pk);
            if let Some(s) = s {
                txs.push(make_tx(&[s.clone()], &[(node.pk, s.amount)], &node.sk, ts));
            }
        }
        let b = make_block(&node, parent.hash, ts, txs, true, i as u64 + 100).await.unwrap();
        let r = node.add_block(b.clone()).await;
        assert_eq!(r, AddClass::OnChain, "world block {} rejected", b.id);
        parent = b;
    }
    if (len as u64) + 1 > gp + 1 {
        // genesis outputs are older than the window now: any still-unspent one is "expired"
        expired_slip = Some(attacker_slips[0].clone());
    }
    World { node, attacker, victim, attacker_slips, victim_slips, spent_slip, expired_slip, tip: parent }
}

fn node_slip(b: &Block, pk: &SaitoPublicKey) -> Option<Slip> {
    for tx in &b.transactions {
        if tx.transaction_type == TransactionType::Normal || tx.transaction_type == TransactionType::Issuance {
            for s in &tx.to {
                if s.public_key == *pk && s.amount > 0 && s.slip_type == SlipType::Normal {
                    return Some(s.clone());
                }
            }
        }
    }
    None
}

fn slip_out(pk: SaitoPublicKey, amount: u64) -> Slip {
    let mut o = Slip::default();
    o.public_key = pk;
    o.amount = amount;
    o
}

fn raw_tx(ty: TransactionType, from: Vec<Slip>, to: Vec<Slip>, sk: &SaitoPrivateKey, ts: u64) -> Transaction {
    let mut tx = Transaction::default();
    tx.transaction_type = ty;
    tx.timestamp = ts;
    for mut s in from {
        s.generate_utxoset_key();
        tx.add_from_slip(s);
    }
    for s in to {
        tx.add_to_slip(s);
    }
    tx.sign(sk);
    tx
}

/// returns the adversarial transaction(s) for edit `e`; None if not applicable in this world
fn make_edit(w: &World, e: usize, ts: u64, rng: &mut Rng) -> Option<Vec<Transaction>> {
    let own = w.attacker_slips[rng.below(w.attacker_slips.len() as u64 - 1) as usize + 1].clone();
    let own2 = w.attacker_slips[0].clone();
    let vic = w.victim_slips[rng.below(w.victim_slips.len() as u64) as usize].clone();
    let (apk, ask) = (w.attacker.0, w.attacker.1);
    let n = TransactionType::Normal;
    Some(match EDITS[e].0 {
        "baseline-valid" => vec![raw_tx(n, vec![own.clone()], vec![slip_out(apk, own.amount)], &ask, ts)],
        "signature-flipped" => {
            let mut t = raw_tx(n, vec![own.clone()], vec![slip_out(apk, own.amount)], &ask, ts);
            t.signature[rng.below(64) as usize] ^= 0x40;
            vec![t]
        }
        "signature-zero" => {
            let mut t = raw_tx(n, vec![own.clone()], vec![slip_out(apk, own.amount)], &ask, ts);
            t.signature = [0; 64];
            vec![t]
        }
        "foreign-extra-input" => vec![raw_tx(
            n,
            vec![own.clone(), vic.clone()],
            vec![slip_out(apk, own.amount + vic.amount)],
            &ask,
            ts,
        )],
        "foreign-only-input" => vec![raw_tx(n, vec![vic.clone()], vec![slip_out(apk, vic.amount)], &ask, ts)],
        "nonexistent-input" => {
            let mut s = own.clone();
            s.amount += 777;
            vec![raw_tx(n, vec![s.clone()], vec![slip_out(apk, s.amount)], &ask, ts)]
        }
        "already-spent-input" => vec![raw_tx(
            n,
            vec![w.spent_slip.clone()],
            vec![slip_out(apk, w.spent_slip.amount)],
            &ask,
            ts,
        )],
        "duplicate-input-in-tx" => vec![raw_tx(
            n,
            vec![own.clone(), own.clone()],
            vec![slip_out(apk, own.amount * 2)],
            &ask,
            ts,
        )],
        "same-input-in-two-txs" => vec![
            raw_tx(n, vec![own.clone()], vec![slip_out(apk, own.amount)], &ask, ts),
            raw_tx(n, vec![own.clone()], vec![slip_out(w.victim.0, own.amount)], &ask, ts + 1),
        ],
        "outputs-exceed-inputs" => vec![raw_tx(n, vec![own.clone()], vec![slip_out(apk, own.amount + 1)], &ask, ts)],
        "type-issuance" => vec![raw_tx(TransactionType::Issuance, vec![], vec![slip_out(apk, 123_456)], &ask, ts)],
        "type-spv-with-outputs" => vec![raw_tx(TransactionType::SPV, vec![], vec![slip_out(apk, 123_456)], &ask, ts)],
        "type-fee-forged" => vec![raw_tx(TransactionType::Fee, vec![], vec![slip_out(apk, 123_456)], &ask, ts)],
        "type-atr-forged" => vec![raw_tx(
            TransactionType::ATR,
            vec![vic.clone()],
            vec![slip_out(apk, vic.amount)],
            &ask,
            ts,
        )],
        "output-sum-wraps-u64" => vec![raw_tx(
            n,
            vec![own.clone()],
            vec![slip_out(apk, u64::MAX - 5), slip_out(apk, own.amount + 6)],
            &ask,
            ts,
        )],
        "expired-input" => {
            let s = w.expired_slip.clone()?;
            let _ = own2;
            vec![raw_tx(n, vec![s.clone()], vec![slip_out(apk, s.amount)], &ask, ts)]
        }
        "unsigned-other-key" => {
            // signed by a key that owns nothing: from[0] is the victim's slip
            let other = keypair(9);
            vec![raw_tx(n, vec![vic.clone()], vec![slip_out(other.0, vic.amount)], &other.1, ts)]
        }
        _ => return None,
    })
}

/// attacker's block: a consistent block around a valid zero-fee transaction of
/// the attacker, whose transaction is then swapped for the adversarial one(s)
async fn attacker_block(w: &World, adversarial: &[Transaction], ts: u64, seed: u64) -> Option<Block> {
    let own2 = w.attacker_slips[0].clone();
    let carrier = raw_tx(
        TransactionType::Normal,
        vec![own2.clone()],
        vec![slip_out(w.attacker.0, own2.amount)],
        &w.attacker.1,
        ts,
    );
    let mut b = make_block(&w.node, w.tip.hash, ts, vec![carrier.clone()], true, seed).await.ok()?;
    let idx = b.transactions.iter().position(|t| t.signature == carrier.signature)?;
    b.transactions.remove(idx);
    for (k, t) in adversarial.iter().enumerate() {
        b.transactions.insert(idx + k, t.clone());
    }
    b.merkle_root = [0; 32];
    b.generate().ok()?;
    resign(&mut b, &w.node.sk);
    Some(b)
}

/// abstract transaction for the Coq model (TxValid.atx)
fn abstract_tx(w: &World, tx: &Transaction, int: &mut Interner) -> String {
    let slip = |s: &Slip, int: &mut Interner| {
        let spendable = w.node.blockchain.utxoset.get(&s.utxoset_key).copied().unwrap_or(false);
        format!(
            "mkSlip {} {} {} {} {}",
            int.get(&s.public_key),
            s.amount,
            s.slip_type as u8,
            int.get(&s.utxoset_key),
            gal::boolean(spendable)
        )
    };
    let from: Vec<String> = tx.from.iter().map(|s| slip(s, int)).collect();
    let to: Vec<String> = tx.to.iter().map(|s| slip(s, int)).collect();
    let sig_ok = match (&tx.hash_for_signature, tx.from.first()) {
        (Some(h), Some(f)) => verify_signature(h, &tx.signature, &f.public_key),
        _ => false,
    };
    format!(
        "mkTx {} {} {} {} {} {}",
        tx.transaction_type as u8,
        gal::list(&from),
        gal::list(&to),
        gal::boolean(sig_ok),
        gal::boolean(tx.hash_for_signature.is_some()),
        gal::boolean(tx.validate_routing_path())
    )
}

#[tokio::main(flavor = "current_thread")]
async fn main() {
    verif_harness::common::init_log();
    let args = Args::parse();
    if std::env::var("VERIF_PANICS").is_err() {
        std::panic::set_hook(Box::new(|_| {}));
    }
    let thorough = args.tier == "thorough";
    let mut rng = Rng::new(args.seed);
    let mut summary = Summary::new("C01");
    let mut coq_cases = vec![];
    let mut distinct = BTreeSet::new();
    let mut case_no = 0usize;
    let worlds = if thorough { 24 } else { 6 };
    for wi in 0..worlds {
        let (gp, len) = *rng.pick(&[(20u64, 2usize), (20, 5), (5, 8), (4, 7), (8, 3)]);
        let w0 = build_world(gp, len, &mut rng).await;
        drop(w0);
        let wrapped = (len as u64) + 1 > gp + 1;
        for e in 0..EDITS.len() {
            // once the window has wrapped the genesis outputs are gone: only the
            // expired-input edit is meaningful in such a world
            if wrapped != (EDITS[e].0 == "expired-input") {
                continue;
            }
            for venue in ["pool", "block"] {
                if venue == "pool" && EDITS[e].0 == "same-input-in-two-txs" {
                    continue;
                }
                // a fresh world per case (deterministic rebuild) so cases do not interfere
                let mut wrng = Rng::new(args.seed * 1000 + wi as u64);
                let mut w = build_world(gp, len, &mut wrng).await;
                let ts = w.tip.timestamp + 150_000;
                let txs = match make_edit(&w, e, ts, &mut rng) {
                    Some(t) => t,
                    None => continue,
                };
                let mut int = Interner::default();
                let mut generated: Vec<Transaction> = txs.clone();
                let mut gen_panicked = false;
                for t in generated.iter_mut() {
                    let pk = w.node.pk;
                    if std::panic::catch_unwind(AssertUnwindSafe(|| t.generate(&pk, 0, 0))).is_err() {
                        gen_panicked = true;
                    }
                }
                let desc = format!(
                    "{{\"case\":{},\"edit\":\"{}\",\"venue\":\"{}\",\"genesis_period\":{},\"chain_len\":{},\"tx_types\":{:?},\"inputs\":{:?},\"outputs\":{:?}}}",
                    case_no,
                    EDITS[e].0,
                    venue,
                    gp,
                    len + 1,
                    txs.iter().map(|t| t.transaction_type as u8).collect::<Vec<_>>(),
                    txs.iter().map(|t| t.from.iter().map(|s| s.amount).collect::<Vec<_>>()).collect::<Vec<_>>(),
                    txs.iter().map(|t| t.to.iter().map(|s| s.amount).collect::<Vec<_>>()).collect::<Vec<_>>()
                );
                // model comparison: verdict of the real Transaction::validate on each tx
                let mut verdicts = vec![];
                for t in &generated {
                    let r = std::panic::catch_unwind(AssertUnwindSafe(|| {
                        t.validate(&w.node.blockchain.utxoset, &w.node.blockchain, true)
                    }));
                    let code = if gen_panicked {
                        9
                    } else {
                        match r {
                            Ok(true) => 1u64,
                            Ok(false) => 0,
                            Err(_) => 9,
                        }
                    };
                    verdicts.push(code);
                    coq_cases.push(format!("({}, {})", abstract_tx(&w, t, &mut int), code));
                }
                summary.count("edit", EDITS[e].0);
                summary.count("venue", venue);
                summary.count("tx_validate_verdict", &format!("{:?}", verdicts));
                let must_reject = EDITS[e].1;
                let mut accepted = false;
                let mut what = String::new();
                if venue == "pool" {
                    let t = txs[0].clone();
                    let sig = t.signature;
                    let r = futures_catch(AssertUnwindSafe(
                        w.node.mempool.add_transaction_if_validates(t, &w.node.blockchain),
                    ))
                    .await;
                    match r {
                        Ok(()) => {
                            accepted = w.node.mempool.transactions.contains_key(&sig);
                            what = format!("pool {} the transaction", if accepted { "accepted" } else { "rejected" });
                        }
                        Err(m) => {
                            what = format!("pool intake panicked: {}", m);
                            summary.oracle_failure(case_no, &format!("[{}] {}", EDITS[e].0, what), &desc);
                        }
                    }
                } else {
                    let ab = futures_catch(AssertUnwindSafe(attacker_block(&w, &txs, ts, case_no as u64))).await;
                    match ab.unwrap_or(None) {
                        None => {
                            what = "attacker block could not be assembled".to_string();
                        }
                        Some(b) => {
                            let hashv = hash(&b.serialize_for_signature());
                            let _ = hashv;
                            let r = futures_catch(AssertUnwindSafe(w.node.add_block(b.clone()))).await;
                            match r {
                                Ok(c) => {
                                    accepted = c == AddClass::OnChain;
                                    what = format!("block result {:?}", c);
                                }
                                Err(m) => {
                                    what = format!("add_block panicked: {}", m);
                                    summary.oracle_failure(case_no, &format!("[{}] {}", EDITS[e].0, what), &desc);
                                }
                            }
                        }
                    }
                }
                summary.count("outcome", &format!("{}:{}:{}", EDITS[e].0, venue, if accepted { "accepted" } else { "rejected" }));
                if must_reject && accepted {
                    let id = format!("{}-{}", EDITS[e].0, venue);
                    summary.known_hit(&id, case_no, &format!("{} ({}) violates SpendOK but: {}", EDITS[e].0, venue, what));
                }
                if !must_reject && !accepted {
                    summary.oracle_failure(case_no, &format!("valid transaction not accepted via {}: {}", venue, what), &desc);
                }
                if distinct.insert(format!("{}{}{}{}", e, venue, gp, len)) && must_reject {
                    summary.nontrivial += 1;
                }
                if summary.samples.len() < 4 && e % 5 == 3 {
                    summary.samples.push(desc.clone());
                }
                summary.case_descs.push(desc);
                case_no += 1;
            }
        }
    }
    summary.evaluations = case_no as u64;
    let header = "From Saito Require Import Base TxValid.\n\
        Definition check (c : atx * N) : bool := N.eqb (verdict_code (tx_validate (fst c))) (snd c).";
    // model cases are indexed separately from oracle cases (several txs per case)
    let files = gal::write_shards(&format!("{}/cases", args.out), "C01", header, "atx * N", &coq_cases, args.shards).unwrap();
    summary.case_files = files;
    summary.notes.push(format!("{} Transaction::validate verdicts compared with TxValid.tx_validate", coq_cases.len()));
    summary.write(&args.out);
}
