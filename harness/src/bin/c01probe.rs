//! scratch probe for C01 (NFT / staking paths); not part of any check
use std::panic::AssertUnwindSafe;

use saito_core::core::consensus::block::Block;
use saito_core::core::consensus::slip::{Slip, SlipType};
use saito_core::core::consensus::transaction::{Transaction, TransactionType};
use saito_core::core::consensus::wallet::Wallet;
use saito_core::core::defs::{SaitoPrivateKey, SaitoPublicKey};
use verif_harness::chainsim::futures_catch;
use verif_harness::world::*;

fn slip_out(pk: SaitoPublicKey, amount: u64, ty: SlipType) -> Slip {
    let mut o = Slip::default();
    o.public_key = pk;
    o.amount = amount;
    o.slip_type = ty;
    o
}

fn raw_tx(ty: TransactionType, from: Vec<Slip>, to: Vec<Slip>, sk: &SaitoPrivateKey, ts: u64) -> Transaction {
    let mut tx = Transaction::default();
    tx.transaction_type = ty;
    tx.timestamp = ts;
    for mut s in from {
        s.generate_utxoset_key();
        tx.add_from_slip(s);
    }
    for s in to {
        tx.add_to_slip(s);
    }
    tx.sign(sk);
    tx
}

fn val(node: &Node, tx: &Transaction) -> String {
    let mut t = tx.clone();
    t.generate(&node.pk, 0, 0);
    let r = std::panic::catch_unwind(AssertUnwindSafe(|| t.validate(&node.blockchain.utxoset, &node.blockchain, true)));
    format!("{:?}", r.map_err(|_| "panic"))
}

async fn pool(node: &mut Node, tx: &Transaction) -> bool {
    let sig = tx.signature;
    let _ = futures_catch(AssertUnwindSafe(node.mempool.add_transaction_if_validates(tx.clone(), &node.blockchain))).await;
    let r = node.mempool.transactions.contains_key(&sig);
    node.mempool.transactions.clear();
    node.mempool.utxo_map.clear();
    r
}

async fn stake_tx(node: &Node) -> Option<Transaction> {
    let mut w = node.wallet_lock.write().await;
    w.create_staking_transaction(
        node.blockchain.social_stake_requirement,
        node.blockchain.get_latest_unlocked_stake_block_id(),
        (node.blockchain.get_latest_block_id() + 1).saturating_sub(node.params.genesis_period),
    )
    .ok()
}

#[tokio::main(flavor = "current_thread")]
async fn main() {
    if std::env::args().nth(1).as_deref() == Some("atr") {
        atr_probe().await;
        return;
    }
    let stake: u64 = std::env::args().nth(1).map(|s| s.parse().unwrap()).unwrap_or(0);
    let params = Params { genesis_period: 20, social_stake: stake, social_stake_period: 3, ..Params::default() };
    let mut node = Node::new(&params, 1);
    let a = keypair(2);
    let v = keypair(3);
    let mut iss = vec![];
    for k in 0..6u64 {
        iss.push((a.0, 1_000_000 + k * 1000));
    }
    for k in 0..4u64 {
        iss.push((v.0, 2_000_000 + k * 1000));
    }
    for k in 0..6u64 {
        iss.push((node.pk, 5_000_000 + k));
    }
    let g = make_genesis(&node, 1_000_000, &iss).await.unwrap();
    println!("genesis add {:?}", node.add_block(g.clone()).await);
    let a_slips: Vec<Slip> = (0..6).map(|k| g.transactions[k].to[0].clone()).collect();
    let v_slips: Vec<Slip> = (6..10).map(|k| g.transactions[k].to[0].clone()).collect();
    let mut aw = Wallet::new(a.1, a.0);
    let mut vw = Wallet::new(v.1, v.0);
    aw.on_chain_reorganization(&g, true, 20);
    vw.on_chain_reorganization(&g, true, 20);
    let mut parent = g.clone();

    // block 2: attacker creates an NFT for the victim with deposit 400_000 out of slip 0
    let s0 = a_slips[0].clone();
    let create = aw
        .create_bound_transaction(s0.amount, s0.block_id, s0.tx_ordinal, s0.slip_index as u64, 400_000, vec![], &v.0, None, 1, 20, "art".to_string())
        .await
        .unwrap();
    println!("create-bound validate: {}", val(&node, &create));
    println!("create tx from={:?}\n to={:?}", create.from, create.to);
    let ts = parent.timestamp + 120_000;
    let mut txs = vec![create.clone()];
    if stake > 0 {
        let st = stake_tx(&node).await;
        println!("stake tx: {:?}", st.as_ref().map(|t| (t.from.len(), t.to.len())));
        if let Some(st) = st {
            println!("stake validate {}", val(&node, &st));
            txs.push(st);
        }
    }
    let b2 = make_block(&node, parent.hash, ts, txs, true, 100).await.unwrap();
    println!("b2 txs: {:?}", b2.transactions.iter().map(|t| t.transaction_type as u8).collect::<Vec<_>>());
    println!("b2 add {:?}", node.add_block(b2.clone()).await);
    aw.on_chain_reorganization(&b2, true, 20);
    vw.on_chain_reorganization(&b2, true, 20);
    parent = b2.clone();
    let ctx = b2.transactions.iter().find(|t| t.transaction_type == TransactionType::Bound).unwrap().clone();
    println!("on-chain create to: {:?}", ctx.to);
    for s in &ctx.to {
        println!("  utxo {:?} -> {:?}", s.slip_type, node.blockchain.utxoset.get(&s.utxoset_key));
    }
    println!("victim wallet nfts {} attacker wallet nfts {}", vw.get_nft_list().len(), aw.get_nft_list().len());
    let nft_id = ctx.to[1].utxoset_key.to_vec();
    let ts = parent.timestamp + 120_000;

    // (1) legit owner (victim) sends the NFT on
    let mut vw2 = vw.clone();
    let send_v = vw2.create_send_bound_transaction(1, nft_id.clone(), vec![], &keypair(9).0).await;
    match &send_v {
        Ok(t) => println!("victim send-bound validate: {} pool {}", val(&node, t), pool(&mut node, t).await),
        Err(e) => println!("victim send-bound err {:?}", e),
    }
    // (2) creator (attacker) takes it back with the deposit
    let mut aw2 = aw.clone();
    let send_a = aw2.create_send_bound_transaction(1, nft_id.clone(), vec![], &a.0).await;
    match &send_a {
        Ok(t) => println!("creator reclaim send-bound validate: {} pool {}", val(&node, t), pool(&mut node, t).await),
        Err(e) => println!("creator send-bound err {:?}", e),
    }
    // (3) attacker NFT of his own + victim's normal slip at position 3
    //     first: attacker creates NFT for himself
    let s1 = a_slips[1].clone();
    let create2 = aw
        .create_bound_transaction(s1.amount, s1.block_id, s1.tx_ordinal, s1.slip_index as u64, 300_000, vec![], &a.0, None, 2, 20, "own".to_string())
        .await
        .unwrap();
    let mut txs = vec![create2.clone()];
    if stake > 0 {
        if let Some(st) = stake_tx(&node).await {
            println!("stake validate {}", val(&node, &st));
            txs.push(st);
        }
    }
    let b3 = make_block(&node, parent.hash, ts, txs, true, 101).await.unwrap();
    println!("b3 add {:?}", node.add_block(b3.clone()).await);
    parent = b3.clone();
    let ctx2 = b3.transactions.iter().find(|t| t.transaction_type == TransactionType::Bound).unwrap().clone();
    let ts = parent.timestamp + 120_000;
    let vic = v_slips[0].clone();
    let theft = raw_tx(
        TransactionType::Bound,
        vec![ctx2.to[0].clone(), ctx2.to[1].clone(), ctx2.to[2].clone(), vic.clone()],
        vec![
            ctx2.to[0].clone(),
            slip_out(a.0, ctx2.to[1].amount, SlipType::Normal),
            ctx2.to[2].clone(),
            slip_out(a.0, vic.amount, SlipType::Normal),
        ],
        &a.1,
        ts,
    );
    println!("theft via position 3: validate {} pool {}", val(&node, &theft), pool(&mut node, &theft).await);
    // (4) fabricated triple around a victim slip: need victim slip with slip_index>=1: use ctx.to[1] (victim deposit, idx 1)
    let vdep = ctx.to[1].clone();
    let mut f0 = Slip::default();
    f0.public_key = a.0;
    f0.slip_type = SlipType::Bound;
    f0.block_id = vdep.block_id;
    f0.tx_ordinal = vdep.tx_ordinal;
    f0.slip_index = vdep.slip_index - 1;
    let mut f2 = f0.clone();
    f2.slip_index = vdep.slip_index + 1;
    let fab = raw_tx(
        TransactionType::Bound,
        vec![f0.clone(), vdep.clone(), f2.clone()],
        vec![f0.clone(), slip_out(a.0, vdep.amount, SlipType::Normal), f2.clone()],
        &a.1,
        ts,
    );
    println!("fabricated triple: validate {} pool {}", val(&node, &fab), pool(&mut node, &fab).await);
    // (5) in a block
    let vpk = v.0;
    for (name, tx) in [("theft3", theft.clone()), ("fab", fab.clone()), ("reclaim", send_a.unwrap())] {
        let mut n2 = Node::new(&params, 1);
        for b in [&g, &b2, &b3] {
            n2.add_block((*b).clone()).await;
        }
        let mut txs = vec![tx.clone()];
        if stake > 0 {
            // the producer wallet of n2 learned its slips through add_block
            if let Some(st) = stake_tx(&n2).await {
                txs.push(st);
            }
        }
        let b = make_block(&n2, parent.hash, ts, txs, true, 102).await;
        match b {
            Ok(b) => {
                let has = b.transactions.iter().any(|t| t.signature == tx.signature);
                let mut n3 = Node::new(&params, 1);
                for bb in [&g, &b2, &b3] {
                    n3.add_block((*bb).clone()).await;
                }
                let r = n3.add_block(b.clone()).await;
                let vbal: u64 = n3.blockchain.utxoset.iter().filter(|(k, sp)| **sp && k[0..33] == vpk[..]).map(|(k, _)| Slip::parse_slip_from_utxokey(k).unwrap().amount).sum();
                println!("{} in block: carried {} add {:?} victim balance after {}", name, has, r, vbal);
            }
            Err(e) => println!("{} block build failed {}", name, e),
        }
    }
    let _ = Block::new();
}


/// does a lone Bound output (created for free: Bound slips count 0) come back as coins
/// when the rebroadcast window passes over it?
async fn atr_probe() {
    let gp = 4u64;
    let params = Params { genesis_period: gp, ..Params::default() };
    let mut node = Node::new(&params, 1);
    let a = keypair(2);
    let filler = keypair(4);
    let mut iss = vec![(a.0, 1_000_000u64), (a.0, 1_000_001), (filler.0, 777_000)];
    for k in 0..3u64 {
        iss.push((node.pk, 5_000_000 + k));
    }
    let g = make_genesis(&node, 1_000_000, &iss).await.unwrap();
    println!("genesis add {:?}", node.add_block(g.clone()).await);
    let s0 = g.transactions[0].to[0].clone();
    let mut fill = g.transactions[2].to[0].clone();
    let mut aw = Wallet::new(a.1, a.0);
    aw.on_chain_reorganization(&g, true, gp);
    let mut parent = g.clone();
    let x: u64 = 1_000_000_000_000;
    let mut minted_block = 0;
    for i in 0..9u64 {
        let ts = parent.timestamp + 120_000;
        let f = make_tx(&[fill.clone()], &[(filler.0, fill.amount)], &filler.1, ts);
        let fsig = f.signature;
        let mut txs = vec![f];
        if i == 0 {
            let mut c = aw
                .create_bound_transaction(s0.amount, s0.block_id, s0.tx_ordinal, s0.slip_index as u64, 400_000, vec![], &a.0, None, 1, gp, "x".to_string())
                .await
                .unwrap();
            c.add_to_slip(slip_out(a.0, x, SlipType::Bound));
            c.timestamp = ts;
            c.sign(&a.1);
            println!("create with extra Bound output of {}: validate {}", x, val(&node, &c));
            txs.push(c);
            minted_block = parent.id + 1;
        }
        let b = match make_block(&node, parent.hash, ts, txs, true, 100 + i).await {
            Ok(b) => b,
            Err(e) => {
                println!("block {} could not be built: {}", parent.id + 1, e);
                break;
            }
        };
        let supply_before = node.blockchain.calculate_current_supply();
        let r = futures_catch(AssertUnwindSafe(node.add_block(b.clone()))).await;
        println!(
            "block {} types {:?} add {:?} supply {} -> {}",
            b.id,
            b.transactions.iter().map(|t| t.transaction_type as u8).collect::<Vec<_>>(),
            r,
            supply_before,
            node.blockchain.calculate_current_supply()
        );
        for t in &b.transactions {
            if t.transaction_type == TransactionType::ATR {
                println!("   ATR from {:?} to {:?}", t.from.iter().map(|s| (s.slip_type as u8, s.amount, s.block_id)).collect::<Vec<_>>(), t.to.iter().map(|s| (s.slip_type as u8, s.amount)).collect::<Vec<_>>());
            }
        }
        if r.is_err() || r != Ok(AddClass::OnChain) {
            break;
        }
        fill = b.transactions.iter().find(|t| t.signature == fsig).unwrap().to[0].clone();
        parent = b;
    }
    let _ = minted_block;
    // any ATR-typed spendable output of the attacker with a huge amount?
    let big: Vec<_> = node
        .blockchain
        .utxoset
        .iter()
        .filter(|(_, v)| **v)
        .map(|(k, _)| Slip::parse_slip_from_utxokey(k).unwrap())
        .filter(|s| s.public_key == a.0 && s.amount >= x / 2)
        .collect();
    for s in &big {
        println!("attacker holds {:?} amount {} at {}-{}-{}", s.slip_type, s.amount, s.block_id, s.tx_ordinal, s.slip_index);
        if s.slip_type != SlipType::Bound {
            let t = raw_tx(TransactionType::Normal, vec![s.clone()], vec![slip_out(a.0, s.amount, SlipType::Normal)], &a.1, parent.timestamp + 1000);
            println!("   spend as Normal tx: validate {} pool {}", val(&node, &t), pool(&mut node, &t).await);
        }
    }
}
