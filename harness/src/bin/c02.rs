//! C02 — token supply is conserved.
//! Random histories (payments with fees 0/small/large, routing hops, golden tickets
//! present/absent, genesis periods 3/4/5/8 so that the window wraps several times, dust)
//! and scripted adversarial blocks are run on the real node.  Every step goes to the Coq
//! model (CVRun.check: Block::create output field by field, add_block verdict, in-window
//! utxo set); the direct oracle recomputes the supply in big integers from the node's own
//! state after every accepted block and checks that no accepted transaction pays out more
//! than it consumes.
use std::collections::BTreeSet;

use saito_core::core::consensus::block::Block;
use saito_core::core::consensus::slip::SlipType;
use saito_core::core::consensus::transaction::{Transaction, TransactionType};
use verif_harness::common::{Args, Summary};
use verif_harness::gal;
use verif_harness::rng::Rng;
use verif_harness::world::*;

#[path = "../cvsim.rs"]
mod cvsim;
use cvsim::*;

fn jpairs(v: &[(usize, u64)]) -> Vec<Vec<u64>> {
    v.iter().map(|(k, a)| vec![*k as u64, *a]).collect()
}

struct Case {
    desc: String,
    nontrivial_key: String,
}

fn must_reject(sr: &StepResult, what: &str, case: usize, summary: &mut Summary, desc: &str) {
    if sr.add != Some(AddClass::Invalid) {
        summary.oracle_failure(case, &format!("{} is not rejected: {:?} {}", what, sr.add, sr.panic_msg.clone().unwrap_or_default()), desc);
    }
}
fn must_accept(sr: &StepResult, what: &str, case: usize, summary: &mut Summary, desc: &str) {
    if sr.add != Some(AddClass::OnChain) {
        summary.oracle_failure(case, &format!("{} is not accepted: {:?} {}", what, sr.add, sr.panic_msg.clone().unwrap_or_default()), desc);
    }
}

/// oracles after a step; returns false when the history cannot go on
fn c02_oracle(sim: &mut Sim, sr: &StepResult, case: usize, summary: &mut Summary, desc: &str, expected_finding: Option<&str>) -> bool {
    let mut alarm = |summary: &mut Summary, what: String| match expected_finding {
        Some(id) => summary.known_hit(id, case, &what),
        None => summary.oracle_failure(case, &what, desc),
    };
    match &sr.add {
        Some(AddClass::Panicked) => {
            let tip = sim.node.blockchain.get_latest_block_id();
            let sup = std::panic::catch_unwind(std::panic::AssertUnwindSafe(|| big_supply(&sim.node))).ok().flatten();
            alarm(
                summary,
                format!(
                    "add_block panicked at tip {}: {} (supply in big integers now {:?}, issued {})",
                    tip,
                    sr.panic_msg.clone().unwrap_or_default(),
                    sup,
                    sim.issued
                ),
            );
            false
        }
        Some(AddClass::OnChain) => {
            let b = sim.tip().clone();
            let sup = big_supply(&sim.node).unwrap();
            if sup != sim.issued {
                alarm(summary, format!("after block {} the supply is {} but {} was issued (difference {})", b.id, sup, sim.issued, sup as i128 - sim.issued as i128));
            }
            for (k, t) in b.transactions.iter().enumerate() {
                if matches!(t.transaction_type, TransactionType::Fee | TransactionType::ATR | TransactionType::Issuance) {
                    continue;
                }
                let (i, o) = big_in_out(t);
                if o > i {
                    alarm(summary, format!("transaction {} (type {:?}) of accepted block {} pays out {} and consumes {}", k, t.transaction_type, b.id, o, i));
                }
            }
            true
        }
        _ => true,
    }
}

async fn random_history(hrng: &mut Rng, gpar: &GenParams, big: bool, case: usize, summary: &mut Summary) -> (Sim, String) {
    let issuance = gen_issuance(hrng, gpar.nkeys, big);
    let mut sim = Sim::new(gpar.gp, gpar.pab, gpar.nkeys, &issuance, 1_000_000).await;
    let desc = format!(
        "{{\"case\":{},\"kind\":\"random\",\"genesis_period\":{},\"prune_after_blocks\":{},\"blocks\":{},\"fee_mode\":{},\"hops\":{},\"big_amounts\":{},\"issuance\":{:?}}}",
        case, gpar.gp, gpar.pab, gpar.blocks, gpar.fee_mode, gpar.hops, big, jpairs(&issuance)
    );
    let mut gts = 0;
    let mut atr_blocks = 0;
    let mut dust_seen = 0;
    for i in 0..gpar.blocks {
        let ts = sim.tip().timestamp + 2 * HEARTBEAT + hrng.below(5000);
        let spendable = sim.spendable();
        let ntx = if spendable.is_empty() { 0 } else { hrng.below(4) as usize };
        let mut used = BTreeSet::new();
        let mut txs = vec![];
        for _ in 0..ntx {
            let k = hrng.below(spendable.len() as u64) as usize;
            if !used.insert(k) {
                continue;
            }
            txs.push(gen_payment(&sim, hrng, &spendable[k], gpar.fee_mode, gpar.hops, ts));
        }
        let with_gt = want_gt(&sim, hrng, txs.is_empty());
        let gt = if with_gt {
            gts += 1;
            let parent = sim.tip().clone();
            let miner = sim.keys[hrng.below(sim.keys.len() as u64) as usize].0;
            Some(gt_tx_for(&sim.node, &parent, miner, i as u64 * 31 + case as u64).await)
        } else {
            None
        };
        let (mult, _fpb) = sim.atr_params();
        let leaving_max = sim.leaving_max_amount();
        let (co, sr) = sim.honest_step(ts, gt, &txs).await;
        match co {
            CreateOutcome::Ok => {}
            CreateOutcome::Err(e) => {
                summary.oracle_failure(case, &format!("Block::create failed on valid input: {}", e), &desc);
                break;
            }
            CreateOutcome::Panic(p) => {
                summary.count("producer_panicked", &format!("multiplier{}1:{}", if mult > 1 { ">" } else { "=" }, p));
                let _ = leaving_max;
                summary.oracle_failure(case, &format!("Block::create panicked on valid input (payout multiplier {}): {}", mult, p), &desc);
                break;
            }
            CreateOutcome::NotCalled => {}
        }
        if sr.add == Some(AddClass::Invalid) {
            summary.count("honest_block_rejected", &format!("multiplier={}", mult));
            summary.oracle_failure(case, &format!("block {} built by the real producer was rejected (payout multiplier {})", sim.tip().id + 1, mult), &desc);
            break;
        }
        if !c02_oracle(&mut sim, &sr, case, summary, &desc, None) {
            break;
        }
        let b = sim.tip();
        if b.transactions.iter().any(|t| t.transaction_type == TransactionType::ATR) {
            atr_blocks += 1;
        }
        if b.total_fees_atr > 0 && b.total_fees_cumulative < b.total_fees_new + b.total_fees_atr {
            dust_seen += 1;
        }
    }
    summary.count("genesis_period", &gpar.gp.to_string());
    summary.count("fee_mode", &gpar.fee_mode.to_string());
    summary.count("blocks_accepted", &format!("{}", (sim.chain.len() - 1) / 10 * 10));
    summary.count("window_wraps", &format!("{}", (sim.chain.len() as u64 - 1) / (gpar.gp + 1)));
    summary.count("blocks_with_rebroadcasts", &format!("{}", atr_blocks.min(9)));
    summary.count("blocks_collecting_dust", &format!("{}", dust_seen.min(9)));
    summary.count("golden_tickets", &format!("{}", gts / 5 * 5));
    (sim, desc)
}


/// A fork across the window edge: two identical nodes share blocks 1..k-1; node 1 adds its own
/// block k, node 2 builds a competing block k and a block k+1 on it; both are then delivered to
/// node 1, which reorganises. Oracles on node 1: supply after the reorganisation, no panic,
/// same in-window utxo set as node 2 (whose linear history goes to the model).
async fn fork_history(hrng: &mut Rng, gp: u64, case: usize, summary: &mut Summary) -> (Sim, String) {
    let nkeys = 4u8;
    let issuance = gen_issuance(hrng, nkeys, false);
    let mut a = Sim::new(gp, 8, nkeys, &issuance, 1_000_000).await;
    let mut b = Sim::new(gp, 8, nkeys, &issuance, 1_000_000).await;
    let shared = (gp + 2 + hrng.below(gp + 3)) as usize;
    let desc = format!(
        "{{\"case\":{},\"kind\":\"fork\",\"genesis_period\":{},\"shared_blocks\":{},\"issuance\":{:?}}}",
        case, gp, shared, jpairs(&issuance)
    );
    let mut ok = true;
    for i in 0..shared {
        let ts = a.tip().timestamp + 2 * HEARTBEAT + hrng.below(5000);
        let spendable = a.spendable();
        let mut txs = vec![];
        if !spendable.is_empty() {
            let k = hrng.below(spendable.len() as u64) as usize;
            txs.push(gen_payment(&a, hrng, &spendable[k], 2, false, ts));
        }
        let with_gt = want_gt(&a, hrng, txs.is_empty());
        let gt = if with_gt {
            let parent = a.tip().clone();
            Some(gt_tx_for(&a.node, &parent, a.keys[1].0, i as u64 * 17 + case as u64).await)
        } else {
            None
        };
        let (co, sr) = a.honest_step(ts, gt.clone(), &txs).await;
        if co != CreateOutcome::Ok || sr.add != Some(AddClass::OnChain) {
            ok = false;
            break;
        }
        let blk = a.tip().clone();
        let sr2 = b.step(ts, gt, &txs, CreateOutcome::NotCalled, None, Some(blk)).await;
        if sr2.add != Some(AddClass::OnChain) {
            summary.oracle_failure(case, "the same block is accepted by one node and not by its twin", &desc);
            ok = false;
            break;
        }
        c02_oracle(&mut a, &sr, case, summary, &desc, None);
    }
    if ok {
        // node A: its own block k; node B: a competing block k and a block k+1
        let mut branch = |sim: &Sim, hrng: &mut Rng, pick_last: bool, ts: u64| -> Vec<Transaction> {
            // only outputs that exist at the fork point and will not be rebroadcast by the next two blocks
            let next = sim.tip().id + 1;
            let sp: Vec<_> = sim.spendable().into_iter().filter(|s| s.block_id + sim.gp + 1 > next + 1).collect();
            if sp.is_empty() {
                return vec![];
            }
            let k = if pick_last { sp.len() - 1 } else { 0 };
            vec![gen_payment(sim, hrng, &sp[k], 2, false, ts)]
        };
        let ts = a.tip().timestamp + 2 * HEARTBEAT + 700;
        let txa = branch(&a, hrng, false, ts);
        let parent = a.tip().clone();
        let gta = gt_tx_for(&a.node, &parent, a.keys[1].0, 901).await;
        let (_c, sra) = a.honest_step(ts, Some(gta), &txa).await;
        ok = c02_oracle(&mut a, &sra, case, summary, &desc, None) && sra.add == Some(AddClass::OnChain);
        let txb = branch(&b, hrng, true, ts + 11);
        let gtb = gt_tx_for(&b.node, &parent, b.keys[2].0, 902).await;
        let (_c, srb) = b.honest_step(ts + 11, Some(gtb), &txb).await;
        ok = ok && srb.add == Some(AddClass::OnChain);
        if ok {
            let ts2 = b.tip().timestamp + 2 * HEARTBEAT + 900;
            let txb2 = branch(&b, hrng, false, ts2);
            let gt2 = if want_gt(&b, hrng, txb2.is_empty()) { let p = b.tip().clone(); Some(gt_tx_for(&b.node, &p, b.keys[2].0, 903).await) } else { None };
            let (_c, srb2) = b.honest_step(ts2, gt2, &txb2).await;
            ok = srb2.add == Some(AddClass::OnChain);
        }
        if ok {
            let n = b.chain.len();
            let (bk, bk1) = (b.chain[n - 2].clone(), b.chain[n - 1].clone());
            let r1 = verif_harness::chainsim::futures_catch(std::panic::AssertUnwindSafe(a.node.add_block(bk))).await;
            let r2 = verif_harness::chainsim::futures_catch(std::panic::AssertUnwindSafe(a.node.add_block(bk1))).await;
            summary.count("fork_delivery", &format!("{:?}/{:?}", r1.clone().map(|c| c.code()), r2.clone().map(|c| c.code())));
            match (r1, r2) {
                (Ok(AddClass::OffChain), Ok(AddClass::OnChain)) => {
                    let sa = big_supply(&a.node).unwrap();
                    if sa != a.issued {
                        summary.oracle_failure(case, &format!("after the reorganisation the supply is {} but {} was issued", sa, a.issued), &desc);
                    }
                    let mut ia = Interner::default();
                    let mut ib = Interner::default();
                    if window_utxo(&a.node, &mut ia) != window_utxo(&b.node, &mut ib) {
                        summary.oracle_failure(case, "after the reorganisation the in-window utxo set differs from the one of a node that only saw the winning chain", &desc);
                    }
                }
                (r1, r2) => {
                    summary.oracle_failure(case, &format!("fork delivery: sibling {:?}, its child {:?} (expected off-chain, then on-chain)", r1, r2), &desc);
                }
            }
        }
    }
    summary.count("fork", &format!("gp{}", gp));
    (b, desc)
}


/// A reorganisation that fails: node A has block k; node B builds a valid competing block k and a
/// child k+1 that re-spends an output already spent on the shared chain (Block::create does not
/// validate). Delivered to A: the sibling goes off-chain, its child triggers the reorganisation,
/// fails to validate, and A must end up exactly where it was (supply, utxo set).
async fn failed_reorg_history(hrng: &mut Rng, gp: u64, case: usize, summary: &mut Summary) -> (Sim, String) {
    let nkeys = 4u8;
    let issuance = gen_issuance(hrng, nkeys, false);
    let mut a = Sim::new(gp, 8, nkeys, &issuance, 1_000_000).await;
    let mut b = Sim::new(gp, 8, nkeys, &issuance, 1_000_000).await;
    let shared = (gp + 2 + hrng.below(3)) as usize;
    let desc = format!(
        "{{\"case\":{},\"kind\":\"failed-reorg\",\"genesis_period\":{},\"shared_blocks\":{},\"issuance\":{:?}}}",
        case, gp, shared, jpairs(&issuance)
    );
    let mut respend: Option<(saito_core::core::consensus::slip::Slip, usize)> = None;
    let mut ok = true;
    for i in 0..shared {
        let ts = a.tip().timestamp + 2 * HEARTBEAT + hrng.below(5000);
        let mut spendable = a.spendable();
        spendable.sort_by_key(|s| s.block_id);
        let mut txs = vec![];
        if let Some(s) = spendable.last() {
            txs.push(gen_payment(&a, hrng, s, 1, false, ts));
            if i + 1 == shared {
                respend = Some((s.clone(), a.key_index(&s.public_key).unwrap()));
            }
        }
        let with_gt = want_gt(&a, hrng, txs.is_empty());
        let gt = if with_gt {
            let parent = a.tip().clone();
            Some(gt_tx_for(&a.node, &parent, a.keys[1].0, i as u64 * 19 + case as u64).await)
        } else {
            None
        };
        let (co, sr) = a.honest_step(ts, gt.clone(), &txs).await;
        if co != CreateOutcome::Ok || sr.add != Some(AddClass::OnChain) {
            ok = false;
            break;
        }
        let blk = a.tip().clone();
        let sr2 = b.step(ts, gt, &txs, CreateOutcome::NotCalled, None, Some(blk)).await;
        if sr2.add != Some(AddClass::OnChain) {
            ok = false;
            break;
        }
    }
    if let (true, Some((x, owner))) = (ok, respend) {
        let ts = a.tip().timestamp + 2 * HEARTBEAT + 700;
        let parent = a.tip().clone();
        let gta = gt_tx_for(&a.node, &parent, a.keys[1].0, 911).await;
        let (_c, sra) = a.honest_step(ts, Some(gta), &[]).await;
        ok = sra.add == Some(AddClass::OnChain);
        let gtb = gt_tx_for(&b.node, &parent, b.keys[2].0, 912).await;
        let (_c, srb) = b.honest_step(ts + 13, Some(gtb), &[]).await;
        ok = ok && srb.add == Some(AddClass::OnChain);
        if ok {
            let before_supply = big_supply(&a.node).unwrap();
            let mut ia = Interner::default();
            let before_utxo = window_utxo(&a.node, &mut ia);
            // the child re-spends x (spent in the last shared block)
            let ts2 = b.tip().timestamp + 2 * HEARTBEAT + 900;
            let bad = make_tx(&[x.clone()], &[(x.public_key, x.amount)], &b.keys[owner].1, ts2);
            let p = b.tip().clone();
            let gt2 = gt_tx_for(&b.node, &p, b.keys[2].0, 913).await;
            let bk = b.tip().clone();
            let created = create_block(&b.node, p.hash, ts2, &[bad.clone()], Some(gt2.clone())).await;
            if let Ok(Ok(bk1)) = created {
                let srb2 = b.step(ts2, Some(gt2), &[bad], CreateOutcome::Ok, Some(bk1.clone()), Some(bk1.clone())).await;
                if srb2.add != Some(AddClass::Invalid) {
                    summary.oracle_failure(case, &format!("a block re-spending the spent output {}:{}:{} is not rejected: {:?}", x.block_id, x.tx_ordinal, x.slip_index, srb2.add), &desc);
                }
                let r1 = verif_harness::chainsim::futures_catch(std::panic::AssertUnwindSafe(a.node.add_block(bk))).await;
                let r2 = verif_harness::chainsim::futures_catch(std::panic::AssertUnwindSafe(a.node.add_block(bk1))).await;
                summary.count("failed_reorg_delivery", &format!("{:?}/{:?}", r1.clone().map(|c| c.code()), r2.clone().map(|c| c.code())));
                match (r1, r2) {
                    (Ok(AddClass::OffChain), Ok(AddClass::Invalid)) => {
                        let sa = std::panic::catch_unwind(std::panic::AssertUnwindSafe(|| big_supply(&a.node))).ok().flatten();
                        if sa != Some(before_supply) {
                            summary.oracle_failure(case, &format!("after the failed reorganisation the supply is {:?}, before it was {} (issued {})", sa, before_supply, a.issued), &desc);
                        }
                        let mut ia2 = Interner::default();
                        if window_utxo(&a.node, &mut ia2) != before_utxo {
                            summary.oracle_failure(case, "after the failed reorganisation the in-window utxo set differs from the one before it", &desc);
                        }
                    }
                    (r1, r2) => {
                        summary.oracle_failure(case, &format!("failed-reorg delivery: sibling {:?}, its invalid child {:?} (expected off-chain, then invalid)", r1, r2), &desc);
                    }
                }
            }
        }
    }
    summary.count("failed_reorg", &format!("gp{}", gp));
    (b, desc)
}

/// deterministic chain with large fees (fee per byte > 0) used as prefix of the scripted cases
async fn scripted_prefix_raw(gp: u64, pab: u64, issuance: &[(usize, u64)], blocks: usize, seed: u64, case: usize, summary: &mut Summary, desc: &str) -> Sim {
    let mut rng = Rng::new(seed);
    let mut sim = Sim::new(gp, pab, 4, issuance, 1_000_000).await;
    for i in 0..blocks {
        let ts = sim.tip().timestamp + 2 * HEARTBEAT + 1000;
        // the producer moves its own largest output, paying a large fee
        let mut sp: Vec<_> = sim.spendable().into_iter().filter(|s| s.public_key == sim.keys[0].0).collect();
        sp.sort_by_key(|s| s.amount);
        let mut txs = vec![];
        if let Some(s) = sp.last() {
            if s.amount > 100_000 {
                txs.push(make_tx(&[s.clone()], &[(sim.keys[0].0, s.amount - 50_000)], &sim.keys[0].1, ts));
            }
        }
        let with_gt = i % 2 == 0 || txs.is_empty();
        let gt = if with_gt {
            let parent = sim.tip().clone();
            Some(gt_tx_for(&sim.node, &parent, sim.keys[1].0, rng.next() % 1000).await)
        } else {
            None
        };
        let (co, sr) = sim.honest_step(ts, gt, &txs).await;
        let alive = c02_oracle(&mut sim, &sr, case, summary, desc, None);
        if co != CreateOutcome::Ok || sr.add != Some(AddClass::OnChain) || !alive {
            if sr.add != Some(AddClass::Panicked) {
                summary.oracle_failure(case, &format!("honest block {} of the scripted prefix was not accepted: create {:?}, add {:?}", i + 2, co, sr.add), desc);
            }
            sim.dead = true;
            break;
        }
    }
    sim
}

const ISS: &[(usize, u64)] = &[(0, 3_000_000), (0, 500_000), (1, 700), (1, 90_000), (2, 5), (1, 333_000), (3, 44_000)];

async fn scripted(name: &str, case: usize, summary: &mut Summary) -> (Sim, String) {
    let desc = format!("{{\"case\":{},\"kind\":\"scripted\",\"scenario\":\"{}\",\"genesis_period\":3,\"issuance\":{:?}}}", case, name, jpairs(ISS));
    let mut sim;
    match name {
        // a block with a golden ticket whose fee transaction is left out
        "fee-tx-omitted" => {
            sim = scripted_prefix_raw(3, 8, ISS, 4, 7, case, summary, &desc).await;
            if sim.dead {
                return (sim, desc);
            }
            let ts = sim.tip().timestamp + 2 * HEARTBEAT + 1000;
            let parent = sim.tip().clone();
            let gt = gt_tx_for(&sim.node, &parent, sim.keys[1].0, 5).await;
            let created = create_block(&sim.node, parent.hash, ts, &[], Some(gt.clone())).await.unwrap().unwrap();
            let mut edited = created.clone();
            let idx = edited.transactions.iter().position(|t| t.transaction_type == TransactionType::Fee).unwrap();
            let paid: u64 = edited.transactions[idx].to.iter().map(|s| s.amount).sum();
            edited.transactions.remove(idx);
            reseal(&mut edited, &sim.keys[0].1);
            summary.count("scripted", &format!("{}:fee-tx-paid-{}", name, if paid > 0 { "positive" } else { "zero" }));
            let sr = sim.step(ts, Some(gt), &[], CreateOutcome::Ok, Some(created), Some(edited)).await;
            must_reject(&sr, "a golden-ticket block without its fee transaction (fixed by 60ba6d1)", case, summary, &desc);
            c02_oracle(&mut sim, &sr, case, summary, &desc, None);
        }
        // an NFT (Bound) transaction that pays a fee
        "bound-tx-fee" => {
            sim = scripted_prefix_raw(3, 8, ISS, 2, 7, case, summary, &desc).await;
            if sim.dead {
                return (sim, desc);
            }
            let ts = sim.tip().timestamp + 2 * HEARTBEAT + 1000;
            let s = sim.spendable().into_iter().find(|s| s.public_key == sim.keys[1].0 && s.amount == 333_000).unwrap();
            let tx = nft_create(&sim, &s, 300_000, 30_000, ts); // fee 3000
            let (_co, sr) = sim.honest_step(ts, None, &[tx]).await;
            must_accept(&sr, "a block with an NFT-creating transaction that pays a fee", case, summary, &desc);
            c02_oracle(&mut sim, &sr, case, summary, &desc, None);
        }
        // a BlockStake-typed transaction without inputs creating outputs: must be rejected
        // (accepted before fix 4119a69; with 2 x 2^63 the release build minted 2^64 unnoticed)
        "blockstake-mint" | "blockstake-mint-2-64" => {
            sim = scripted_prefix_raw(3, 8, ISS, 2, 7, case, summary, &desc).await;
            if sim.dead {
                return (sim, desc);
            }
            let ts = sim.tip().timestamp + 2 * HEARTBEAT + 1000;
            let outs = if name == "blockstake-mint" {
                vec![slip_out(sim.keys[2].0, 1_000_000, SlipType::Normal)]
            } else {
                vec![slip_out(sim.keys[2].0, 1u64 << 63, SlipType::Normal), slip_out(sim.keys[2].0, 1u64 << 63, SlipType::Normal)]
            };
            let tx = raw_tx(TransactionType::BlockStake, vec![], outs, &sim.keys[2].1, ts);
            let parent = sim.tip().clone();
            let gt = gt_tx_for(&sim.node, &parent, sim.keys[1].0, 9).await;
            let (_co, sr) = sim.honest_step(ts, Some(gt), &[tx]).await;
            if sr.add != Some(AddClass::Invalid) {
                summary.oracle_failure(case, &format!("block with a BlockStake transaction creating coins from nothing was not rejected: {:?}", sr.add), &desc);
            }
            c02_oracle(&mut sim, &sr, case, summary, &desc, None);
        }
        // a properly signed BlockStake-typed transaction that pays a fee
        "blockstake-tx-fee" => {
            sim = scripted_prefix_raw(3, 8, ISS, 2, 7, case, summary, &desc).await;
            if sim.dead {
                return (sim, desc);
            }
            let ts = sim.tip().timestamp + 2 * HEARTBEAT + 1000;
            let s = sim.spendable().into_iter().find(|s| s.public_key == sim.keys[1].0 && s.amount == 333_000).unwrap();
            let tx = raw_tx(
                TransactionType::BlockStake,
                vec![s.clone()],
                vec![slip_out(s.public_key, 300_000, SlipType::BlockStake), slip_out(s.public_key, 31_000, SlipType::Normal)],
                &sim.keys[1].1,
                ts,
            ); // fee 2000
            let (_co, sr) = sim.honest_step(ts, None, &[tx]).await;
            must_accept(&sr, "a block with a signed BlockStake transaction that pays a fee", case, summary, &desc);
            c02_oracle(&mut sim, &sr, case, summary, &desc, None);
        }
        // a golden ticket naming the all-zero key
        "zero-key-golden-ticket" => {
            sim = scripted_prefix_raw(3, 8, ISS, 3, 7, case, summary, &desc).await;
            if sim.dead {
                return (sim, desc);
            }
            let ts = sim.tip().timestamp + 2 * HEARTBEAT + 1000;
            let parent = sim.tip().clone();
            let gt = gt_tx_for(&sim.node, &parent, [0u8; 33], 11).await;
            let s = sim.spendable().into_iter().find(|s| s.public_key == sim.keys[0].0 && s.amount > 100_000).unwrap();
            let tx = make_tx(&[s.clone()], &[(sim.keys[0].0, s.amount - 50_000)], &sim.keys[0].1, ts);
            let (_co, sr) = sim.honest_step(ts, Some(gt), &[tx]).await;
            must_reject(&sr, "a block whose golden ticket names the all-zero key (fixed by b8552b5)", case, summary, &desc);
            c02_oracle(&mut sim, &sr, case, summary, &desc, None);
        }
        // an NFT group leaving the window while the rebroadcast fee is positive
        "nft-rebroadcast" => {
            sim = scripted_prefix_raw(3, 8, ISS, 1, 7, case, summary, &desc).await;
            if sim.dead {
                return (sim, desc);
            }
            let ts = sim.tip().timestamp + 2 * HEARTBEAT + 1000;
            let s = sim.spendable().into_iter().find(|s| s.public_key == sim.keys[1].0 && s.amount == 333_000).unwrap();
            let tx = nft_create(&sim, &s, 300_000, 33_000, ts); // no fee
            let parent = sim.tip().clone();
            let gt = gt_tx_for(&sim.node, &parent, sim.keys[1].0, 13).await;
            let (_co, sr) = sim.honest_step(ts, Some(gt), &[tx]).await;
            let mut alive = c02_oracle(&mut sim, &sr, case, summary, &desc, None);
            let mut k = 0;
            while alive && k < 10 {
                alive = scripted_more(&mut sim, k).await.map(|sr| c02_oracle(&mut sim, &sr, case, summary, &desc, None)).unwrap_or(false);
                k += 1;
            }
        }
        // an output whose value was collected as fees (too small to rebroadcast) is spent afterwards
        "collected-output-spent" => {
            sim = scripted_prefix_raw(3, 8, ISS, 5, 7, case, summary, &desc).await;
            if sim.dead {
                return (sim, desc);
            }
            // block 5 collected the 700 and the 5 of the genesis block; their entries are still there
            let ts = sim.tip().timestamp + 2 * HEARTBEAT + 1000;
            let stale: Vec<_> = stale_entries(&sim.node).into_iter().filter(|s| s.amount == 700).collect();
            summary.count("scripted", &format!("{}:stale-entries-{}", name, stale.len()));
            if let Some(s) = stale.first() {
                let owner = sim.key_index(&s.public_key).unwrap();
                let tx = make_tx(&[s.clone()], &[(s.public_key, s.amount)], &sim.keys[owner].1, ts);
                let (_co, sr) = sim.honest_step(ts, None, &[tx]).await;
                must_reject(&sr, "a block spending an output that was collected as fees two blocks earlier (fixed by bb88717)", case, summary, &desc);
                c02_oracle(&mut sim, &sr, case, summary, &desc, None);
            }
        }
        // every consensus field of the header, one at a time, off by one in an otherwise honest block:
        // each must be rejected (one invalid child per tip, then the honest block extends the chain)
        "header-tampered" => {
            let iss: &[(usize, u64)] = &[(0, 3_000_000), (0, 500_000), (1, 700), (1, 90_000), (2, 5), (1, 333_000), (3, 44_000), (2, 250_000)];
            sim = Sim::new(3, 8, 4, iss, 1_000_000).await;
            // 0..24: +1 on field f; 25: previous_block_unpaid + 1 (an odd round: the block has no golden
            // ticket, the check is `!= previous_block.total_fees`); 26..51: the same fields, -1
            const FIELDS: usize = 52;
            for round in 0..FIELDS {
                let f = if round == 25 { 2 } else if round >= 26 { round - 26 } else { round };
                let minus = round >= 26;
                let ts = sim.tip().timestamp + 2 * HEARTBEAT + 1000;
                let mut sp: Vec<_> = sim.spendable().into_iter().filter(|s| s.public_key == sim.keys[0].0 && s.slip_type == SlipType::Normal).collect();
                sp.sort_by_key(|s| s.amount);
                let mut txs = vec![];
                if let Some(s) = sp.last() {
                    if s.amount > 100_000 {
                        txs.push(make_tx(&[s.clone()], &[(sim.keys[0].0, s.amount - 3_000)], &sim.keys[0].1, ts));
                    }
                }
                let with_gt = !sim.tip().has_golden_ticket || txs.is_empty();
                let gt = if with_gt {
                    let parent = sim.tip().clone();
                    Some(gt_tx_for(&sim.node, &parent, sim.keys[1].0, 300 + f as u64).await)
                } else {
                    None
                };
                let created = match create_block(&sim.node, sim.tip().hash, ts, &txs, gt.clone()).await {
                    Ok(Ok(b)) => b,
                    other => {
                        summary.oracle_failure(case, &format!("Block::create failed on valid input: {:?}", other.map(|r| r.map(|b| b.id))), &desc);
                        break;
                    }
                };
                let mut e = created.clone();
                let bump = |x: u64, minus: bool| if minus { x.wrapping_sub(1) } else { x.wrapping_add(1) };
                let name_f = match f {
                    0 => { e.treasury = bump(e.treasury, minus); "treasury" }
                    1 => { e.graveyard = bump(e.graveyard, minus); "graveyard" }
                    2 => { e.previous_block_unpaid = bump(e.previous_block_unpaid, minus); "previous_block_unpaid" }
                    3 => { e.total_fees = bump(e.total_fees, minus); "total_fees" }
                    4 => { e.total_fees_new = bump(e.total_fees_new, minus); "total_fees_new" }
                    5 => { e.total_fees_atr = bump(e.total_fees_atr, minus); "total_fees_atr" }
                    6 => { e.total_fees_cumulative = bump(e.total_fees_cumulative, minus); "total_fees_cumulative" }
                    7 => { e.avg_total_fees = bump(e.avg_total_fees, minus); "avg_total_fees" }
                    8 => { e.avg_total_fees_new = bump(e.avg_total_fees_new, minus); "avg_total_fees_new" }
                    9 => { e.avg_total_fees_atr = bump(e.avg_total_fees_atr, minus); "avg_total_fees_atr" }
                    10 => { e.total_payout_routing = bump(e.total_payout_routing, minus); "total_payout_routing" }
                    11 => { e.total_payout_mining = bump(e.total_payout_mining, minus); "total_payout_mining" }
                    12 => { e.total_payout_treasury = bump(e.total_payout_treasury, minus); "total_payout_treasury" }
                    13 => { e.total_payout_graveyard = bump(e.total_payout_graveyard, minus); "total_payout_graveyard" }
                    14 => { e.total_payout_atr = bump(e.total_payout_atr, minus); "total_payout_atr" }
                    15 => { e.avg_payout_routing = bump(e.avg_payout_routing, minus); "avg_payout_routing" }
                    16 => { e.avg_payout_mining = bump(e.avg_payout_mining, minus); "avg_payout_mining" }
                    17 => { e.avg_payout_treasury = bump(e.avg_payout_treasury, minus); "avg_payout_treasury" }
                    18 => { e.avg_payout_graveyard = bump(e.avg_payout_graveyard, minus); "avg_payout_graveyard" }
                    19 => { e.avg_payout_atr = bump(e.avg_payout_atr, minus); "avg_payout_atr" }
                    20 => { e.avg_fee_per_byte = bump(e.avg_fee_per_byte, minus); "avg_fee_per_byte" }
                    21 => { e.fee_per_byte = bump(e.fee_per_byte, minus); "fee_per_byte" }
                    22 => { e.avg_nolan_rebroadcast_per_block = bump(e.avg_nolan_rebroadcast_per_block, minus); "avg_nolan_rebroadcast_per_block" }
                    23 => { e.burnfee = bump(e.burnfee, minus); "burnfee" }
                    24 => { e.difficulty = bump(e.difficulty, minus); "difficulty" }
                    _ => { e.previous_block_unpaid = bump(e.previous_block_unpaid, minus); "previous_block_unpaid" }
                };
                let name_f = format!("{}{}{}", name_f, if minus { "-1" } else { "+1" }, if gt.is_some() { "" } else { ":no-golden-ticket" });
                resign(&mut e, &sim.keys[0].1);
                let sr = sim.step(ts, gt.clone(), &txs, CreateOutcome::Ok, Some(created.clone()), Some(e)).await;
                if sr.add != Some(AddClass::Invalid) {
                    summary.oracle_failure(
                        case,
                        &format!("block {} with header field {} is not rejected: {:?} {}", created.id, name_f, sr.add, sr.panic_msg.clone().unwrap_or_default()),
                        &desc,
                    );
                    c02_oracle(&mut sim, &sr, case, summary, &desc, None);
                    break;
                }
                // the honest block is still accepted afterwards
                let sr2 = sim.step(ts, gt, &txs, CreateOutcome::NotCalled, None, Some(created)).await;
                if !c02_oracle(&mut sim, &sr2, case, summary, &desc, None) || sr2.add != Some(AddClass::OnChain) {
                    if sr2.add == Some(AddClass::Invalid) {
                        summary.count("scripted", "header-tampered:honest-block-rejected-multiplier");
                    }
                    break;
                }
                summary.count("scripted", &format!("header-tampered:{}", name_f));
            }
        }
        // an attacker-assembled block: an ordinary signed transaction spends an output of the block
        // leaving the window, which the same block's rebroadcast transaction consumes as well;
        // the header is made consistent with the real generate_consensus_values. Must be rejected.
        "spend-and-rebroadcast" => {
            sim = scripted_prefix_raw(3, 8, ISS, 3, 7, case, summary, &desc).await;
            if sim.dead {
                return (sim, desc);
            }
            let ts = sim.tip().timestamp + 2 * HEARTBEAT + 1000;
            let parent = sim.tip().clone();
            let gt = gt_tx_for(&sim.node, &parent, sim.keys[1].0, 21).await;
            let created = create_block(&sim.node, parent.hash, ts, &[], Some(gt.clone())).await.unwrap().unwrap();
            let g = sim.chain[0].clone();
            let s = g.transactions.iter().flat_map(|t| t.to.iter()).find(|s| s.amount == 90_000).unwrap().clone();
            let owner = sim.key_index(&s.public_key).unwrap();
            let mut spend = make_tx(&[s.clone()], &[(sim.keys[3].0, s.amount)], &sim.keys[owner].1, ts);
            spend.generate(&sim.node.pk, 0, 0);
            let mut edited = created.clone();
            let rebroadcast_too = edited.transactions.iter().any(|t| t.transaction_type == TransactionType::ATR && t.from.iter().any(|f| f.get_utxoset_key() == s.get_utxoset_key()));
            summary.count("scripted", &format!("{}:output-is-rebroadcast-{}", name, rebroadcast_too));
            edited.transactions.insert(1, spend.clone());
            refill_header(&sim.node, &mut edited).await;
            reseal(&mut edited, &sim.keys[0].1);
            let sr = sim.step(ts, Some(gt), &[], CreateOutcome::Ok, Some(created), Some(edited)).await;
            if sr.add != Some(AddClass::Invalid) {
                summary.oracle_failure(case, &format!("block spending output 1:{}:0 (90_000) AND rebroadcasting it is not rejected: {:?} {}", s.tx_ordinal, sr.add, sr.panic_msg.clone().unwrap_or_default()), &desc);
            }
            c02_oracle(&mut sim, &sr, case, summary, &desc, None);
        }
        // a "new NFT" transaction with an additional Bound output (index 4) carrying a large amount:
        // Bound amounts are not counted as value when the transaction is validated
        "stray-bound-output" => {
            sim = scripted_prefix_raw(3, 8, ISS, 1, 7, case, summary, &desc).await;
            if sim.dead {
                return (sim, desc);
            }
            let ts = sim.tip().timestamp + 2 * HEARTBEAT + 1000;
            let s = sim.spendable().into_iter().find(|s| s.public_key == sim.keys[1].0 && s.amount == 333_000).unwrap();
            let mut tx = nft_create(&sim, &s, 300_000, 33_000, ts);
            tx.add_to_slip(slip_out(s.public_key, 1_000_000, SlipType::Bound));
            tx.sign(&sim.keys[1].1);
            let parent = sim.tip().clone();
            let gt = gt_tx_for(&sim.node, &parent, sim.keys[1].0, 13).await;
            let (_co, sr) = sim.honest_step(ts, Some(gt), &[tx]).await;
            summary.count("scripted", &format!("{}:nft-tx-{:?}", name, sr.add.clone().map(|c| c.code())));
            must_reject(&sr, "a block with an NFT-creating transaction that carries an extra Bound output of 1_000_000 (fixed by 5a3c1b6)", case, summary, &desc);
            let mut alive = c02_oracle(&mut sim, &sr, case, summary, &desc, None) && sr.add == Some(AddClass::OnChain);
            let mut k = 0;
            while alive && k < 6 {
                alive = scripted_more(&mut sim, k).await.map(|sr| c02_oracle(&mut sim, &sr, case, summary, &desc, None)).unwrap_or(false);
                k += 1;
            }
        }
        // an SPV-typed transaction (no signature check, inputs not looked up) names the first Bound slip
        // of somebody's NFT group as its input: Bound amounts count as 0, so it passes; the group is torn
        "spv-spends-bound-slip" => {
            sim = scripted_prefix_raw(3, 8, ISS, 1, 7, case, summary, &desc).await;
            if sim.dead {
                return (sim, desc);
            }
            let ts = sim.tip().timestamp + 2 * HEARTBEAT + 1000;
            let s = sim.spendable().into_iter().find(|s| s.public_key == sim.keys[1].0 && s.amount == 333_000).unwrap();
            let tx = nft_create(&sim, &s, 300_000, 33_000, ts);
            let parent = sim.tip().clone();
            let gt = gt_tx_for(&sim.node, &parent, sim.keys[1].0, 13).await;
            let (_co, sr) = sim.honest_step(ts, Some(gt), &[tx]).await;
            let mut alive = c02_oracle(&mut sim, &sr, case, summary, &desc, None) && sr.add == Some(AddClass::OnChain);
            if alive {
                // block 4: key 3 (a stranger) "spends" the Bound slip 3:x:0 of key 2 with an SPV-typed transaction
                let nft_block = sim.tip().clone();
                let bound = nft_block.transactions.iter().flat_map(|t| t.to.iter()).find(|s| s.slip_type == SlipType::Bound && s.amount == 1).unwrap().clone();
                let ts2 = sim.tip().timestamp + 2 * HEARTBEAT + 1000;
                let spv = raw_tx(TransactionType::SPV, vec![bound.clone()], vec![slip_out(sim.keys[3].0, 0, SlipType::Normal)], &sim.keys[3].1, ts2);
                let mut sp: Vec<_> = sim.spendable().into_iter().filter(|s| s.public_key == sim.keys[0].0).collect();
                sp.sort_by_key(|s| s.amount);
                let big = sp.last().unwrap().clone();
                let pay = make_tx(&[big.clone()], &[(sim.keys[0].0, big.amount - 50_000)], &sim.keys[0].1, ts2);
                let (_co, sr2) = sim.honest_step(ts2, None, &[pay, spv]).await;
                let gone = !sim.node.blockchain.utxoset.contains_key(&bound.get_utxoset_key());
                summary.count("scripted", &format!("{}:block-{:?}:bound-slip-gone-{}", name, sr2.add.clone().map(|c| c.code()), gone));
                must_reject(&sr2, "a block with an SPV-typed transaction whose input is somebody's Bound slip (fixed by 66d7fd0)", case, summary, &desc);
                alive = c02_oracle(&mut sim, &sr2, case, summary, &desc, None) && sr2.add == Some(AddClass::OnChain);
                if gone {
                    summary.oracle_failure(case, "the Bound slip named by an SPV-typed transaction was removed from the utxo set", &desc);
                }
            }
            let mut k = 0;
            while alive && k < 6 {
                alive = scripted_more(&mut sim, k).await.map(|sr| c02_oracle(&mut sim, &sr, case, summary, &desc, None)).unwrap_or(false);
                k += 1;
            }
        }

        // the shared deterministic scenario in which the rebroadcast section pays out of the treasury
        // (multiplier >= 2 without the cap, the cap with an adjusted factor >= 2, NFT groups in both,
        // an NFT payload collected as dust): supply oracle and C13 oracle on every block
        "atr-payout-positive" => {
            sim = Sim::new(3, 8, 4, PAYOUT_ISS, 1_000_000).await;
            let mut br = Branches::default();
            for k in 0..PAYOUT_BLOCKS {
                let ts = sim.tip().timestamp + 2 * HEARTBEAT + 1000;
                let txs = payout_scenario_txs(&sim, k, ts);
                let with_gt = !sim.tip().has_golden_ticket || txs.is_empty();
                let gt = if with_gt {
                    let parent = sim.tip().clone();
                    Some(gt_tx_for(&sim.node, &parent, sim.keys[PAYOUT_MINER].0, 400 + k as u64).await)
                } else {
                    None
                };
                let (co, sr, rep, mult) = atr_checked_step(&mut sim, ts, gt, &txs).await;
                let alive = c02_oracle(&mut sim, &sr, case, summary, &desc, None);
                if co != CreateOutcome::Ok || sr.add != Some(AddClass::OnChain) {
                    summary.oracle_failure(case, &format!("honest block {} of the scenario was not accepted: create {:?}, add {:?} (payout multiplier {})", k + 2, co, sr.add, mult), &desc);
                    break;
                }
                if let Some(rep) = rep {
                    br.note(sim.tip(), &rep, mult);
                    for f in &rep.failures {
                        summary.oracle_failure(case, f, &desc);
                    }
                }
                if !alive {
                    break;
                }
            }
            summary.count("atr_branch:uncapped_payout_positive", &br.uncapped_positive.min(9).to_string());
            summary.count("atr_branch:capped", &br.capped.min(9).to_string());
            summary.count("atr_branch:capped_factor_ge_2", &br.capped_factor2.min(9).to_string());
            summary.count("atr_branch:capped_nft", &br.capped_nft.min(9).to_string());
            summary.count("atr_branch:uncapped_nft_payout", &br.uncapped_nft.min(9).to_string());
            summary.count("atr_branch:nft_dust", &br.nft_dust.min(9).to_string());
            for m in br.missing() {
                summary.oracle_failure(case, &format!("coverage: the deterministic scenario atr-payout-positive no longer reaches the branch: {} ({:?})", m, br), &desc);
            }
        }
        // edits of the fee transaction of an otherwise honest block (Transaction::validate accepts every
        // Fee-typed transaction, Block::validate is the only barrier): duplicated, payee changed, amount + 1,
        // an extra output, all re-signed by the block's creator; and a fee transaction in a block without a
        // golden ticket. Each must be rejected; the honest block extends the chain afterwards.
        "fee-tx-tampered" => {
            sim = scripted_prefix_raw(3, 8, ISS, 2, 7, case, summary, &desc).await;
            if sim.dead {
                return (sim, desc);
            }
            let mut last_fee_tx: Option<Transaction> = None;
            let variants = ["duplicated", "payee-changed", "amount-plus-one", "extra-output", "stray-in-block-without-golden-ticket", "amount-minus-one", "moved-to-front"];
            let mut vi = 0;
            let mut round = 0;
            while vi < variants.len() && round < 24 {
                round += 1;
                let ts = sim.tip().timestamp + 2 * HEARTBEAT + 1000;
                let mut sp: Vec<_> = sim.spendable().into_iter().filter(|s| s.public_key == sim.keys[0].0 && s.slip_type == SlipType::Normal).collect();
                sp.sort_by_key(|s| s.amount);
                let mut txs = vec![];
                if let Some(s) = sp.last() {
                    if s.amount > 200_000 {
                        txs.push(make_tx(&[s.clone()], &[(sim.keys[0].0, s.amount - 50_000)], &sim.keys[0].1, ts));
                    }
                }
                let with_gt = !sim.tip().has_golden_ticket || txs.is_empty();
                let gt = if with_gt {
                    let parent = sim.tip().clone();
                    Some(gt_tx_for(&sim.node, &parent, sim.keys[1].0, 700 + round as u64).await)
                } else {
                    None
                };
                let created = match create_block(&sim.node, sim.tip().hash, ts, &txs, gt.clone()).await {
                    Ok(Ok(b)) => b,
                    other => {
                        summary.oracle_failure(case, &format!("Block::create failed on valid input: {:?}", other.map(|r| r.map(|b| b.id))), &desc);
                        break;
                    }
                };
                let fee_pos = created.transactions.iter().position(|t| t.transaction_type == TransactionType::Fee);
                let v = variants[vi];
                let mut e = created.clone();
                let mut applied = false;
                match (v, fee_pos, &last_fee_tx) {
                    ("stray-in-block-without-golden-ticket", None, Some(old)) => {
                        let mut t = old.clone();
                        t.timestamp = ts;
                        t.sign(&sim.keys[0].1);
                        e.transactions.push(t);
                        applied = true;
                    }
                    ("stray-in-block-without-golden-ticket", _, _) => {}
                    (_, Some(p), _) => {
                        let paid: u64 = e.transactions[p].to.iter().map(|s| s.amount).sum();
                        if paid > 1 {
                            match v {
                                "duplicated" => {
                                    let t = e.transactions[p].clone();
                                    e.transactions.push(t);
                                }
                                "payee-changed" => {
                                    let k = e.transactions[p].to.iter().position(|s| s.amount > 0).unwrap();
                                    e.transactions[p].to[k].public_key = sim.keys[3].0;
                                    e.transactions[p].sign(&sim.keys[0].1);
                                }
                                "amount-plus-one" => {
                                    let k = e.transactions[p].to.iter().position(|s| s.amount > 0).unwrap();
                                    e.transactions[p].to[k].amount += 1;
                                    e.transactions[p].sign(&sim.keys[0].1);
                                }
                                "amount-minus-one" => {
                                    let k = e.transactions[p].to.iter().position(|s| s.amount > 0).unwrap();
                                    e.transactions[p].to[k].amount -= 1;
                                    e.transactions[p].sign(&sim.keys[0].1);
                                }
                                "extra-output" => {
                                    e.transactions[p].add_to_slip(slip_out(sim.keys[3].0, 1_000_000, SlipType::Normal));
                                    e.transactions[p].sign(&sim.keys[0].1);
                                }
                                _ => {
                                    // the fee transaction carried first instead of last: the same content elsewhere is fine
                                    // for the hash comparison only if nothing else changes; the ordinal changes, so the
                                    // outputs sit at other utxo keys than the expected ones
                                    let t = e.transactions.remove(p);
                                    e.transactions.insert(0, t);
                                }
                            }
                            applied = true;
                        }
                    }
                    _ => {}
                }
                if applied {
                    reseal(&mut e, &sim.keys[0].1);
                    let sr = sim.step(ts, gt.clone(), &txs, CreateOutcome::Ok, Some(created.clone()), Some(e)).await;
                    if v == "moved-to-front" {
                        // position is not part of the property: whatever the verdict, the supply must hold
                        summary.count("scripted", &format!("{}:{}:{:?}", name, v, sr.add.clone().map(|c| c.code())));
                        if !c02_oracle(&mut sim, &sr, case, summary, &desc, None) {
                            break;
                        }
                        vi += 1;
                        if sr.add == Some(AddClass::OnChain) {
                            continue;
                        }
                    } else {
                        must_reject(&sr, &format!("a block whose fee transaction is edited ({})", v), case, summary, &desc);
                        if !c02_oracle(&mut sim, &sr, case, summary, &desc, None) || sr.add == Some(AddClass::OnChain) {
                            break;
                        }
                        summary.count("scripted", &format!("{}:{}", name, v));
                        vi += 1;
                    }
                }
                if let Some(p) = fee_pos {
                    if created.transactions[p].to.iter().any(|s| s.amount > 0) {
                        last_fee_tx = Some(created.transactions[p].clone());
                    }
                }
                let sr2 = sim.step(ts, gt, &txs, CreateOutcome::NotCalled, None, Some(created)).await;
                if !c02_oracle(&mut sim, &sr2, case, summary, &desc, None) || sr2.add != Some(AddClass::OnChain) {
                    summary.oracle_failure(case, &format!("the honest block is not accepted after the edited one was refused: {:?}", sr2.add), &desc);
                    break;
                }
            }
            if vi < variants.len() {
                summary.oracle_failure(case, &format!("coverage: scenario fee-tx-tampered applied only {} of {} edits", vi, variants.len()), &desc);
            }
        }
        // transactions that would create value, one per block, each in an otherwise honest block built by the
        // real producer: outputs exceed the input by 1; outputs [2^64-6, a+6] (the u64 sum wraps to a);
        // an SPV-typed transaction with a valued output; an Issuance transaction after block 1.
        // Each block must be rejected; an honest block extends the chain in between.
        "minting-transactions" => {
            sim = scripted_prefix_raw(3, 8, ISS, 2, 7, case, summary, &desc).await;
            if sim.dead {
                return (sim, desc);
            }
            for (vi, v) in ["overspend", "overspend-wrap", "spv-mint", "issuance-later", "issuance-later-with-golden-ticket", "golden-ticket-with-value-outputs", "golden-ticket-overspend"].iter().enumerate() {
                let ts = sim.tip().timestamp + 2 * HEARTBEAT + 1000;
                let s = match sim.spendable().into_iter().filter(|s| s.public_key == sim.keys[1].0).max_by_key(|s| s.amount) {
                    Some(s) => s,
                    None => {
                        summary.oracle_failure(case, "coverage: scenario minting-transactions ran out of inputs for key 2", &desc);
                        break;
                    }
                };
                let tx = match *v {
                    "overspend" => raw_tx(TransactionType::Normal, vec![s.clone()], vec![slip_out(s.public_key, s.amount + 1, SlipType::Normal)], &sim.keys[1].1, ts),
                    "overspend-wrap" => raw_tx(
                        TransactionType::Normal,
                        vec![s.clone()],
                        vec![slip_out(s.public_key, u64::MAX - 5, SlipType::Normal), slip_out(s.public_key, s.amount + 6, SlipType::Normal)],
                        &sim.keys[1].1,
                        ts,
                    ),
                    "spv-mint" => raw_tx(TransactionType::SPV, vec![], vec![slip_out(sim.keys[3].0, 1_000_000, SlipType::Normal)], &sim.keys[3].1, ts),
                    _ => raw_tx(TransactionType::Issuance, vec![], vec![slip_out(sim.keys[3].0, 1_000_000, SlipType::Normal)], &sim.keys[0].1, ts),
                };
                let ticket_variant = v.starts_with("golden-ticket");
                let want_ticket = ticket_variant || *v == "issuance-later-with-golden-ticket" || !sim.tip().has_golden_ticket;
                let mut gt = if want_ticket {
                    let parent = sim.tip().clone();
                    Some(gt_tx_for(&sim.node, &parent, sim.keys[1].0, 800 + vi as u64).await)
                } else {
                    None
                };
                let mut pooled = vec![tx];
                if ticket_variant {
                    // the miner attaches value outputs to his own golden-ticket transaction (signed by him):
                    // 5_000_000 from nothing, or an own input of a with outputs a + 5_000_000
                    let mut g = gt.take().unwrap();
                    if *v == "golden-ticket-overspend" {
                        let own = sim.spendable().into_iter().filter(|s| s.public_key == sim.keys[0].0).min_by_key(|s| s.amount);
                        if let Some(mut own) = own {
                            own.generate_utxoset_key();
                            g.add_to_slip(slip_out(sim.keys[0].0, own.amount, SlipType::Normal));
                            g.add_from_slip(own);
                        }
                    }
                    g.add_to_slip(slip_out(sim.keys[0].0, 5_000_000, SlipType::Normal));
                    g.sign(&sim.node.sk);
                    g.generate(&sim.node.pk, 0, 0);
                    gt = Some(g);
                    pooled = vec![];
                }
                let (co, sr) = sim.honest_step(ts, gt, &pooled).await;
                summary.count("scripted", &format!("{}:{}:create-{}:{:?}", name, v, match co { CreateOutcome::Ok => "ok", CreateOutcome::Err(_) => "err", CreateOutcome::Panic(_) => "panic", _ => "-" }, sr.add.clone().map(|c| c.code())));
                if let CreateOutcome::Panic(p) = &co {
                    summary.oracle_failure(case, &format!("Block::create panicked on a pooled transaction ({}): {}", v, p), &desc);
                    break;
                }
                if co == CreateOutcome::Ok {
                    must_reject(&sr, &format!("a block carrying a transaction that creates value ({})", v), case, summary, &desc);
                }
                if !c02_oracle(&mut sim, &sr, case, summary, &desc, None) || sr.add == Some(AddClass::OnChain) {
                    break;
                }
                match scripted_more(&mut sim, 20 + vi as u64).await {
                    Some(sr) => {
                        if !c02_oracle(&mut sim, &sr, case, summary, &desc, None) || sr.add != Some(AddClass::OnChain) {
                            summary.oracle_failure(case, &format!("the honest block after the refused one is not accepted: {:?}", sr.add), &desc);
                            break;
                        }
                    }
                    None => break,
                }
            }
        }
        // the 700 of key 2 (block 1) is too small to be rebroadcast: block 5 collects it as fees. A transaction
        // spending it IN block 5 (the first height at which the age rule forbids it) would have it spent and
        // collected at once: the block must be rejected.
        "spend-dust-in-collecting-block" => {
            sim = scripted_prefix_raw(3, 8, ISS, 3, 7, case, summary, &desc).await;
            if sim.dead {
                return (sim, desc);
            }
            let ts = sim.tip().timestamp + 2 * HEARTBEAT + 1000;
            let g = sim.chain[0].clone();
            let s = g.transactions.iter().flat_map(|t| t.to.iter()).find(|s| s.amount == 700).unwrap().clone();
            let owner = sim.key_index(&s.public_key).unwrap();
            let tx = make_tx(&[s.clone()], &[(s.public_key, s.amount)], &sim.keys[owner].1, ts);
            let parent = sim.tip().clone();
            let gt = if parent.has_golden_ticket { None } else { Some(gt_tx_for(&sim.node, &parent, sim.keys[1].0, 31).await) };
            let (co, sr) = sim.honest_step(ts, gt, &[tx]).await;
            summary.count("scripted", &format!("{}:block-{}:create-{}:{:?}", name, parent.id + 1, if co == CreateOutcome::Ok { "ok" } else { "failed" }, sr.add.clone().map(|c| c.code())));
            if co == CreateOutcome::Ok {
                must_reject(&sr, "a block spending the 700 output of block 1 in the block that collects it as fees (block 5)", case, summary, &desc);
            }
            let mut alive = c02_oracle(&mut sim, &sr, case, summary, &desc, None);
            // the honest chain goes on and collects it
            let mut k = 0;
            while alive && k < 2 {
                alive = scripted_more(&mut sim, 40 + k).await.map(|sr| c02_oracle(&mut sim, &sr, case, summary, &desc, None)).unwrap_or(false);
                k += 1;
            }
        }

        // an NFT group is created in block 3 and sent on in block 4 (inputs [Bound, Normal, Bound]: the Bound
        // amounts count as 0 on the input side as well), paying a fee out of the payload; the moved group then
        // leaves the window twice
        "nft-send" => {
            sim = scripted_prefix_raw(3, 8, ISS, 1, 7, case, summary, &desc).await;
            if sim.dead {
                return (sim, desc);
            }
            let ts = sim.tip().timestamp + 2 * HEARTBEAT + 1000;
            let s = sim.spendable().into_iter().find(|s| s.public_key == sim.keys[1].0 && s.amount == 333_000).unwrap();
            let tx = nft_create(&sim, &s, 300_000, 33_000, ts);
            let parent = sim.tip().clone();
            let gt = gt_tx_for(&sim.node, &parent, sim.keys[1].0, 13).await;
            let (_co, sr) = sim.honest_step(ts, Some(gt), &[tx]).await;
            must_accept(&sr, "a block with an NFT-creating transaction", case, summary, &desc);
            let mut alive = c02_oracle(&mut sim, &sr, case, summary, &desc, None) && sr.add == Some(AddClass::OnChain);
            if alive {
                let nft_block = sim.tip().clone();
                let t = nft_block.transactions.iter().find(|t| t.transaction_type == TransactionType::Bound).unwrap().clone();
                let (b1, pl, b2) = (t.to[0].clone(), t.to[1].clone(), t.to[2].clone());
                let ts2 = sim.tip().timestamp + 2 * HEARTBEAT + 1000;
                let send = raw_tx(
                    TransactionType::Bound,
                    vec![b1.clone(), pl.clone(), b2.clone()],
                    vec![slip_out(b1.public_key, b1.amount, SlipType::Bound), slip_out(sim.keys[3].0, pl.amount - 2_000, SlipType::Normal), slip_out(b2.public_key, b2.amount, SlipType::Bound)],
                    &sim.keys[1].1,
                    ts2,
                );
                let mut sp: Vec<_> = sim.spendable().into_iter().filter(|s| s.public_key == sim.keys[0].0).collect();
                sp.sort_by_key(|s| s.amount);
                let big = sp.last().unwrap().clone();
                let pay = make_tx(&[big.clone()], &[(sim.keys[0].0, big.amount - 50_000)], &sim.keys[0].1, ts2);
                let (_co, sr2) = sim.honest_step(ts2, None, &[pay, send]).await;
                let carried = sim.tip().transactions.iter().any(|t| t.transaction_type == TransactionType::Bound && t.from.len() == 3);
                summary.count("scripted", &format!("{}:send-block-{:?}:carried-{}", name, sr2.add.clone().map(|c| c.code()), carried));
                must_accept(&sr2, "a block with an NFT-sending transaction that pays a fee of 2_000", case, summary, &desc);
                if !carried {
                    summary.oracle_failure(case, "coverage: the NFT-sending transaction is not in the accepted block", &desc);
                }
                alive = c02_oracle(&mut sim, &sr2, case, summary, &desc, None) && sr2.add == Some(AddClass::OnChain);
            }
            let mut k = 0;
            while alive && k < 9 {
                alive = scripted_more(&mut sim, k).await.map(|sr| c02_oracle(&mut sim, &sr, case, summary, &desc, None)).unwrap_or(false);
                k += 1;
            }
        }

        // an NFT whose Normal slip carries no deposit (amount 0): its only slip with an amount is the Bound
        // marker (1). A block carrying two transfers of that NFT to two different holders names the marker
        // twice: must be rejected (2a74b4d: Bound slips take part in the duplicate-input sweep)
        "nft-double-transfer" => {
            sim = scripted_prefix_raw(3, 8, ISS, 1, 7, case, summary, &desc).await;
            if sim.dead {
                return (sim, desc);
            }
            let ts = sim.tip().timestamp + 2 * HEARTBEAT + 1000;
            let s = sim.spendable().into_iter().find(|s| s.public_key == sim.keys[1].0 && s.amount == 333_000).unwrap();
            let tx = nft_create(&sim, &s, 0, 333_000 - 10, ts);
            let parent = sim.tip().clone();
            let gt = gt_tx_for(&sim.node, &parent, sim.keys[1].0, 13).await;
            let (_co, sr) = sim.honest_step(ts, Some(gt), &[tx]).await;
            must_accept(&sr, "a block with an NFT-creating transaction without deposit", case, summary, &desc);
            let mut alive = c02_oracle(&mut sim, &sr, case, summary, &desc, None) && sr.add == Some(AddClass::OnChain);
            if alive {
                let nft_block = sim.tip().clone();
                let t = nft_block.transactions.iter().find(|t| t.transaction_type == TransactionType::Bound).unwrap().clone();
                let (b1, pl, b2) = (t.to[0].clone(), t.to[1].clone(), t.to[2].clone());
                let ts2 = sim.tip().timestamp + 2 * HEARTBEAT + 1000;
                let send_to = |holder: usize, ts: u64| {
                    raw_tx(
                        TransactionType::Bound,
                        vec![b1.clone(), pl.clone(), b2.clone()],
                        vec![slip_out(b1.public_key, b1.amount, SlipType::Bound), slip_out(sim.keys[holder].0, 0, SlipType::Normal), slip_out(b2.public_key, b2.amount, SlipType::Bound)],
                        &sim.keys[1].1,
                        ts,
                    )
                };
                let (s1, s2) = (send_to(2, ts2), send_to(3, ts2 + 1));
                let mut sp: Vec<_> = sim.spendable().into_iter().filter(|s| s.public_key == sim.keys[0].0).collect();
                sp.sort_by_key(|s| s.amount);
                let big = sp.last().unwrap().clone();
                let pay = make_tx(&[big.clone()], &[(sim.keys[0].0, big.amount - 50_000)], &sim.keys[0].1, ts2);
                // the real producer refuses the conflicting pair; a peer assembles the block by hand: the honest
                // block with the first transfer, the second one inserted, header refilled by the real
                // generate_consensus_values, re-sealed
                let created = create_block(&sim.node, sim.tip().hash, ts2, &[pay.clone(), s1.clone()], None).await;
                let sr2 = match created {
                    Ok(Ok(created)) => {
                        let mut edited = created.clone();
                        let mut s2g = s2.clone();
                        s2g.generate(&sim.node.pk, 0, 0);
                        let at = edited.transactions.iter().position(|t| t.transaction_type == TransactionType::Bound).map(|p| p + 1).unwrap_or(1);
                        edited.transactions.insert(at, s2g);
                        refill_header(&sim.node, &mut edited).await;
                        reseal(&mut edited, &sim.keys[0].1);
                        let carried = edited.transactions.iter().filter(|t| t.transaction_type == TransactionType::Bound && t.from.len() == 3).count();
                        let sr2 = sim.step(ts2, None, &[pay, s1], CreateOutcome::Ok, Some(created), Some(edited)).await;
                        summary.count("scripted", &format!("{}:{:?}:transfers-carried-{}", name, sr2.add.clone().map(|c| c.code()), carried));
                        if carried != 2 {
                            summary.oracle_failure(case, "coverage: the hand-assembled block does not carry both transfers", &desc);
                        }
                        must_reject(&sr2, "a block carrying two transfers of the same NFT (Bound marker 1, no deposit) to two holders", case, summary, &desc);
                        sr2
                    }
                    other => {
                        summary.oracle_failure(case, &format!("Block::create failed on valid input: {:?}", other.map(|r| r.map(|b| b.id))), &desc);
                        StepResult { add: None, panic_msg: None }
                    }
                };
                alive = c02_oracle(&mut sim, &sr2, case, summary, &desc, None);
            }
            let mut k = 0;
            while alive && k < 2 {
                alive = scripted_more(&mut sim, k).await.map(|sr| c02_oracle(&mut sim, &sr, case, summary, &desc, None)).unwrap_or(false);
                k += 1;
            }
        }
        _ => unreachable!(),
    }
    summary.count("scripted", name);
    (sim, desc)
}

/// one more block of the deterministic kind
async fn scripted_more(sim: &mut Sim, k: u64) -> Option<StepResult> {
    let ts = sim.tip().timestamp + 2 * HEARTBEAT + 1000;
    let mut sp: Vec<_> = sim.spendable().into_iter().filter(|s| s.public_key == sim.keys[0].0).collect();
    sp.sort_by_key(|s| s.amount);
    let mut txs = vec![];
    if let Some(s) = sp.last() {
        if s.amount > 100_000 {
            txs.push(make_tx(&[s.clone()], &[(sim.keys[0].0, s.amount - 50_000)], &sim.keys[0].1, ts));
        }
    }
    let with_gt = !sim.tip().has_golden_ticket || txs.is_empty();
    let gt = if with_gt {
        let parent = sim.tip().clone();
        Some(gt_tx_for(&sim.node, &parent, sim.keys[1].0, 100 + k).await)
    } else {
        None
    };
    let (co, sr) = sim.honest_step(ts, gt, &txs).await;
    if co != CreateOutcome::Ok {
        return None;
    }
    Some(sr)
}

#[allow(unused)]
fn block_types(b: &Block) -> Vec<u8> {
    b.transactions.iter().map(|t| t.transaction_type as u8).collect()
}

#[tokio::main(flavor = "current_thread")]
async fn main() {
    verif_harness::common::init_log();
    let args = Args::parse();
    if std::env::var("VERIF_PANICS").is_err() {
        std::panic::set_hook(Box::new(|_| {}));
    }
    let thorough = args.tier == "thorough";
    let mut rng = Rng::new(args.seed);
    let mut summary = Summary::new("C02");
    let mut coq_cases: Vec<String> = vec![];
    let mut cases: Vec<Case> = vec![];

    // scripted adversarial cases first (fixed case numbers)
    for name in [
        "fee-tx-omitted",
        "bound-tx-fee",
        "blockstake-mint",
        "blockstake-mint-2-64",
        "blockstake-tx-fee",
        "zero-key-golden-ticket",
        "nft-rebroadcast",
        "collected-output-spent",
        "header-tampered",
        "spend-and-rebroadcast",
        "stray-bound-output",
        "spv-spends-bound-slip",
        "atr-payout-positive",
        "fee-tx-tampered",
        "minting-transactions",
        "spend-dust-in-collecting-block",
        "nft-send",
        "nft-double-transfer",
    ] {
        let case = cases.len();
        let r = verif_harness::chainsim::futures_catch(std::panic::AssertUnwindSafe(scripted(name, case, &mut summary))).await;
        let (sim, desc) = match r {
            Ok(x) => x,
            Err(msg) => {
                let desc = format!("{{\"case\":{},\"kind\":\"scripted\",\"scenario\":\"{}\"}}", case, name);
                summary.oracle_failure(case, &format!("scenario {} could not be carried out on this tree: {}", name, msg), &desc);
                (Sim::new(3, 8, 2, &[(0, 1000)], 1).await, desc)
            }
        };
        coq_cases.push(sim.history_literal());
        cases.push(Case { desc, nontrivial_key: format!("scripted:{}", name) });
    }

    let n_hist = if thorough { 300 } else { 40 };
    for h in 0..n_hist {
        let case = cases.len();
        let mut hrng = rng.fork();
        let gp = *hrng.pick(&[3u64, 4, 5, 8]);
        let gpar = GenParams {
            gp,
            pab: *hrng.pick(&[8u64, 8, 6, 20]),
            nkeys: hrng.range(3, 6) as u8,
            blocks: if thorough { hrng.range(30, 90) as usize } else { hrng.range(16, 40) as usize },
            fee_mode: h as u64 % 3,
            hops: hrng.chance(1, 2),
        };
        let big = h % 11 == 10;
        let (sim, desc) = random_history(&mut hrng, &gpar, big, case, &mut summary).await;
        let wraps = (sim.chain.len() as u64 - 1) / (gp + 1);
        coq_cases.push(sim.history_literal());
        cases.push(Case { desc, nontrivial_key: format!("random:gp{}:fee{}:wraps{}:big{}", gp, gpar.fee_mode, wraps.min(3), big) });
    }

    let n_fork = if thorough { 24 } else { 4 };
    for h in 0..n_fork {
        let case = cases.len();
        let mut hrng = rng.fork();
        let gp = [3u64, 4, 5, 8][h % 4];
        let (sim, desc) = fork_history(&mut hrng, gp, case, &mut summary).await;
        coq_cases.push(sim.history_literal());
        cases.push(Case { desc, nontrivial_key: format!("fork:gp{}", gp) });
    }

    let n_failed = if thorough { 12 } else { 2 };
    for h in 0..n_failed {
        let case = cases.len();
        let mut hrng = rng.fork();
        let gp = [3u64, 5, 4, 8][h % 4];
        let (sim, desc) = failed_reorg_history(&mut hrng, gp, case, &mut summary).await;
        coq_cases.push(sim.history_literal());
        cases.push(Case { desc, nontrivial_key: format!("fork:failed:gp{}", gp) });
    }

    // forks across the window edge continued until the fork height has left the window (shared with C13):
    // the node that saw the losing block first must rebroadcast the outputs of the WINNING block, supply checked
    let n_fork_atr = if thorough { 12 } else { 4 };
    for h in 0..n_fork_atr {
        let case = cases.len();
        let mut hrng = rng.fork();
        let gp = [3u64, 4, 5, 8][h % 4];
        let r = verif_harness::chainsim::futures_catch(std::panic::AssertUnwindSafe(fork_history_atr(&mut hrng, gp, case))).await;
        let (lit, desc) = match r {
            Ok((sim, desc, fails, delivery)) => {
                for f in &fails {
                    summary.oracle_failure(case, f, &desc);
                }
                summary.count("fork_past_window_delivery", &delivery);
                (sim.history_literal(), desc)
            }
            Err(msg) => {
                let desc = format!("{{\"case\":{},\"kind\":\"fork\",\"genesis_period\":{}}}", case, gp);
                summary.oracle_failure(case, &format!("fork history panicked: {}", msg), &desc);
                (Sim::new(3, 8, 2, &[(0, 1000)], 1).await.history_literal(), desc)
            }
        };
        coq_cases.push(lit);
        cases.push(Case { desc, nontrivial_key: format!("fork:past-window:gp{}", gp) });
    }

    // refused reorganisation at the block in slot 0 of the block ring (first block of the new branch mints)
    let n_slot0 = if thorough { 9 } else { 3 };
    for h in 0..n_slot0 {
        let case = cases.len();
        let mut hrng = rng.fork();
        let gp = [3u64, 5, 4][h % 3];
        let r = verif_harness::chainsim::futures_catch(std::panic::AssertUnwindSafe(slot0_reorg_history(&mut hrng, gp, case))).await;
        let (lit, desc) = match r {
            Ok((sim, desc, fails, outcome)) => {
                for f in &fails {
                    summary.oracle_failure(case, f, &desc);
                }
                summary.count("slot0_reorg_delivery", &outcome);
                (sim.history_literal(), desc)
            }
            Err(msg) => {
                let desc = format!("{{\"case\":{},\"kind\":\"reorg-at-ring-slot-0\",\"genesis_period\":{}}}", case, gp);
                summary.oracle_failure(case, &format!("history panicked: {}", msg), &desc);
                (Sim::new(3, 8, 2, &[(0, 1000)], 1).await.history_literal(), desc)
            }
        };
        coq_cases.push(lit);
        cases.push(Case { desc, nontrivial_key: format!("fork:slot0:gp{}", gp) });
    }

    // non-trivial: scripted adversarial cases and random histories whose window wrapped at least once
    let mut distinct = BTreeSet::new();
    for c in &cases {
        if c.nontrivial_key.starts_with("scripted") || c.nontrivial_key.starts_with("fork") || !c.nontrivial_key.contains("wraps0") {
            distinct.insert(c.nontrivial_key.clone());
        }
    }
    summary.nontrivial = distinct.len() as u64;
    summary.evaluations = cases.len() as u64;
    for c in &cases {
        summary.case_descs.push(c.desc.clone());
    }
    for c in cases.iter().take(3) {
        summary.samples.push(c.desc.clone());
    }
    let header = "From Saito Require Import Base CV CVFloat Supply CVRun.\nDefinition check (c : history) : bool := CVRun.check c.";
    let files = gal::write_shards(&format!("{}/cases", args.out), "C02", header, "history", &coq_cases, args.shards).unwrap();
    summary.case_files = files;
    summary.notes.push(format!(
        "{} histories replayed through CVRun.check (Block::create output, add_block verdict and in-window utxo set of every block); profile {}",
        coq_cases.len(),
        if dbg_profile() { "debug (overflow checks)" } else { "release (wrapping)" }
    ));
    summary.write(&args.out);
}
