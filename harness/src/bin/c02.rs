//! C02 — token supply is conserved.
//! Random histories (payments with fees 0/small/large, routing hops, golden tickets
//! present/absent, genesis periods 3/4/5/8 so that the window wraps several times, dust)
//! and scripted adversarial blocks are run on the real node.  Every step goes to the Coq
//! model (CVRun.check: Block::create output field by field, add_block verdict, in-window
//! utxo set); the direct oracle recomputes the supply in big integers from the node's own
//! state after every accepted block and checks that no accepted transaction pays out more
//! than it consumes.
use std::collections::BTreeSet;

use saito_core::core::consensus::block::Block;
use saito_core::core::consensus::slip::SlipType;
use saito_core::core::consensus::transaction::{Transaction, TransactionType};
use verif_harness::common::{Args, Summary};
use verif_harness::gal;
use verif_harness::rng::Rng;
use verif_harness::world::*;

#[path = "../cvsim.rs"]
mod cvsim;
use cvsim::*;

fn jpairs(v: &[(usize, u64)]) -> Vec<Vec<u64>> {
    v.iter().map(|(k, a)| vec![*k as u64, *a]).collect()
}

struct Case {
    desc: String,
    nontrivial_key: String,
}

/// oracles after a step; returns false when the history cannot go on
fn c02_oracle(sim: &mut Sim, sr: &StepResult, case: usize, summary: &mut Summary, desc: &str, expected_finding: Option<&str>) -> bool {
    let mut alarm = |summary: &mut Summary, what: String| match expected_finding {
        Some(id) => summary.known_hit(id, case, &what),
        None => summary.oracle_failure(case, &what, desc),
    };
    match &sr.add {
        Some(AddClass::Panicked) => {
            let tip = sim.node.blockchain.get_latest_block_id();
            let sup = std::panic::catch_unwind(std::panic::AssertUnwindSafe(|| big_supply(&sim.node))).ok().flatten();
            alarm(
                summary,
                format!(
                    "add_block panicked at tip {}: {} (supply in big integers now {:?}, issued {})",
                    tip,
                    sr.panic_msg.clone().unwrap_or_default(),
                    sup,
                    sim.issued
                ),
            );
            false
        }
        Some(AddClass::OnChain) => {
            let b = sim.tip().clone();
            let sup = big_supply(&sim.node).unwrap();
            if sup != sim.issued {
                alarm(summary, format!("after block {} the supply is {} but {} was issued (difference {})", b.id, sup, sim.issued, sup as i128 - sim.issued as i128));
            }
            for (k, t) in b.transactions.iter().enumerate() {
                if matches!(t.transaction_type, TransactionType::Fee | TransactionType::ATR | TransactionType::Issuance) {
                    continue;
                }
                let (i, o) = big_in_out(t);
                if o > i {
                    alarm(summary, format!("transaction {} (type {:?}) of accepted block {} pays out {} and consumes {}", k, t.transaction_type, b.id, o, i));
                }
            }
            true
        }
        _ => true,
    }
}

async fn random_history(hrng: &mut Rng, gpar: &GenParams, big: bool, case: usize, summary: &mut Summary) -> (Sim, String) {
    let issuance = gen_issuance(hrng, gpar.nkeys, big);
    let mut sim = Sim::new(gpar.gp, gpar.pab, gpar.nkeys, &issuance, 1_000_000).await;
    let desc = format!(
        "{{\"case\":{},\"kind\":\"random\",\"genesis_period\":{},\"prune_after_blocks\":{},\"blocks\":{},\"fee_mode\":{},\"hops\":{},\"big_amounts\":{},\"issuance\":{:?}}}",
        case, gpar.gp, gpar.pab, gpar.blocks, gpar.fee_mode, gpar.hops, big, jpairs(&issuance)
    );
    let mut gts = 0;
    let mut atr_blocks = 0;
    let mut dust_seen = 0;
    for i in 0..gpar.blocks {
        let ts = sim.tip().timestamp + 2 * HEARTBEAT + hrng.below(5000);
        let spendable = sim.spendable();
        let ntx = if spendable.is_empty() { 0 } else { hrng.below(4) as usize };
        let mut used = BTreeSet::new();
        let mut txs = vec![];
        for _ in 0..ntx {
            let k = hrng.below(spendable.len() as u64) as usize;
            if !used.insert(k) {
                continue;
            }
            txs.push(gen_payment(&sim, hrng, &spendable[k], gpar.fee_mode, gpar.hops, ts));
        }
        let with_gt = want_gt(&sim, hrng, txs.is_empty());
        let gt = if with_gt {
            gts += 1;
            let parent = sim.tip().clone();
            let miner = sim.keys[hrng.below(sim.keys.len() as u64) as usize].0;
            Some(gt_tx_for(&sim.node, &parent, miner, i as u64 * 31 + case as u64).await)
        } else {
            None
        };
        let (mult, _fpb) = sim.atr_params();
        let (co, sr) = sim.honest_step(ts, gt, &txs).await;
        match co {
            CreateOutcome::Ok => {}
            CreateOutcome::Err(e) => {
                summary.oracle_failure(case, &format!("Block::create failed on valid input: {}", e), &desc);
                break;
            }
            CreateOutcome::Panic(p) => {
                // with a payout multiplier > 1 the chain is dead anyway (C13 finding payout-multiplier-halts-chain);
                // amount * multiplier may then also overflow u64 in the producer (debug profile)
                summary.count("producer_panicked", &format!("multiplier{}1:{}", if mult > 1 { ">" } else { "=" }, p));
                if mult <= 1 {
                    summary.oracle_failure(case, &format!("Block::create panicked on valid input: {}", p), &desc);
                }
                break;
            }
            CreateOutcome::NotCalled => {}
        }
        if sr.add == Some(AddClass::Invalid) {
            // the producer's own block is refused: rebroadcast with a payout multiplier > 1 (property C13's finding)
            summary.count("honest_block_rejected", &format!("multiplier={}", mult));
            if mult <= 1 {
                summary.oracle_failure(case, &format!("block {} built by the real producer was rejected", sim.tip().id + 1), &desc);
            }
            break;
        }
        if !c02_oracle(&mut sim, &sr, case, summary, &desc, None) {
            break;
        }
        let b = sim.tip();
        if b.transactions.iter().any(|t| t.transaction_type == TransactionType::ATR) {
            atr_blocks += 1;
        }
        if b.total_fees_atr > 0 && b.total_fees_cumulative < b.total_fees_new + b.total_fees_atr {
            dust_seen += 1;
        }
    }
    summary.count("genesis_period", &gpar.gp.to_string());
    summary.count("fee_mode", &gpar.fee_mode.to_string());
    summary.count("blocks_accepted", &format!("{}", (sim.chain.len() - 1) / 10 * 10));
    summary.count("window_wraps", &format!("{}", (sim.chain.len() as u64 - 1) / (gpar.gp + 1)));
    summary.count("blocks_with_rebroadcasts", &format!("{}", atr_blocks.min(9)));
    summary.count("blocks_collecting_dust", &format!("{}", dust_seen.min(9)));
    summary.count("golden_tickets", &format!("{}", gts / 5 * 5));
    (sim, desc)
}


/// A fork across the window edge: two identical nodes share blocks 1..k-1; node 1 adds its own
/// block k, node 2 builds a competing block k and a block k+1 on it; both are then delivered to
/// node 1, which reorganises. Oracles on node 1: supply after the reorganisation, no panic,
/// same in-window utxo set as node 2 (whose linear history goes to the model).
async fn fork_history(hrng: &mut Rng, gp: u64, case: usize, summary: &mut Summary) -> (Sim, String) {
    let nkeys = 4u8;
    let issuance = gen_issuance(hrng, nkeys, false);
    let mut a = Sim::new(gp, 8, nkeys, &issuance, 1_000_000).await;
    let mut b = Sim::new(gp, 8, nkeys, &issuance, 1_000_000).await;
    let shared = (gp + 2 + hrng.below(gp + 3)) as usize;
    let desc = format!(
        "{{\"case\":{},\"kind\":\"fork\",\"genesis_period\":{},\"shared_blocks\":{},\"issuance\":{:?}}}",
        case, gp, shared, jpairs(&issuance)
    );
    let mut ok = true;
    for i in 0..shared {
        let ts = a.tip().timestamp + 2 * HEARTBEAT + hrng.below(5000);
        let spendable = a.spendable();
        let mut txs = vec![];
        if !spendable.is_empty() {
            let k = hrng.below(spendable.len() as u64) as usize;
            txs.push(gen_payment(&a, hrng, &spendable[k], 2, false, ts));
        }
        let with_gt = want_gt(&a, hrng, txs.is_empty());
        let gt = if with_gt {
            let parent = a.tip().clone();
            Some(gt_tx_for(&a.node, &parent, a.keys[1].0, i as u64 * 17 + case as u64).await)
        } else {
            None
        };
        let (co, sr) = a.honest_step(ts, gt.clone(), &txs).await;
        if co != CreateOutcome::Ok || sr.add != Some(AddClass::OnChain) {
            ok = false;
            break;
        }
        let blk = a.tip().clone();
        let sr2 = b.step(ts, gt, &txs, CreateOutcome::NotCalled, None, Some(blk)).await;
        if sr2.add != Some(AddClass::OnChain) {
            summary.oracle_failure(case, "the same block is accepted by one node and not by its twin", &desc);
            ok = false;
            break;
        }
        c02_oracle(&mut a, &sr, case, summary, &desc, None);
    }
    if ok {
        // node A: its own block k; node B: a competing block k and a block k+1
        let mut branch = |sim: &Sim, hrng: &mut Rng, pick_last: bool, ts: u64| -> Vec<Transaction> {
            // only outputs that exist at the fork point and will not be rebroadcast by the next two blocks
            let next = sim.tip().id + 1;
            let sp: Vec<_> = sim.spendable().into_iter().filter(|s| s.block_id + sim.gp + 1 > next + 1).collect();
            if sp.is_empty() {
                return vec![];
            }
            let k = if pick_last { sp.len() - 1 } else { 0 };
            vec![gen_payment(sim, hrng, &sp[k], 2, false, ts)]
        };
        let ts = a.tip().timestamp + 2 * HEARTBEAT + 700;
        let txa = branch(&a, hrng, false, ts);
        let parent = a.tip().clone();
        let gta = gt_tx_for(&a.node, &parent, a.keys[1].0, 901).await;
        let (_c, sra) = a.honest_step(ts, Some(gta), &txa).await;
        ok = c02_oracle(&mut a, &sra, case, summary, &desc, None) && sra.add == Some(AddClass::OnChain);
        let txb = branch(&b, hrng, true, ts + 11);
        let gtb = gt_tx_for(&b.node, &parent, b.keys[2].0, 902).await;
        let (_c, srb) = b.honest_step(ts + 11, Some(gtb), &txb).await;
        ok = ok && srb.add == Some(AddClass::OnChain);
        if ok {
            let ts2 = b.tip().timestamp + 2 * HEARTBEAT + 900;
            let txb2 = branch(&b, hrng, false, ts2);
            let gt2 = if want_gt(&b, hrng, txb2.is_empty()) { let p = b.tip().clone(); Some(gt_tx_for(&b.node, &p, b.keys[2].0, 903).await) } else { None };
            let (_c, srb2) = b.honest_step(ts2, gt2, &txb2).await;
            ok = srb2.add == Some(AddClass::OnChain);
        }
        if ok {
            let n = b.chain.len();
            let (bk, bk1) = (b.chain[n - 2].clone(), b.chain[n - 1].clone());
            let r1 = verif_harness::chainsim::futures_catch(std::panic::AssertUnwindSafe(a.node.add_block(bk))).await;
            let r2 = verif_harness::chainsim::futures_catch(std::panic::AssertUnwindSafe(a.node.add_block(bk1))).await;
            summary.count("fork_delivery", &format!("{:?}/{:?}", r1.clone().map(|c| c.code()), r2.clone().map(|c| c.code())));
            match (r1, r2) {
                (Ok(AddClass::OffChain), Ok(AddClass::OnChain)) => {
                    let sa = big_supply(&a.node).unwrap();
                    if sa != a.issued {
                        summary.oracle_failure(case, &format!("after the reorganisation the supply is {} but {} was issued", sa, a.issued), &desc);
                    }
                    let mut ia = Interner::default();
                    let mut ib = Interner::default();
                    if window_utxo(&a.node, &mut ia) != window_utxo(&b.node, &mut ib) {
                        summary.oracle_failure(case, "after the reorganisation the in-window utxo set differs from the one of a node that only saw the winning chain", &desc);
                    }
                }
                (r1, r2) => {
                    summary.oracle_failure(case, &format!("fork delivery: sibling {:?}, its child {:?} (expected off-chain, then on-chain)", r1, r2), &desc);
                }
            }
        }
    }
    summary.count("fork", &format!("gp{}", gp));
    (b, desc)
}


/// A reorganisation that fails: node A has block k; node B builds a valid competing block k and a
/// child k+1 that re-spends an output already spent on the shared chain (Block::create does not
/// validate). Delivered to A: the sibling goes off-chain, its child triggers the reorganisation,
/// fails to validate, and A must end up exactly where it was (supply, utxo set).
async fn failed_reorg_history(hrng: &mut Rng, gp: u64, case: usize, summary: &mut Summary) -> (Sim, String) {
    let nkeys = 4u8;
    let issuance = gen_issuance(hrng, nkeys, false);
    let mut a = Sim::new(gp, 8, nkeys, &issuance, 1_000_000).await;
    let mut b = Sim::new(gp, 8, nkeys, &issuance, 1_000_000).await;
    let shared = (gp + 2 + hrng.below(3)) as usize;
    let desc = format!(
        "{{\"case\":{},\"kind\":\"failed-reorg\",\"genesis_period\":{},\"shared_blocks\":{},\"issuance\":{:?}}}",
        case, gp, shared, jpairs(&issuance)
    );
    let mut respend: Option<(saito_core::core::consensus::slip::Slip, usize)> = None;
    let mut ok = true;
    for i in 0..shared {
        let ts = a.tip().timestamp + 2 * HEARTBEAT + hrng.below(5000);
        let mut spendable = a.spendable();
        spendable.sort_by_key(|s| s.block_id);
        let mut txs = vec![];
        if let Some(s) = spendable.last() {
            txs.push(gen_payment(&a, hrng, s, 1, false, ts));
            if i + 1 == shared {
                respend = Some((s.clone(), a.key_index(&s.public_key).unwrap()));
            }
        }
        let with_gt = want_gt(&a, hrng, txs.is_empty());
        let gt = if with_gt {
            let parent = a.tip().clone();
            Some(gt_tx_for(&a.node, &parent, a.keys[1].0, i as u64 * 19 + case as u64).await)
        } else {
            None
        };
        let (co, sr) = a.honest_step(ts, gt.clone(), &txs).await;
        if co != CreateOutcome::Ok || sr.add != Some(AddClass::OnChain) {
            ok = false;
            break;
        }
        let blk = a.tip().clone();
        let sr2 = b.step(ts, gt, &txs, CreateOutcome::NotCalled, None, Some(blk)).await;
        if sr2.add != Some(AddClass::OnChain) {
            ok = false;
            break;
        }
    }
    if let (true, Some((x, owner))) = (ok, respend) {
        let ts = a.tip().timestamp + 2 * HEARTBEAT + 700;
        let parent = a.tip().clone();
        let gta = gt_tx_for(&a.node, &parent, a.keys[1].0, 911).await;
        let (_c, sra) = a.honest_step(ts, Some(gta), &[]).await;
        ok = sra.add == Some(AddClass::OnChain);
        let gtb = gt_tx_for(&b.node, &parent, b.keys[2].0, 912).await;
        let (_c, srb) = b.honest_step(ts + 13, Some(gtb), &[]).await;
        ok = ok && srb.add == Some(AddClass::OnChain);
        if ok {
            let before_supply = big_supply(&a.node).unwrap();
            let mut ia = Interner::default();
            let before_utxo = window_utxo(&a.node, &mut ia);
            // the child re-spends x (spent in the last shared block)
            let ts2 = b.tip().timestamp + 2 * HEARTBEAT + 900;
            let bad = make_tx(&[x.clone()], &[(x.public_key, x.amount)], &b.keys[owner].1, ts2);
            let p = b.tip().clone();
            let gt2 = gt_tx_for(&b.node, &p, b.keys[2].0, 913).await;
            let bk = b.tip().clone();
            let created = create_block(&b.node, p.hash, ts2, &[bad.clone()], Some(gt2.clone())).await;
            if let Ok(Ok(bk1)) = created {
                let srb2 = b.step(ts2, Some(gt2), &[bad], CreateOutcome::Ok, Some(bk1.clone()), Some(bk1.clone())).await;
                if srb2.add != Some(AddClass::Invalid) {
                    summary.oracle_failure(case, &format!("a block re-spending the spent output {}:{}:{} is not rejected: {:?}", x.block_id, x.tx_ordinal, x.slip_index, srb2.add), &desc);
                }
                let r1 = verif_harness::chainsim::futures_catch(std::panic::AssertUnwindSafe(a.node.add_block(bk))).await;
                let r2 = verif_harness::chainsim::futures_catch(std::panic::AssertUnwindSafe(a.node.add_block(bk1))).await;
                summary.count("failed_reorg_delivery", &format!("{:?}/{:?}", r1.clone().map(|c| c.code()), r2.clone().map(|c| c.code())));
                match (r1, r2) {
                    (Ok(AddClass::OffChain), Ok(AddClass::Invalid)) => {
                        let sa = std::panic::catch_unwind(std::panic::AssertUnwindSafe(|| big_supply(&a.node))).ok().flatten();
                        if sa != Some(before_supply) {
                            summary.oracle_failure(case, &format!("after the failed reorganisation the supply is {:?}, before it was {} (issued {})", sa, before_supply, a.issued), &desc);
                        }
                        let mut ia2 = Interner::default();
                        if window_utxo(&a.node, &mut ia2) != before_utxo {
                            summary.oracle_failure(case, "after the failed reorganisation the in-window utxo set differs from the one before it", &desc);
                        }
                    }
                    (r1, r2) => {
                        summary.oracle_failure(case, &format!("failed-reorg delivery: sibling {:?}, its invalid child {:?} (expected off-chain, then invalid)", r1, r2), &desc);
                    }
                }
            }
        }
    }
    summary.count("failed_reorg", &format!("gp{}", gp));
    (b, desc)
}

/// deterministic chain with large fees (fee per byte > 0) used as prefix of the scripted cases
async fn scripted_prefix_raw(gp: u64, pab: u64, issuance: &[(usize, u64)], blocks: usize, seed: u64, case: usize, summary: &mut Summary, desc: &str) -> Sim {
    let mut rng = Rng::new(seed);
    let mut sim = Sim::new(gp, pab, 4, issuance, 1_000_000).await;
    for i in 0..blocks {
        let ts = sim.tip().timestamp + 2 * HEARTBEAT + 1000;
        // the producer moves its own largest output, paying a large fee
        let mut sp: Vec<_> = sim.spendable().into_iter().filter(|s| s.public_key == sim.keys[0].0).collect();
        sp.sort_by_key(|s| s.amount);
        let mut txs = vec![];
        if let Some(s) = sp.last() {
            if s.amount > 100_000 {
                txs.push(make_tx(&[s.clone()], &[(sim.keys[0].0, s.amount - 50_000)], &sim.keys[0].1, ts));
            }
        }
        let with_gt = i % 2 == 0 || txs.is_empty();
        let gt = if with_gt {
            let parent = sim.tip().clone();
            Some(gt_tx_for(&sim.node, &parent, sim.keys[1].0, rng.next() % 1000).await)
        } else {
            None
        };
        let (co, sr) = sim.honest_step(ts, gt, &txs).await;
        let alive = c02_oracle(&mut sim, &sr, case, summary, desc, None);
        if co != CreateOutcome::Ok || sr.add != Some(AddClass::OnChain) || !alive {
            if sr.add != Some(AddClass::Panicked) {
                summary.oracle_failure(case, &format!("honest block {} of the scripted prefix was not accepted: create {:?}, add {:?}", i + 2, co, sr.add), desc);
            }
            sim.dead = true;
            break;
        }
    }
    sim
}

const ISS: &[(usize, u64)] = &[(0, 3_000_000), (0, 500_000), (1, 700), (1, 90_000), (2, 5), (1, 333_000), (3, 44_000)];

async fn scripted(name: &str, case: usize, summary: &mut Summary) -> (Sim, String) {
    let desc = format!("{{\"case\":{},\"kind\":\"scripted\",\"scenario\":\"{}\",\"genesis_period\":3,\"issuance\":{:?}}}", case, name, jpairs(ISS));
    let mut sim;
    match name {
        // a block with a golden ticket whose fee transaction is left out
        "fee-tx-omitted" => {
            sim = scripted_prefix_raw(3, 8, ISS, 4, 7, case, summary, &desc).await;
            if sim.dead {
                return (sim, desc);
            }
            let ts = sim.tip().timestamp + 2 * HEARTBEAT + 1000;
            let parent = sim.tip().clone();
            let gt = gt_tx_for(&sim.node, &parent, sim.keys[1].0, 5).await;
            let created = create_block(&sim.node, parent.hash, ts, &[], Some(gt.clone())).await.unwrap().unwrap();
            let mut edited = created.clone();
            let idx = edited.transactions.iter().position(|t| t.transaction_type == TransactionType::Fee).unwrap();
            let paid: u64 = edited.transactions[idx].to.iter().map(|s| s.amount).sum();
            edited.transactions.remove(idx);
            reseal(&mut edited, &sim.keys[0].1);
            summary.count("scripted", &format!("{}:fee-tx-paid-{}", name, if paid > 0 { "positive" } else { "zero" }));
            let sr = sim.step(ts, Some(gt), &[], CreateOutcome::Ok, Some(created), Some(edited)).await;
            c02_oracle(&mut sim, &sr, case, summary, &desc, Some("fee-transaction-omitted"));
        }
        // an NFT (Bound) transaction that pays a fee
        "bound-tx-fee" => {
            sim = scripted_prefix_raw(3, 8, ISS, 2, 7, case, summary, &desc).await;
            if sim.dead {
                return (sim, desc);
            }
            let ts = sim.tip().timestamp + 2 * HEARTBEAT + 1000;
            let s = sim.spendable().into_iter().find(|s| s.public_key == sim.keys[1].0 && s.amount == 333_000).unwrap();
            let tx = nft_create(&sim, &s, 300_000, 30_000, ts); // fee 3000
            let (_co, sr) = sim.honest_step(ts, None, &[tx]).await;
            c02_oracle(&mut sim, &sr, case, summary, &desc, Some("bound-transaction-fee-uncounted"));
        }
        // a BlockStake-typed transaction without inputs creating outputs: must be rejected
        // (accepted before fix 4119a69; with 2 x 2^63 the release build minted 2^64 unnoticed)
        "blockstake-mint" | "blockstake-mint-2-64" => {
            sim = scripted_prefix_raw(3, 8, ISS, 2, 7, case, summary, &desc).await;
            if sim.dead {
                return (sim, desc);
            }
            let ts = sim.tip().timestamp + 2 * HEARTBEAT + 1000;
            let outs = if name == "blockstake-mint" {
                vec![slip_out(sim.keys[2].0, 1_000_000, SlipType::Normal)]
            } else {
                vec![slip_out(sim.keys[2].0, 1u64 << 63, SlipType::Normal), slip_out(sim.keys[2].0, 1u64 << 63, SlipType::Normal)]
            };
            let tx = raw_tx(TransactionType::BlockStake, vec![], outs, &sim.keys[2].1, ts);
            let parent = sim.tip().clone();
            let gt = gt_tx_for(&sim.node, &parent, sim.keys[1].0, 9).await;
            let (_co, sr) = sim.honest_step(ts, Some(gt), &[tx]).await;
            if sr.add != Some(AddClass::Invalid) {
                summary.oracle_failure(case, &format!("block with a BlockStake transaction creating coins from nothing was not rejected: {:?}", sr.add), &desc);
            }
            c02_oracle(&mut sim, &sr, case, summary, &desc, None);
        }
        // a properly signed BlockStake-typed transaction that pays a fee
        "blockstake-tx-fee" => {
            sim = scripted_prefix_raw(3, 8, ISS, 2, 7, case, summary, &desc).await;
            if sim.dead {
                return (sim, desc);
            }
            let ts = sim.tip().timestamp + 2 * HEARTBEAT + 1000;
            let s = sim.spendable().into_iter().find(|s| s.public_key == sim.keys[1].0 && s.amount == 333_000).unwrap();
            let tx = raw_tx(
                TransactionType::BlockStake,
                vec![s.clone()],
                vec![slip_out(s.public_key, 300_000, SlipType::BlockStake), slip_out(s.public_key, 31_000, SlipType::Normal)],
                &sim.keys[1].1,
                ts,
            ); // fee 2000
            let (_co, sr) = sim.honest_step(ts, None, &[tx]).await;
            c02_oracle(&mut sim, &sr, case, summary, &desc, Some("blockstake-transaction-fee-uncounted"));
        }
        // a golden ticket naming the all-zero key
        "zero-key-golden-ticket" => {
            sim = scripted_prefix_raw(3, 8, ISS, 3, 7, case, summary, &desc).await;
            if sim.dead {
                return (sim, desc);
            }
            let ts = sim.tip().timestamp + 2 * HEARTBEAT + 1000;
            let parent = sim.tip().clone();
            let gt = gt_tx_for(&sim.node, &parent, [0u8; 33], 11).await;
            let s = sim.spendable().into_iter().find(|s| s.public_key == sim.keys[0].0 && s.amount > 100_000).unwrap();
            let tx = make_tx(&[s.clone()], &[(sim.keys[0].0, s.amount - 50_000)], &sim.keys[0].1, ts);
            let (_co, sr) = sim.honest_step(ts, Some(gt), &[tx]).await;
            c02_oracle(&mut sim, &sr, case, summary, &desc, Some("zero-key-golden-ticket"));
        }
        // an NFT group leaving the window while the rebroadcast fee is positive
        "nft-rebroadcast" => {
            sim = scripted_prefix_raw(3, 8, ISS, 1, 7, case, summary, &desc).await;
            if sim.dead {
                return (sim, desc);
            }
            let ts = sim.tip().timestamp + 2 * HEARTBEAT + 1000;
            let s = sim.spendable().into_iter().find(|s| s.public_key == sim.keys[1].0 && s.amount == 333_000).unwrap();
            let tx = nft_create(&sim, &s, 300_000, 33_000, ts); // no fee
            let parent = sim.tip().clone();
            let gt = gt_tx_for(&sim.node, &parent, sim.keys[1].0, 13).await;
            let (_co, sr) = sim.honest_step(ts, Some(gt), &[tx]).await;
            let mut alive = c02_oracle(&mut sim, &sr, case, summary, &desc, None);
            let mut k = 0;
            while alive && k < 6 {
                alive = scripted_more(&mut sim, k).await.map(|sr| c02_oracle(&mut sim, &sr, case, summary, &desc, Some("nft-rebroadcast-fee-not-deducted"))).unwrap_or(false);
                k += 1;
            }
        }
        // an output whose value was collected as fees (too small to rebroadcast) is spent afterwards
        "collected-output-spent" => {
            sim = scripted_prefix_raw(3, 8, ISS, 5, 7, case, summary, &desc).await;
            if sim.dead {
                return (sim, desc);
            }
            // block 5 collected the 700 and the 5 of the genesis block; their entries are still there
            let ts = sim.tip().timestamp + 2 * HEARTBEAT + 1000;
            let stale: Vec<_> = stale_entries(&sim.node).into_iter().filter(|s| s.amount == 700).collect();
            summary.count("scripted", &format!("{}:stale-entries-{}", name, stale.len()));
            if let Some(s) = stale.first() {
                let owner = sim.key_index(&s.public_key).unwrap();
                let tx = make_tx(&[s.clone()], &[(s.public_key, s.amount)], &sim.keys[owner].1, ts);
                let (_co, sr) = sim.honest_step(ts, None, &[tx]).await;
                c02_oracle(&mut sim, &sr, case, summary, &desc, Some("collected-output-stays-spendable"));
            }
        }
        // every consensus field of the header, one at a time, off by one in an otherwise honest block:
        // each must be rejected (one invalid child per tip, then the honest block extends the chain)
        "header-tampered" => {
            let iss: &[(usize, u64)] = &[(0, 3_000_000), (0, 500_000), (1, 700), (1, 90_000), (2, 5), (1, 333_000), (3, 44_000), (2, 250_000)];
            sim = Sim::new(3, 8, 4, iss, 1_000_000).await;
            const FIELDS: usize = 25;
            for f in 0..FIELDS {
                let ts = sim.tip().timestamp + 2 * HEARTBEAT + 1000;
                let mut sp: Vec<_> = sim.spendable().into_iter().filter(|s| s.public_key == sim.keys[0].0 && s.slip_type == SlipType::Normal).collect();
                sp.sort_by_key(|s| s.amount);
                let mut txs = vec![];
                if let Some(s) = sp.last() {
                    if s.amount > 100_000 {
                        txs.push(make_tx(&[s.clone()], &[(sim.keys[0].0, s.amount - 3_000)], &sim.keys[0].1, ts));
                    }
                }
                let with_gt = !sim.tip().has_golden_ticket || txs.is_empty();
                let gt = if with_gt {
                    let parent = sim.tip().clone();
                    Some(gt_tx_for(&sim.node, &parent, sim.keys[1].0, 300 + f as u64).await)
                } else {
                    None
                };
                let created = match create_block(&sim.node, sim.tip().hash, ts, &txs, gt.clone()).await {
                    Ok(Ok(b)) => b,
                    other => {
                        summary.oracle_failure(case, &format!("Block::create failed on valid input: {:?}", other.map(|r| r.map(|b| b.id))), &desc);
                        break;
                    }
                };
                let mut e = created.clone();
                let name_f = match f {
                    0 => { e.treasury += 1; "treasury" }
                    1 => { e.graveyard += 1; "graveyard" }
                    2 => { e.previous_block_unpaid += 1; "previous_block_unpaid" }
                    3 => { e.total_fees += 1; "total_fees" }
                    4 => { e.total_fees_new += 1; "total_fees_new" }
                    5 => { e.total_fees_atr += 1; "total_fees_atr" }
                    6 => { e.total_fees_cumulative += 1; "total_fees_cumulative" }
                    7 => { e.avg_total_fees += 1; "avg_total_fees" }
                    8 => { e.avg_total_fees_new += 1; "avg_total_fees_new" }
                    9 => { e.avg_total_fees_atr += 1; "avg_total_fees_atr" }
                    10 => { e.total_payout_routing += 1; "total_payout_routing" }
                    11 => { e.total_payout_mining += 1; "total_payout_mining" }
                    12 => { e.total_payout_treasury += 1; "total_payout_treasury" }
                    13 => { e.total_payout_graveyard += 1; "total_payout_graveyard" }
                    14 => { e.total_payout_atr += 1; "total_payout_atr" }
                    15 => { e.avg_payout_routing += 1; "avg_payout_routing" }
                    16 => { e.avg_payout_mining += 1; "avg_payout_mining" }
                    17 => { e.avg_payout_treasury += 1; "avg_payout_treasury" }
                    18 => { e.avg_payout_graveyard += 1; "avg_payout_graveyard" }
                    19 => { e.avg_payout_atr += 1; "avg_payout_atr" }
                    20 => { e.avg_fee_per_byte += 1; "avg_fee_per_byte" }
                    21 => { e.fee_per_byte += 1; "fee_per_byte" }
                    22 => { e.avg_nolan_rebroadcast_per_block += 1; "avg_nolan_rebroadcast_per_block" }
                    23 => { e.burnfee += 1; "burnfee" }
                    _ => { e.difficulty += 1; "difficulty" }
                };
                resign(&mut e, &sim.keys[0].1);
                let sr = sim.step(ts, gt.clone(), &txs, CreateOutcome::Ok, Some(created.clone()), Some(e)).await;
                if sr.add != Some(AddClass::Invalid) {
                    summary.oracle_failure(
                        case,
                        &format!("block {} with header field {} off by one is not rejected: {:?} {}", created.id, name_f, sr.add, sr.panic_msg.clone().unwrap_or_default()),
                        &desc,
                    );
                    c02_oracle(&mut sim, &sr, case, summary, &desc, None);
                    break;
                }
                // the honest block is still accepted afterwards
                let sr2 = sim.step(ts, gt, &txs, CreateOutcome::NotCalled, None, Some(created)).await;
                if !c02_oracle(&mut sim, &sr2, case, summary, &desc, None) || sr2.add != Some(AddClass::OnChain) {
                    if sr2.add == Some(AddClass::Invalid) {
                        summary.count("scripted", "header-tampered:honest-block-rejected-multiplier");
                    }
                    break;
                }
                summary.count("scripted", &format!("header-tampered:{}", name_f));
            }
        }
        // an attacker-assembled block: an ordinary signed transaction spends an output of the block
        // leaving the window, which the same block's rebroadcast transaction consumes as well;
        // the header is made consistent with the real generate_consensus_values. Must be rejected.
        "spend-and-rebroadcast" => {
            sim = scripted_prefix_raw(3, 8, ISS, 3, 7, case, summary, &desc).await;
            if sim.dead {
                return (sim, desc);
            }
            let ts = sim.tip().timestamp + 2 * HEARTBEAT + 1000;
            let parent = sim.tip().clone();
            let gt = gt_tx_for(&sim.node, &parent, sim.keys[1].0, 21).await;
            let created = create_block(&sim.node, parent.hash, ts, &[], Some(gt.clone())).await.unwrap().unwrap();
            let g = sim.chain[0].clone();
            let s = g.transactions.iter().flat_map(|t| t.to.iter()).find(|s| s.amount == 90_000).unwrap().clone();
            let owner = sim.key_index(&s.public_key).unwrap();
            let mut spend = make_tx(&[s.clone()], &[(sim.keys[3].0, s.amount)], &sim.keys[owner].1, ts);
            spend.generate(&sim.node.pk, 0, 0);
            let mut edited = created.clone();
            let rebroadcast_too = edited.transactions.iter().any(|t| t.transaction_type == TransactionType::ATR && t.from.iter().any(|f| f.get_utxoset_key() == s.get_utxoset_key()));
            summary.count("scripted", &format!("{}:output-is-rebroadcast-{}", name, rebroadcast_too));
            edited.transactions.insert(1, spend.clone());
            refill_header(&sim.node, &mut edited).await;
            reseal(&mut edited, &sim.keys[0].1);
            let sr = sim.step(ts, Some(gt), &[], CreateOutcome::Ok, Some(created), Some(edited)).await;
            if sr.add != Some(AddClass::Invalid) {
                summary.oracle_failure(case, &format!("block spending output 1:{}:0 (90_000) AND rebroadcasting it is not rejected: {:?} {}", s.tx_ordinal, sr.add, sr.panic_msg.clone().unwrap_or_default()), &desc);
            }
            c02_oracle(&mut sim, &sr, case, summary, &desc, None);
        }
        _ => unreachable!(),
    }
    summary.count("scripted", name);
    (sim, desc)
}

/// one more block of the deterministic kind
async fn scripted_more(sim: &mut Sim, k: u64) -> Option<StepResult> {
    let ts = sim.tip().timestamp + 2 * HEARTBEAT + 1000;
    let mut sp: Vec<_> = sim.spendable().into_iter().filter(|s| s.public_key == sim.keys[0].0).collect();
    sp.sort_by_key(|s| s.amount);
    let mut txs = vec![];
    if let Some(s) = sp.last() {
        if s.amount > 100_000 {
            txs.push(make_tx(&[s.clone()], &[(sim.keys[0].0, s.amount - 50_000)], &sim.keys[0].1, ts));
        }
    }
    let with_gt = !sim.tip().has_golden_ticket || txs.is_empty();
    let gt = if with_gt {
        let parent = sim.tip().clone();
        Some(gt_tx_for(&sim.node, &parent, sim.keys[1].0, 100 + k).await)
    } else {
        None
    };
    let (co, sr) = sim.honest_step(ts, gt, &txs).await;
    if co != CreateOutcome::Ok {
        return None;
    }
    Some(sr)
}

#[allow(unused)]
fn block_types(b: &Block) -> Vec<u8> {
    b.transactions.iter().map(|t| t.transaction_type as u8).collect()
}

#[tokio::main(flavor = "current_thread")]
async fn main() {
    verif_harness::common::init_log();
    let args = Args::parse();
    if std::env::var("VERIF_PANICS").is_err() {
        std::panic::set_hook(Box::new(|_| {}));
    }
    let thorough = args.tier == "thorough";
    let mut rng = Rng::new(args.seed);
    let mut summary = Summary::new("C02");
    let mut coq_cases: Vec<String> = vec![];
    let mut cases: Vec<Case> = vec![];

    // scripted adversarial cases first (fixed case numbers)
    for name in [
        "fee-tx-omitted",
        "bound-tx-fee",
        "blockstake-mint",
        "blockstake-mint-2-64",
        "blockstake-tx-fee",
        "zero-key-golden-ticket",
        "nft-rebroadcast",
        "collected-output-spent",
        "header-tampered",
        "spend-and-rebroadcast",
    ] {
        let case = cases.len();
        let r = verif_harness::chainsim::futures_catch(std::panic::AssertUnwindSafe(scripted(name, case, &mut summary))).await;
        let (sim, desc) = match r {
            Ok(x) => x,
            Err(msg) => {
                let desc = format!("{{\"case\":{},\"kind\":\"scripted\",\"scenario\":\"{}\"}}", case, name);
                summary.oracle_failure(case, &format!("scenario {} could not be carried out on this tree: {}", name, msg), &desc);
                (Sim::new(3, 8, 2, &[(0, 1000)], 1).await, desc)
            }
        };
        coq_cases.push(sim.history_literal());
        cases.push(Case { desc, nontrivial_key: format!("scripted:{}", name) });
    }

    let n_hist = if thorough { 300 } else { 40 };
    for h in 0..n_hist {
        let case = cases.len();
        let mut hrng = rng.fork();
        let gp = *hrng.pick(&[3u64, 4, 5, 8]);
        let gpar = GenParams {
            gp,
            pab: *hrng.pick(&[8u64, 8, 6, 20]),
            nkeys: hrng.range(3, 6) as u8,
            blocks: if thorough { hrng.range(30, 90) as usize } else { hrng.range(16, 40) as usize },
            fee_mode: h as u64 % 3,
            hops: hrng.chance(1, 2),
        };
        let big = h % 11 == 10;
        let (sim, desc) = random_history(&mut hrng, &gpar, big, case, &mut summary).await;
        let wraps = (sim.chain.len() as u64 - 1) / (gp + 1);
        coq_cases.push(sim.history_literal());
        cases.push(Case { desc, nontrivial_key: format!("random:gp{}:fee{}:wraps{}:big{}", gp, gpar.fee_mode, wraps.min(3), big) });
    }

    let n_fork = if thorough { 24 } else { 4 };
    for h in 0..n_fork {
        let case = cases.len();
        let mut hrng = rng.fork();
        let gp = [3u64, 4, 5, 8][h % 4];
        let (sim, desc) = fork_history(&mut hrng, gp, case, &mut summary).await;
        coq_cases.push(sim.history_literal());
        cases.push(Case { desc, nontrivial_key: format!("fork:gp{}", gp) });
    }

    let n_failed = if thorough { 12 } else { 2 };
    for h in 0..n_failed {
        let case = cases.len();
        let mut hrng = rng.fork();
        let gp = [3u64, 5, 4, 8][h % 4];
        let (sim, desc) = failed_reorg_history(&mut hrng, gp, case, &mut summary).await;
        coq_cases.push(sim.history_literal());
        cases.push(Case { desc, nontrivial_key: format!("fork:failed:gp{}", gp) });
    }

    // non-trivial: scripted adversarial cases and random histories whose window wrapped at least once
    let mut distinct = BTreeSet::new();
    for c in &cases {
        if c.nontrivial_key.starts_with("scripted") || c.nontrivial_key.starts_with("fork") || !c.nontrivial_key.contains("wraps0") {
            distinct.insert(c.nontrivial_key.clone());
        }
    }
    summary.nontrivial = distinct.len() as u64;
    summary.evaluations = cases.len() as u64;
    for c in &cases {
        summary.case_descs.push(c.desc.clone());
    }
    for c in cases.iter().take(3) {
        summary.samples.push(c.desc.clone());
    }
    let header = "From Saito Require Import Base CV CVFloat Supply CVRun.\nDefinition check (c : history) : bool := CVRun.check c.";
    let files = gal::write_shards(&format!("{}/cases", args.out), "C02", header, "history", &coq_cases, args.shards).unwrap();
    summary.case_files = files;
    summary.notes.push(format!(
        "{} histories replayed through CVRun.check (Block::create output, add_block verdict and in-window utxo set of every block); profile {}",
        coq_cases.len(),
        if dbg_profile() { "debug (overflow checks)" } else { "release (wrapping)" }
    ));
    summary.write(&args.out);
}
