//! C03 — block trees delivered to the real Blockchain (see chainsim.rs)
use verif_harness::chainsim::{run_property, Profile};
use verif_harness::common::Args;

#[tokio::main(flavor = "current_thread")]
async fn main() {
    verif_harness::common::init_log();
    let args = Args::parse();
    if std::env::var("VERIF_PANICS").is_err() {
        std::panic::set_hook(Box::new(|_| {}));
    }
    let profile = Profile { prop: "C03", invalid_pct: 8, allow_orphans: false, in_order_pct: 30 };
    run_property(&profile, &args).await;
}
