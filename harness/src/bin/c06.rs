//! C06 — a block's identity binds its content and its creator.
//! Valid signed blocks are edited after signing (transaction list changed with the
//! header kept, header fields changed with the signature kept, re-signed by another
//! key) and offered to the real node. The real "recomputed merkle root == header
//! root" and creator-signature verdicts are compared with BlockId.identity_checks.
use std::collections::BTreeSet;
use std::panic::AssertUnwindSafe;

use saito_core::core::consensus::block::Block;
use saito_core::core::consensus::slip::Slip;
use saito_core::core::consensus::transaction::Transaction;
use saito_core::core::util::crypto::verify_signature;
use verif_harness::chainsim::futures_catch;
use verif_harness::common::{Args, Summary};
use verif_harness::gal;
use verif_harness::rng::Rng;
use verif_harness::world::*;

struct World {
    node: Node,
    slips: Vec<Slip>,
    tip: Block,
}

async fn build_world(gp: u64, len: usize, rng: &mut Rng) -> World {
    let params = Params { genesis_period: gp, ..Params::default() };
    let mut node = Node::new(&params, 1);
    // outputs k and k+6 carry the same amount (needed by the input-substitution edit)
    let issuance: Vec<_> = (0..12u64).map(|k| (node.pk, 1_000_000 + (k % 6) * 1000)).collect();
    let g = make_genesis(&node, 1_000_000, &issuance).await.unwrap();
    assert_eq!(node.add_block(g.clone()).await, AddClass::OnChain);
    let mut slips: Vec<Slip> = (0..12).map(|k| g.transactions[k].to[0].clone()).collect();
    let mut parent = g;
    for i in 0..len {
        let ts = parent.timestamp + 120_000 + rng.below(1000);
        let s = slips.remove(0);
        let tx = make_tx(&[s.clone()], &[(node.pk, s.amount)], &node.sk, ts);
        let b = make_block(&node, parent.hash, ts, vec![tx], true, i as u64 + 500).await.unwrap();
        assert_eq!(node.add_block(b.clone()).await, AddClass::OnChain);
        parent = b;
    }
    World { node, slips, tip: parent }
}

fn leaf_list(txs: &[Transaction], int: &mut Interner) -> String {
    // Merkle.tx records: only t_repl and t_hfs matter for the root
    let items: Vec<String> = txs
        .iter()
        .map(|t| {
            let hfs = match t.hash_for_signature {
                Some(h) => format!("(Some (Leaf {}))", int.get(&h)),
                None => "None".to_string(),
            };
            format!(
                "Merkle.mkTx {} {} 0 0 0 [] [] 0 0 {}",
                t.transaction_type as u8, t.txs_replacements, hfs
            )
        })
        .collect();
    gal::list(&items)
}

const EDITS: &[&str] = &[
    "none",
    "append-tx",
    "remove-tx",
    "swap-two-txs",
    "replace-tx",
    "duplicate-tx",
    "flip-timestamp",
    "flip-treasury",
    "flip-burnfee",
    "flip-creator-keep-sig",
    "resign-other-key-keep-creator",
    "zero-merkle-root-field",
    "substitute-equal-amount-input",
    "insert-zero-replacement-tx",
];

#[tokio::main(flavor = "current_thread")]
async fn main() {
    verif_harness::common::init_log();
    let args = Args::parse();
    if std::env::var("VERIF_PANICS").is_err() {
        std::panic::set_hook(Box::new(|_| {}));
    }
    let thorough = args.tier == "thorough";
    let mut rng = Rng::new(args.seed);
    let mut summary = Summary::new("C06");
    let mut coq_cases = vec![];
    let mut distinct = BTreeSet::new();
    let mut case_no = 0usize;
    let worlds = if thorough { 30 } else { 8 };
    for wi in 0..worlds {
        let (gp, len) = *rng.pick(&[(20u64, 1usize), (20, 4), (8, 3), (5, 3)]);
        let ntx = rng.range(2, 5) as usize;
        for (e, edit) in EDITS.iter().enumerate() {
            for first in ["edited-only", "original-first", "bootstrapped-node"] {
                let mut wrng = Rng::new(args.seed * 7919 + wi as u64);
                let mut w = build_world(gp, len, &mut wrng).await;
                let ts = w.tip.timestamp + 150_000;
                let mut txs = vec![];
                for k in 0..ntx {
                    let s = w.slips[k].clone();
                    txs.push(make_tx(&[s.clone()], &[(w.node.pk, s.amount)], &w.node.sk, ts + k as u64));
                }
                let original = make_block(&w.node, w.tip.hash, ts, txs, true, 900 + wi as u64).await.unwrap();
                let other = keypair(7);
                let mut b = original.clone();
                let extra_slip = w.slips[ntx].clone();
                let extra = {
                    let mut t = make_tx(&[extra_slip.clone()], &[(w.node.pk, extra_slip.amount)], &w.node.sk, ts + 77);
                    t.generate(&w.node.pk, 0, 0);
                    t
                };
                // index of the first normal tx
                let n0 = b.transactions.iter().position(|t| t.transaction_type as u8 == 0).unwrap();
                match *edit {
                    "none" => {}
                    "append-tx" => b.transactions.push(extra.clone()),
                    "remove-tx" => {
                        b.transactions.remove(n0);
                    }
                    "swap-two-txs" => b.transactions.swap(n0, n0 + 1),
                    "replace-tx" => b.transactions[n0] = extra.clone(),
                    "duplicate-tx" => {
                        let t = b.transactions[n0].clone();
                        b.transactions.insert(n0, t);
                    }
                    "flip-timestamp" => b.timestamp += 1,
                    "flip-treasury" => b.treasury += 1,
                    "flip-burnfee" => b.burnfee += 1,
                    "flip-creator-keep-sig" => b.creator = other.0,
                    "resign-other-key-keep-creator" => {
                        b.timestamp += 1;
                        b.generate_pre_hash();
                        b.sign(&other.1);
                    }
                    "zero-merkle-root-field" => b.merkle_root = [0; 32],
                    "insert-zero-replacement-tx" => {
                        // a validly signed transfer whose txs_replacements field is 0
                        let sl = w.slips[ntx + 1].clone();
                        let mut t = make_tx(&[sl.clone()], &[(w.node.pk, sl.amount)], &w.node.sk, ts + 99);
                        t.txs_replacements = 0;
                        t.sign(&w.node.sk);
                        t.generate(&w.node.pk, 0, 0);
                        b.transactions.insert(n0 + 1, t);
                    }
                    "substitute-equal-amount-input" => {
                        // another unspent output of the same owner with the same amount and slip index:
                        // the signed bytes of an input omit block id and transaction ordinal
                        let cur = b.transactions[n0].from[0].clone();
                        if let Some(alt) = w.slips.iter().skip(ntx).find(|s| {
                            s.amount == cur.amount && s.slip_index == cur.slip_index && s.utxoset_key != cur.utxoset_key
                        }) {
                            let mut alt = alt.clone();
                            alt.generate_utxoset_key();
                            b.transactions[n0].from[0] = alt;
                        }
                    }
                    _ => {}
                }
                // what a receiving node does first: recompute derived data
                let _ = b.generate();
                let same_hash = b.hash == original.hash;
                let content_of = |bl: &Block| {
                    bl.transactions
                        .iter()
                        .map(|t| (t.signature, t.from.iter().map(|s| s.get_utxoset_key()).collect::<Vec<_>>()))
                        .collect::<Vec<_>>()
                };
                let content_changed = content_of(&b) != content_of(&original);
                // verdicts of the real identity checks
                let root_ok = b.merkle_root == b.generate_merkle_root(false, false);
                let sig_ok = verify_signature(&b.pre_hash, &b.signature, &b.creator);
                // model case: header root term = root of the list the header was made from
                // (the original list, unless the root field itself was zeroed and regenerated)
                let mut int = Interner::default();
                let hdr_list = if *edit == "zero-merkle-root-field" { &b.transactions } else { &original.transactions };
                let hdr_g = leaf_list(hdr_list, &mut int);
                let txs_g = leaf_list(&b.transactions, &mut int);
                coq_cases.push(format!(
                    "(({}, {}, {}), {})",
                    hdr_g,
                    txs_g,
                    gal::boolean(sig_ok),
                    gal::boolean(root_ok && sig_ok)
                ));
                let desc = format!(
                    "{{\"case\":{},\"edit\":\"{}\",\"order\":\"{}\",\"genesis_period\":{},\"chain_len\":{},\"txs\":{},\"same_hash_as_original\":{},\"content_changed\":{}}}",
                    case_no, edit, first, gp, len + 1, ntx, same_hash, content_changed
                );
                if first == "bootstrapped-node" {
                    // a node that joined mid-chain: it holds only the last two blocks of the chain
                    // (its first block is accepted without a parent) and cannot validate against
                    // the ledger yet; the commitment of a block to its transactions must hold anyway
                    if len < 2 {
                        continue;
                    }
                    let params = Params { genesis_period: gp, ..Params::default() };
                    let mut fresh = Node::new(&params, 1);
                    let tip = w.tip.clone();
                    let parent = w.node.blockchain.get_block(&tip.previous_block_hash).cloned();
                    if let Some(pb) = parent {
                        let mut pb = pb;
                        pb.in_longest_chain = false; // as after deserialisation from the wire
                        let _ = pb.upgrade_block_to_block_type(saito_core::core::consensus::block::BlockType::Full, &w.node.storage, false).await;
                        let _ = fresh.add_block(pb).await;
                    }
                    let mut tip = tip;
                    tip.in_longest_chain = false;
                    let r0 = fresh.add_block(tip).await;
                    if r0 != AddClass::OnChain {
                        continue;
                    }
                    w.node = fresh;
                }
                if first == "original-first" {
                    let r = futures_catch(AssertUnwindSafe(w.node.add_block(original.clone()))).await;
                    if r != Ok(AddClass::OnChain) {
                        summary.oracle_failure(case_no, &format!("original block not accepted: {:?}", r), &desc);
                    }
                }
                let before = w.node.snapshot();
                let r = futures_catch(AssertUnwindSafe(w.node.add_block(b.clone()))).await;
                let after = w.node.snapshot();
                summary.count("edit", edit);
                summary.count("result", &format!("{}:{}:{:?}", edit, first, r));
                match r {
                    Err(m) => summary.oracle_failure(case_no, &format!("[{}] add_block panicked: {}", edit, m), &desc),
                    Ok(c) => {
                        // "accepted" = validated and adopted; a sibling stored off the longest chain
                        // has not been validated yet (validation happens when it is wound)
                        let accepted = c == AddClass::OnChain;
                        if c == AddClass::OffChain && !sig_ok {
                            summary.count("stored_unvalidated_offchain", edit);
                        }
                        if *edit == "none" || *edit == "zero-merkle-root-field" {
                            // a zeroed root field is refilled by Block::generate: same block
                            let want = if first == "original-first" { AddClass::Exists } else { AddClass::OnChain };
                            if first == "bootstrapped-node" && c != want {
                                // the bootstrapped node may legitimately refuse (e.g. golden tickets): not judged
                                summary.count("bootstrapped_refused_original", edit);
                            } else
                            if c != want {
                                summary.oracle_failure(case_no, &format!("unedited block: {:?}, expected {:?}", c, want), &desc);
                            }
                        } else if accepted && same_hash && content_changed && *edit == "substitute-equal-amount-input" {
                            summary.known_hit(
                                "input-location-unsigned",
                                case_no,
                                "a transaction input replaced by another equal-amount output of the same owner: same transaction hash, same block hash, block accepted",
                            );
                        } else if accepted && same_hash && content_changed {
                            summary.oracle_failure(
                                case_no,
                                &format!("[{}] block with the original hash but different transactions was accepted ({:?})", edit, c),
                                &desc,
                            );
                        } else if accepted && !sig_ok {
                            summary.oracle_failure(case_no, &format!("[{}] block not signed by its stated creator was accepted", edit), &desc);
                        } else if accepted && !root_ok {
                            summary.oracle_failure(case_no, &format!("[{}] block whose merkle root does not match its transactions was accepted", edit), &desc);
                        } else if accepted {
                            summary.oracle_failure(case_no, &format!("[{}] edited block accepted ({:?})", edit, c), &desc);
                        }
                        if c == AddClass::Invalid && before != after {
                            summary.oracle_failure(case_no, &format!("[{}] rejected edited block changed the node state", edit), &desc);
                        }
                        if c == AddClass::Exists && content_changed {
                            // same hash, different content, original known: the node keeps the original
                            let stored = w.node.blockchain.get_block(&original.hash).map(|x| x.transactions.len());
                            if stored != Some(original.transactions.len()) {
                                summary.oracle_failure(case_no, &format!("[{}] stored block content replaced by an edited copy", edit), &desc);
                            }
                        }
                    }
                }
                if *edit != "none" && distinct.insert(format!("{}{}{}{}{}", e, first, gp, len, ntx)) {
                    summary.nontrivial += 1;
                }
                if summary.samples.len() < 4 && e % 4 == 1 {
                    summary.samples.push(desc.clone());
                }
                summary.case_descs.push(desc);
                case_no += 1;
            }
        }
    }
    summary.evaluations = case_no as u64;
    let header = "From Saito Require Import Base Merkle BlockId.\n\
        Definition check (c : (list Merkle.tx * list Merkle.tx * bool) * bool) : bool :=\n\
        let '((hdr_txs, txs, sig_ok), expected) := c in\n\
        match merkle_root_of hdr_txs with\n\
        | Ok r => Bool.eqb (identity_checks (mkAB (mkH 0 0 [] [] r []) txs sig_ok)) expected\n\
        | _ => false end.";
    let files = gal::write_shards(
        &format!("{}/cases", args.out),
        "C06",
        header,
        "(list Merkle.tx * list Merkle.tx * bool) * bool",
        &coq_cases,
        args.shards,
    )
    .unwrap();
    summary.case_files = files;
    summary.write(&args.out);
}
