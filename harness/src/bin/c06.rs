//! C06 — a block's identity binds its content and its creator.
//! Valid signed blocks are edited after signing (transaction list changed with the
//! header kept, header fields changed with the signature kept, re-signed by another
//! key) and offered to the real node. The real "recomputed merkle root == header
//! root" and creator-signature verdicts are compared with BlockId.identity_checks.
use std::collections::BTreeSet;
use std::panic::AssertUnwindSafe;

use saito_core::core::consensus::block::Block;
use saito_core::core::consensus::slip::Slip;
use saito_core::core::consensus::transaction::Transaction;
use saito_core::core::consensus::peers::peer::Peer;
use saito_core::core::consensus::peers::peer_collection::PeerCollection;
use saito_core::core::consensus_thread::ConsensusEvent;
use saito_core::core::defs::{StatVariable, STAT_BIN_COUNT};
use saito_core::core::util::crypto::{hash, verify_signature};
use saito_core::core::verification_thread::VerificationThread;
use std::sync::Arc;
use tokio::sync::RwLock;
use verif_harness::chainsim::futures_catch;
use verif_harness::common::{Args, Summary};
use verif_harness::gal;
use verif_harness::rng::Rng;
use verif_harness::world::*;

struct World {
    node: Node,
    slips: Vec<Slip>,
    tip: Block,
}

async fn build_world(gp: u64, len: usize, rng: &mut Rng) -> World {
    let params = Params { genesis_period: gp, ..Params::default() };
    let mut node = Node::new(&params, 1);
    // outputs k and k+6 carry the same amount (needed by the input-substitution edit)
    let issuance: Vec<_> = (0..12u64).map(|k| (node.pk, 1_000_000 + (k % 6) * 1000)).collect();
    let g = make_genesis(&node, 1_000_000, &issuance).await.unwrap();
    assert_eq!(node.add_block(g.clone()).await, AddClass::OnChain);
    let mut slips: Vec<Slip> = (0..12).map(|k| g.transactions[k].to[0].clone()).collect();
    let mut parent = g;
    for i in 0..len {
        let ts = parent.timestamp + 120_000 + rng.below(1000);
        let s = slips.remove(0);
        let tx = make_tx(&[s.clone()], &[(node.pk, s.amount)], &node.sk, ts);
        let b = make_block(&node, parent.hash, ts, vec![tx], true, i as u64 + 500).await.unwrap();
        assert_eq!(node.add_block(b.clone()).await, AddClass::OnChain);
        parent = b;
    }
    World { node, slips, tip: parent }
}

fn leaf_list(txs: &[Transaction], int: &mut Interner) -> String {
    // Merkle.tx records: only t_repl and t_hfs matter for the root
    let items: Vec<String> = txs
        .iter()
        .map(|t| {
            let hfs = match t.hash_for_signature {
                Some(h) => format!("(Some (Leaf {}))", int.get(&h)),
                None => "None".to_string(),
            };
            format!(
                "Merkle.mkTx {} {} 0 0 0 [] [] 0 0 0 {}",
                t.transaction_type as u8, t.txs_replacements, hfs
            )
        })
        .collect();
    gal::list(&items)
}

/// The hash structure that proofs/HashBridge.v assumes of the code, evaluated with the real
/// hash function: pre_hash = H(signed bytes), hash = H(prev ++ pre_hash), merkle root = the
/// pairwise reduction with odd nodes carried up over the transactions' leaf hashes, a
/// non-SPV leaf = H(signed bytes of the transaction) with a pre-image that is not 64 bytes
/// long, and the merkle root sits at bytes 81..113 of the block's signed bytes.
fn hash_structure_ok(b: &Block) -> (bool, Vec<u8>, Vec<u64>) {
    let sb = b.serialize_for_signature();
    let nums = vec![
        b.graveyard,
        b.treasury,
        b.burnfee,
        b.difficulty,
        b.avg_fee_per_byte,
        b.avg_nolan_rebroadcast_per_block,
        b.previous_block_unpaid,
        b.avg_total_fees,
        b.avg_total_fees_new,
        b.avg_total_fees_atr,
        b.avg_payout_routing,
        b.avg_payout_mining,
    ];
    let mut ok = sb.len() == 8 + 8 + 32 + 33 + 32 + 12 * 8;
    let mut without_root = vec![];
    if ok {
        ok &= sb[81..113] == b.merkle_root;
        without_root.extend(&sb[..81]);
        without_root.extend(&sb[113..]);
    }
    ok &= b.pre_hash == hash(&sb);
    let mut v = b.previous_block_hash.to_vec();
    v.extend(&b.pre_hash);
    ok &= b.hash == hash(&v);
    // concrete merkle root (HashBridge.cmerkle_root) over the leaf values
    let mut level: Vec<[u8; 32]> = vec![];
    for t in &b.transactions {
        let sfs = t.serialize_for_signature();
        match t.hash_for_signature {
            Some(h) => {
                if t.transaction_type as u8 != 5 {
                    ok &= h == hash(&sfs) && sfs.len() != 64;
                }
                let r = if t.txs_replacements > 1 { t.txs_replacements as usize } else { 1 };
                for _ in 0..r {
                    level.push(h);
                }
            }
            None => ok = false,
        }
    }
    if !level.is_empty() {
        while level.len() > 1 {
            let mut next = vec![];
            for c in level.chunks(2) {
                if c.len() == 2 {
                    let mut x = c[0].to_vec();
                    x.extend(&c[1]);
                    next.push(hash(&x));
                } else {
                    next.push(c[0]);
                }
            }
            level = next;
        }
        ok &= level[0] == b.generate_merkle_root(false, false);
    }
    (ok, without_root, nums)
}

/// one Coq case: ((header list, carried list, sig_ok), expected verdict, header fields + signed bytes + structure bit)
fn model_case(b: &Block, hdr_list: &[Transaction], sig_ok: bool, root_ok: bool) -> (String, bool) {
    let mut int = Interner::default();
    let hdr_g = leaf_list(hdr_list, &mut int);
    let txs_g = leaf_list(&b.transactions, &mut int);
    let (struct_ok, sb_wo_root, nums) = hash_structure_ok(b);
    (
        format!(
            "(({}, {}, {}), {}, (({}, {}, {}%string, {}%string, {}), {}%string, {}))",
            hdr_g,
            txs_g,
            gal::boolean(sig_ok),
            gal::boolean(root_ok && sig_ok),
            b.id,
            b.timestamp,
            gal::hex(&b.previous_block_hash),
            gal::hex(&b.creator),
            gal::nlist(&nums),
            gal::hex(&sb_wo_root),
            gal::boolean(struct_ok)
        ),
        struct_ok,
    )
}

const EDITS: &[&str] = &[
    "none",
    "append-tx",
    "remove-tx",
    "swap-two-txs",
    "replace-tx",
    "duplicate-tx",
    "flip-timestamp",
    "flip-treasury",
    "flip-burnfee",
    "flip-creator-keep-sig",
    "resign-other-key-keep-creator",
    "zero-merkle-root-field",
    "substitute-equal-amount-input",
    "insert-zero-replacement-tx",
    // the transaction list is edited AND the header's merkle root field is rewritten to match
    // (the header signature cannot be renewed by a third party)
    // two transfers that are SIBLINGS in the merkle tree (positions 2k, 2k+1) exchanged, and two
    // aligned pairs exchanged: an inner node must commit to the order of its children
    "swap-sibling-pair",
    "swap-aligned-pairs",
    // every transaction stripped, header (and therefore hash and signature) untouched
    "remove-all-txs",
    "swap-two-txs-rewrite-root",
    "remove-tx-rewrite-root",
    // same header, same pre-hash, same hash; only the signature is by another key
    "resign-other-key-only",
    // one signed field of a transaction changed after signing; transaction signature and header kept
    "tamper-tx-timestamp",
    "tamper-tx-data",
    "tamper-tx-output-key",
    "tamper-tx-output-amount",
    "tamper-tx-output-type",
    "tamper-tx-replacements",
    "tamper-tx-type",
    "tamper-tx-input-amount",
    // the signed bytes of a transaction do not delimit inputs from outputs: the (single) output
    // to the sender becomes a second input naming another of its outputs of that amount and index
    "move-output-to-input",
    // signature malleability: the s half of a compact ECDSA signature replaced by n - s (the other
    // encoding of the same signature; libsecp256k1 only accepts the low-s form). Neither the block hash
    // nor the merkle leaves cover signature bytes, so an accepted copy keeps the creator's hash
    "flip-s-header-signature",
    "flip-s-tx-signature",
];

/// s := n - s on a 64-byte compact signature (n = order of secp256k1)
fn flip_s(sig: &mut [u8; 64]) {
    const N: [u8; 32] = [
        0xFF, 0xFF, 0xFF, 0xFF, 0xFF, 0xFF, 0xFF, 0xFF, 0xFF, 0xFF, 0xFF, 0xFF, 0xFF, 0xFF, 0xFF, 0xFE, 0xBA, 0xAE, 0xDC, 0xE6, 0xAF, 0x48,
        0xA0, 0x3B, 0xBF, 0xD2, 0x5E, 0x8C, 0xD0, 0x36, 0x41, 0x41,
    ];
    let mut borrow = 0i16;
    for i in (0..32).rev() {
        let d = N[i] as i16 - sig[32 + i] as i16 - borrow;
        if d < 0 {
            sig[32 + i] = (d + 256) as u8;
            borrow = 1;
        } else {
            sig[32 + i] = d as u8;
            borrow = 0;
        }
    }
}

#[tokio::main(flavor = "current_thread")]
async fn main() {
    verif_harness::common::init_log();
    let args = Args::parse();
    if std::env::var("VERIF_PANICS").is_err() {
        std::panic::set_hook(Box::new(|_| {}));
    }
    let thorough = args.tier == "thorough";
    let mut rng = Rng::new(args.seed);
    let mut summary = Summary::new("C06");
    let mut coq_cases = vec![];
    let mut distinct = BTreeSet::new();
    let mut case_no = 0usize;
    let worlds = if thorough { 30 } else { 8 };
    for wi in 0..worlds {
        let (gp, len) = *rng.pick(&[(20u64, 1usize), (20, 4), (8, 3), (5, 3)]);
        let ntx = rng.range(2, 5) as usize;
        for (e, edit) in EDITS.iter().enumerate() {
            for first in ["edited-only", "original-first", "bootstrapped-node", "browser-node"] {
                let mut wrng = Rng::new(args.seed * 7919 + wi as u64);
                let mut w = build_world(gp, len, &mut wrng).await;
                let ts = w.tip.timestamp + 150_000;
                let mut txs = vec![];
                for k in 0..ntx {
                    let s = w.slips[k].clone();
                    txs.push(make_tx(&[s.clone()], &[(w.node.pk, s.amount)], &w.node.sk, ts + k as u64));
                }
                // the browser-node ordering uses a block without golden ticket and without fees: its
                // header totals are zero, so nothing but the transaction commitment binds its content
                let original = make_block(&w.node, w.tip.hash, ts, txs, first != "browser-node", 900 + wi as u64).await.unwrap();
                let other = keypair(7);
                let mut b = original.clone();
                let extra_slip = w.slips[ntx].clone();
                let extra = {
                    let mut t = make_tx(&[extra_slip.clone()], &[(w.node.pk, extra_slip.amount)], &w.node.sk, ts + 77);
                    t.generate(&w.node.pk, 0, 0);
                    t
                };
                // index of the first normal tx
                let n0 = b.transactions.iter().position(|t| t.transaction_type as u8 == 0).unwrap();
                match *edit {
                    "none" => {}
                    "append-tx" => b.transactions.push(extra.clone()),
                    "remove-tx" => {
                        b.transactions.remove(n0);
                    }
                    "swap-two-txs" => b.transactions.swap(n0, n0 + 1),
                    "replace-tx" => b.transactions[n0] = extra.clone(),
                    "duplicate-tx" => {
                        let t = b.transactions[n0].clone();
                        b.transactions.insert(n0, t);
                    }
                    "flip-timestamp" => b.timestamp += 1,
                    "flip-treasury" => b.treasury += 1,
                    "flip-burnfee" => b.burnfee += 1,
                    "flip-creator-keep-sig" => b.creator = other.0,
                    "resign-other-key-keep-creator" => {
                        b.timestamp += 1;
                        b.generate_pre_hash();
                        b.sign(&other.1);
                    }
                    "zero-merkle-root-field" => b.merkle_root = [0; 32],
                    "insert-zero-replacement-tx" => {
                        // a validly signed transfer whose txs_replacements field is 0
                        let sl = w.slips[ntx + 1].clone();
                        let mut t = make_tx(&[sl.clone()], &[(w.node.pk, sl.amount)], &w.node.sk, ts + 99);
                        t.txs_replacements = 0;
                        t.sign(&w.node.sk);
                        t.generate(&w.node.pk, 0, 0);
                        b.transactions.insert(n0 + 1, t);
                    }
                    "remove-all-txs" => b.transactions.clear(),
                    "swap-sibling-pair" => {
                        let ty: Vec<u8> = b.transactions.iter().map(|t| t.transaction_type as u8).collect();
                        if let Some(i) = (0..ty.len().saturating_sub(1)).step_by(2).find(|i| ty[*i] == 0 && ty[*i + 1] == 0) {
                            b.transactions.swap(i, i + 1);
                        }
                    }
                    "swap-aligned-pairs" => {
                        let ty: Vec<u8> = b.transactions.iter().map(|t| t.transaction_type as u8).collect();
                        if ty.len() >= 4 && ty[..4].iter().all(|t| *t == 0) {
                            b.transactions.swap(0, 2);
                            b.transactions.swap(1, 3);
                        }
                    }
                    "swap-two-txs-rewrite-root" => {
                        b.transactions.swap(n0, n0 + 1);
                        b.merkle_root = b.generate_merkle_root(false, false);
                    }
                    "remove-tx-rewrite-root" => {
                        b.transactions.remove(n0);
                        b.merkle_root = b.generate_merkle_root(false, false);
                    }
                    "resign-other-key-only" => b.sign(&other.1),
                    "tamper-tx-timestamp" => b.transactions[n0].timestamp += 1,
                    "tamper-tx-data" => b.transactions[n0].data.push(7),
                    "tamper-tx-output-key" => b.transactions[n0].to[0].public_key = other.0,
                    "tamper-tx-output-amount" => b.transactions[n0].to[0].amount -= 1,
                    "tamper-tx-output-type" => {
                        b.transactions[n0].to[0].slip_type = saito_core::core::consensus::slip::SlipType::MinerOutput
                    }
                    "tamper-tx-replacements" => b.transactions[n0].txs_replacements = 0,
                    "tamper-tx-type" => {
                        b.transactions[n0].transaction_type = saito_core::core::consensus::transaction::TransactionType::Vip
                    }
                    "tamper-tx-input-amount" => {
                        b.transactions[n0].from[0].amount += 1;
                        b.transactions[n0].from[0].generate_utxoset_key();
                    }
                    "flip-s-header-signature" => flip_s(&mut b.signature),
                    "flip-s-tx-signature" => flip_s(&mut b.transactions[n0].signature),
                    "move-output-to-input" => {
                        let out = b.transactions[n0].to[0].clone();
                        let cur = b.transactions[n0].from[0].clone();
                        if let Some(alt) = w.slips.iter().skip(ntx).find(|s| {
                            s.amount == out.amount
                                && s.slip_index == out.slip_index
                                && s.public_key == out.public_key
                                && s.utxoset_key != cur.utxoset_key
                        }) {
                            let mut alt = alt.clone();
                            alt.generate_utxoset_key();
                            b.transactions[n0].from.push(alt);
                            b.transactions[n0].to.clear();
                        }
                    }
                    "substitute-equal-amount-input" => {
                        // another unspent output of the same owner with the same amount and slip index:
                        // the signed bytes of an input omit block id and transaction ordinal
                        let cur = b.transactions[n0].from[0].clone();
                        if let Some(alt) = w.slips.iter().skip(ntx).find(|s| {
                            s.amount == cur.amount && s.slip_index == cur.slip_index && s.utxoset_key != cur.utxoset_key
                        }) {
                            let mut alt = alt.clone();
                            alt.generate_utxoset_key();
                            b.transactions[n0].from[0] = alt;
                        }
                    }
                    _ => {}
                }
                // what a receiving node does first: recompute derived data
                let _ = b.generate();
                let same_hash = b.hash == original.hash;
                let content_of = |bl: &Block| {
                    bl.transactions
                        .iter()
                        .map(|t| (t.serialize_for_net(), t.from.iter().map(|s| s.get_utxoset_key()).collect::<Vec<_>>()))
                        .collect::<Vec<_>>()
                };
                let content_changed = content_of(&b) != content_of(&original);
                // verdicts of the real identity checks
                let root_ok = b.merkle_root == b.generate_merkle_root(false, false);
                let sig_ok = verify_signature(&b.pre_hash, &b.signature, &b.creator);
                // model case: header root term = root of the list the header was made from
                // (the original list, unless the root field itself was zeroed and regenerated)
                let hdr_list = if *edit == "zero-merkle-root-field" || edit.ends_with("-rewrite-root") { &b.transactions } else { &original.transactions };
                let (case_g, struct_ok) = model_case(&b, hdr_list, sig_ok, root_ok);
                summary.count("hash_structure_ok", &format!("{}", struct_ok));
                coq_cases.push(case_g);
                let desc = format!(
                    "{{\"case\":{},\"edit\":\"{}\",\"order\":\"{}\",\"genesis_period\":{},\"chain_len\":{},\"txs\":{},\"same_hash_as_original\":{},\"content_changed\":{}}}",
                    case_no, edit, first, gp, len + 1, ntx, same_hash, content_changed
                );
                if first == "bootstrapped-node" {
                    // a node that joined mid-chain: it holds only the last two blocks of the chain
                    // (its first block is accepted without a parent) and cannot validate against
                    // the ledger yet; the commitment of a block to its transactions must hold anyway
                    if len < 2 {
                        continue;
                    }
                    let params = Params { genesis_period: gp, ..Params::default() };
                    let mut fresh = Node::new(&params, 1);
                    let tip = w.tip.clone();
                    let parent = w.node.blockchain.get_block(&tip.previous_block_hash).cloned();
                    if let Some(pb) = parent {
                        let mut pb = pb;
                        pb.in_longest_chain = false; // as after deserialisation from the wire
                        let _ = pb.upgrade_block_to_block_type(saito_core::core::consensus::block::BlockType::Full, &w.node.storage, false).await;
                        let _ = fresh.add_block(pb).await;
                    }
                    let mut tip = tip;
                    tip.in_longest_chain = false;
                    let r0 = fresh.add_block(tip).await;
                    if r0 != AddClass::OnChain {
                        continue;
                    }
                    w.node = fresh;
                }
                if first == "browser-node" {
                    // a node configured as a browser (not spv): blocks are still validated
                    w.node.cfg.browser = true;
                }
                if first == "original-first" {
                    let r = futures_catch(AssertUnwindSafe(w.node.add_block(original.clone()))).await;
                    if r != Ok(AddClass::OnChain) {
                        summary.oracle_failure(case_no, &format!("original block not accepted: {:?}", r), &desc);
                    }
                }
                let before = w.node.snapshot();
                let r = futures_catch(AssertUnwindSafe(w.node.add_block(b.clone()))).await;
                let after = w.node.snapshot();
                summary.count("edit", edit);
                summary.count("result", &format!("{}:{}:{:?}", edit, first, r));
                match r {
                    Err(m) => summary.oracle_failure(case_no, &format!("[{}] add_block panicked: {}", edit, m), &desc),
                    Ok(c) => {
                        // "accepted" = validated and adopted; a sibling stored off the longest chain
                        // has not been validated yet (validation happens when it is wound)
                        let accepted = c == AddClass::OnChain;
                        if c == AddClass::OffChain && !sig_ok {
                            summary.count("stored_unvalidated_offchain", edit);
                        }
                        // an edit that found nothing to change (no second output of equal amount
                        // in this world) leaves the original block: judged like "none"
                        let noop = same_hash && !content_changed && b.signature == original.signature && b.merkle_root == original.merkle_root;
                        if noop && *edit != "none" {
                            summary.count("edit_was_noop", edit);
                        }
                        if *edit == "none" || *edit == "zero-merkle-root-field" || noop {
                            // a zeroed root field is refilled by Block::generate: same block
                            let want = if first == "original-first" { AddClass::Exists } else { AddClass::OnChain };
                            if first == "bootstrapped-node" && c != want {
                                // the bootstrapped node may legitimately refuse (e.g. golden tickets): not judged
                                summary.count("bootstrapped_refused_original", edit);
                            } else
                            if c != want {
                                summary.oracle_failure(case_no, &format!("unedited block: {:?}, expected {:?}", c, want), &desc);
                            }
                        } else if accepted && same_hash && content_changed && *edit == "substitute-equal-amount-input" {
                            summary.known_hit(
                                "input-location-unsigned",
                                case_no,
                                "a transaction input replaced by another equal-amount output of the same owner: same transaction hash, same block hash, block accepted",
                            );
                        } else if accepted && same_hash && content_changed {
                            summary.oracle_failure(
                                case_no,
                                &format!("[{}] block with the original hash but different transactions was accepted ({:?})", edit, c),
                                &desc,
                            );
                        } else if accepted && !sig_ok {
                            summary.oracle_failure(case_no, &format!("[{}] block not signed by its stated creator was accepted", edit), &desc);
                        } else if accepted && !root_ok {
                            summary.oracle_failure(case_no, &format!("[{}] block whose merkle root does not match its transactions was accepted", edit), &desc);
                        } else if accepted {
                            summary.oracle_failure(case_no, &format!("[{}] edited block accepted ({:?})", edit, c), &desc);
                        }
                        if c == AddClass::Invalid && before != after {
                            summary.oracle_failure(case_no, &format!("[{}] rejected edited block changed the node state", edit), &desc);
                        }
                        if c == AddClass::Exists && content_changed {
                            // same hash, different content, original known: the node keeps the original
                            let stored = w.node.blockchain.get_block(&original.hash).map(|x| x.transactions.len());
                            if stored != Some(original.transactions.len()) {
                                summary.oracle_failure(case_no, &format!("[{}] stored block content replaced by an edited copy", edit), &desc);
                            }
                        }
                    }
                }
                if *edit != "none" && distinct.insert(format!("{}{}{}{}{}", e, first, gp, len, ntx)) {
                    summary.nontrivial += 1;
                }
                if summary.samples.len() < 4 && e % 4 == 1 {
                    summary.samples.push(desc.clone());
                }
                summary.case_descs.push(desc);
                case_no += 1;
            }
        }
    }

    // ---- scripted: the first block of a chain (the only block that may legally be empty) ----
    // a signed genesis block with every transaction stripped and the header untouched keeps its
    // hash; a fresh node must refuse it and afterwards accept the genuine block
    for gi in 0..(if thorough { 8 } else { 3 }) {
        let gp = [20u64, 8, 5][gi % 3];
        let mut wrng = Rng::new(args.seed * 104_729 + gi as u64);
        let w = build_world(gp, 1, &mut wrng).await;
        let gh = w.node.blockchain.blockring.get_longest_chain_block_hash_at_block_id(1).unwrap_or([0; 32]);
        let genesis = match w.node.blockchain.get_block(&gh) {
            Some(g) => g.clone(),
            None => {
                summary.oracle_failure(case_no, "harness: genesis block not found on the builder", "{}");
                continue;
            }
        };
        for variant in ["strip-all-txs", "strip-all-but-first", "flip-timestamp-keep-sig", "replace-creator-keep-sig"] {
            let mut edited = genesis.clone();
            edited.in_longest_chain = false;
            match variant {
                "strip-all-txs" => edited.transactions.clear(),
                "strip-all-but-first" => edited.transactions.truncate(1),
                // a block without an indexed parent (first block of a fresh node, start of a
                // mid-chain sync) must still be signed by its stated creator
                "flip-timestamp-keep-sig" => edited.timestamp += 1,
                _ => edited.creator = keypair(7).0,
            }
            let _ = edited.generate();
            let same_hash = edited.hash == genesis.hash;
            let root_ok = edited.merkle_root == edited.generate_merkle_root(false, false);
            let sig_ok = verify_signature(&edited.pre_hash, &edited.signature, &edited.creator);
            let (case_g, struct_ok) = model_case(&edited, &genesis.transactions, sig_ok, root_ok);
            summary.count("hash_structure_ok", &format!("{}", struct_ok));
            coq_cases.push(case_g);
            let desc = format!(
                "{{\"case\":{},\"edit\":\"genesis-{}\",\"order\":\"fresh-node\",\"genesis_period\":{},\"txs_in_genesis\":{},\"same_hash_as_original\":{}}}",
                case_no,
                variant,
                gp,
                genesis.transactions.len(),
                same_hash
            );
            let params = Params { genesis_period: gp, ..Params::default() };
            let mut fresh = Node::new(&params, 1);
            let r = futures_catch(AssertUnwindSafe(fresh.add_block(edited.clone()))).await;
            summary.count("edit", &format!("genesis-{}", variant));
            summary.count("result", &format!("genesis-{}:fresh-node:{:?}", variant, r));
            match r {
                Err(m) => summary.oracle_failure(case_no, &format!("[genesis-{}] add_block panicked: {}", variant, m), &desc),
                Ok(AddClass::OnChain) => summary.oracle_failure(
                    case_no,
                    &format!(
                        "[genesis-{}] edited first block accepted by a fresh node ({} of {} transactions removed, creator signature valid: {}, same hash as the original: {})",
                        variant,
                        genesis.transactions.len() - edited.transactions.len(),
                        genesis.transactions.len(),
                        sig_ok,
                        same_hash
                    ),
                    &desc,
                ),
                Ok(_) => {
                    let mut g = genesis.clone();
                    g.in_longest_chain = false;
                    let r2 = futures_catch(AssertUnwindSafe(fresh.add_block(g))).await;
                    if r2 != Ok(AddClass::OnChain) {
                        summary.oracle_failure(
                            case_no,
                            &format!("[genesis-{}] genuine first block refused after the stripped copy was offered: {:?}", variant, r2),
                            &desc,
                        );
                    }
                }
            }
            if distinct.insert(format!("genesis{}{}", variant, gp)) {
                summary.nontrivial += 1;
            }
            summary.case_descs.push(desc);
            case_no += 1;
        }
    }

    // ---- scripted: the fetched block must be the advertised one (VerificationThread::verify_block) ----
    // a peer announces (id, hash) of block A and serves other bytes: nothing may reach consensus and
    // the peer's invalid-block counter moves; the honest answer is forwarded under the advertised hash
    {
        let mut wrng = Rng::new(args.seed * 15_485_863 + 5);
        let w = build_world(8, 3, &mut wrng).await;
        let a = w.tip.clone();
        let pa = w.node.blockchain.get_block(&a.previous_block_hash).cloned().unwrap();
        let (tx_cons, mut rx_cons) = tokio::sync::mpsc::channel::<ConsensusEvent>(100);
        let (tx_stat, _rx_stat) = tokio::sync::mpsc::channel::<String>(10_000);
        let mut peers = PeerCollection::default();
        peers.index_to_peers.insert(1, Peer::new(1));
        let peers = Arc::new(RwLock::new(peers));
        let params = Params { genesis_period: 8, ..Params::default() };
        let scratch = Node::new(&params, 3);
        let sv = |n: &str| StatVariable::new(n.to_string(), STAT_BIN_COUNT, tx_stat.clone());
        let mut vt = VerificationThread {
            sender_to_consensus: tx_cons.clone(),
            blockchain_lock: Arc::new(RwLock::new(scratch.blockchain)),
            peer_lock: peers.clone(),
            wallet_lock: scratch.wallet_lock.clone(),
            processed_txs: sv("v::txs"),
            processed_blocks: sv("v::blocks"),
            processed_msgs: sv("v::msgs"),
            invalid_txs: sv("v::invalid"),
            stat_sender: tx_stat.clone(),
        };
        let a_bytes = a.serialize_for_net(saito_core::core::consensus::block::BlockType::Full);
        let pa_bytes = pa.serialize_for_net(saito_core::core::consensus::block::BlockType::Full);
        let half_bytes = a_bytes[..a_bytes.len() / 2].to_vec();
        let mut flipped = a.hash;
        flipped[31] ^= 1;
        // (what, served bytes, advertised id, advertised hash, must be forwarded)
        let probes: Vec<(&str, &Vec<u8>, u64, [u8; 32], bool)> = vec![
            ("honest", &a_bytes, a.id, a.hash, true),
            ("other-block-under-advertised-hash", &pa_bytes, a.id, a.hash, false),
            ("same-id-other-hash", &pa_bytes, pa.id, a.hash, false),
            ("same-hash-other-id", &a_bytes, a.id + 1, a.hash, false),
            ("hash-one-bit-off", &a_bytes, a.id, flipped, false),
            ("truncated", &half_bytes, a.id, a.hash, false),
        ];
        for (what, bytes, id, h, want) in probes {
            {
                let mut p = peers.write().await;
                let peer = p.index_to_peers.get_mut(&1).unwrap();
                peer.invalid_block_limiter = saito_core::core::consensus::peers::rate_limiter::RateLimiter::builder(1, std::time::Duration::from_secs(3600));
            }
            let r = futures_catch(AssertUnwindSafe(vt.verify_block(bytes, 1, h, id))).await;
            let mut forwarded = None;
            while let Ok(ev) = rx_cons.try_recv() {
                if let ConsensusEvent::BlockFetched { block, .. } = ev {
                    forwarded = Some((block.id, block.hash));
                }
            }
            let counted = {
                let mut p = peers.write().await;
                p.index_to_peers.get_mut(&1).unwrap().invalid_block_limiter.has_limit_exceeded(0)
            };
            let desc = format!(
                "{{\"case\":{},\"edit\":\"fetch-{}\",\"order\":\"verify_block\",\"advertised_id\":{},\"forwarded\":{},\"peer_counted_invalid\":{}}}",
                case_no,
                what,
                id,
                forwarded.is_some(),
                counted
            );
            summary.count("edit", &format!("fetch-{}", what));
            summary.count("result", &format!("fetch-{}:verify_block:forwarded={} counted={}", what, forwarded.is_some(), counted));
            if let Err(m) = r {
                summary.oracle_failure(case_no, &format!("[fetch-{}] verify_block panicked: {}", what, m), &desc);
            } else if want {
                if forwarded != Some((id, h)) {
                    summary.oracle_failure(case_no, &format!("[fetch-{}] the honestly served block was not forwarded under its advertised id/hash: {:?}", what, forwarded.map(|x| x.0)), &desc);
                }
                if counted {
                    summary.oracle_failure(case_no, &format!("[fetch-{}] honest peer was counted as serving an invalid block", what), &desc);
                }
            } else {
                if let Some((fid, fh)) = forwarded {
                    summary.oracle_failure(
                        case_no,
                        &format!(
                            "[fetch-{}] a block other than the advertised one reached consensus: advertised ({}, {}..), forwarded ({}, {}..)",
                            what,
                            id,
                            hex::encode(&h[..4]),
                            fid,
                            hex::encode(&fh[..4])
                        ),
                        &desc,
                    );
                }
                if !counted {
                    summary.oracle_failure(case_no, &format!("[fetch-{}] serving a block that is not the advertised one was not counted against the peer", what), &desc);
                }
            }
            // model side: trivial case (unedited block A) so that case numbers stay aligned
            let sig_ok = verify_signature(&a.pre_hash, &a.signature, &a.creator);
            let root_ok = a.merkle_root == a.generate_merkle_root(false, false);
            let (case_g, _) = model_case(&a, &a.transactions, sig_ok, root_ok);
            coq_cases.push(case_g);
            if distinct.insert(format!("fetch{}", what)) && !want {
                summary.nontrivial += 1;
            }
            summary.case_descs.push(desc);
            case_no += 1;
        }
    }
    summary.evaluations = case_no as u64;
    let header = "From Saito Require Import Base Bytes Merkle BlockId.\nFrom Coq Require Import String.\n\
        Definition check (c : (list Merkle.tx * list Merkle.tx * bool) * bool * ((N * N * String.string * String.string * list N) * String.string * bool)) : bool :=\n\
        let '((hdr_txs, txs, sig_ok), expected, ((id, ts, prev, creator, nums), signed_wo_root, struct_ok)) := c in\n\
        match merkle_root_of hdr_txs with\n\
        | Ok r => Bool.eqb (identity_checks (mkAB (mkH 0 0 [] [] r []) txs sig_ok)) expected\n\
                  && eqb_lN (hdr_bytes (mkH id ts (of_hex prev) (of_hex creator) r nums)) (of_hex signed_wo_root)\n\
                  && struct_ok\n\
        | _ => false end.";
    let files = gal::write_shards(
        &format!("{}/cases", args.out),
        "C06",
        header,
        "(list Merkle.tx * list Merkle.tx * bool) * bool * ((N * N * String.string * String.string * list N) * String.string * bool)",
        &coq_cases,
        args.shards,
    )
    .unwrap();
    summary.case_files = files;
    summary.write(&args.out);
}
