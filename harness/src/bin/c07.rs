//! C07 — every block the node produces is one every node accepts.
//!
//! Scenarios on a real in-memory node (`world.rs`): a producer and a second, independent
//! node fed the same chain.  Every round fills the producer's pool through the real intake
//! (`add_transaction_if_validates`, `add_golden_ticket`), calls the real
//! `Mempool::bundle_block` exactly as `ConsensusThread::bundle_block` does (golden ticket =
//! `golden_tickets.get(tip hash)`), and offers a produced block to both nodes.
//!
//! Direct oracle: a produced block is accepted (on the longest chain) by both nodes; the
//! header of the produced block equals, field by field, the `ConsensusValues` that
//! `generate_consensus_values` returns for the finished block on the second node; a
//! rejected own block is retried (producer liveness); a bundle that passes
//! `can_bundle_block` yields a block; no panic.
//! Correspondence: every round is also a case of `Producer.round` (coq/model/Producer.v).
use std::collections::{BTreeMap, BTreeSet};
use std::future::Future;
use std::panic::{catch_unwind, AssertUnwindSafe};

use std::sync::atomic::{AtomicU64, Ordering};
use std::sync::Arc;
use std::time::Duration;

use saito_core::core::consensus::block::{Block, BlockType, ConsensusValues};
use saito_core::core::consensus::blockchain::Blockchain;
use saito_core::core::consensus::mempool::Mempool;
use saito_core::core::consensus::peers::peer_collection::PeerCollection;
use saito_core::core::consensus_thread::{ConsensusEvent, ConsensusStats, ConsensusThread};
use saito_core::core::io::network::Network;
use saito_core::core::io::storage::Storage;
use saito_core::core::mining_thread::MiningEvent;
use saito_core::core::process::keep_time::{KeepTime, Timer};
use saito_core::core::process::process_event::ProcessEvent;
use saito_core::core::routing_thread::RoutingEvent;
use saito_core::core::util::configuration::Configuration;
use tokio::sync::mpsc::Receiver;
use tokio::sync::RwLock;
use saito_core::core::consensus::burnfee::BurnFee;
use saito_core::core::consensus::golden_ticket::GoldenTicket;
use saito_core::core::consensus::slip::{Slip, SlipType};
use saito_core::core::consensus::transaction::{Transaction, TransactionType};
use saito_core::core::consensus::wallet::Wallet;
use saito_core::core::defs::{SaitoHash, SaitoPrivateKey, SaitoPublicKey, SaitoUTXOSetKey};
use saito_core::core::util::crypto::hash;
use verif_harness::common::{jstr, Args, Summary};
use verif_harness::gal;
use verif_harness::rng::Rng;
use verif_harness::world::*;

// ---------------------------------------------------------------- known classes

type Rt = tokio::runtime::Runtime;
fn bo<F: Future>(rt: &Rt, f: F) -> F::Output {
    rt.block_on(f)
}

#[derive(Clone, Debug)]
enum Item {
    /// payer index into keys, fee, hops, spend the payer's biggest free slip
    Transfer { payer: usize, fee: u64, hops: usize, biggest: bool },
    /// spends an input of a transaction pooled earlier in this round
    Conflict,
    /// spends an output that the next block rebroadcasts
    Clash { payer: usize, fee: u64 },
    /// spends an output of block tip+1-genesis_period: the oldest the next block may still spend;
    /// `dust`: one of less than 1000 nolan
    EdgeSpend { payer: usize, fee: u64, dust: bool },
    /// transfer that also creates an output of 60 nolan for the payer
    MakeDust { payer: usize },
    Issuance,
    /// BlockStake-typed transaction of a payer (not the producer's wallet)
    ForeignStake { payer: usize },
}

#[derive(Clone, Copy, Debug, PartialEq, Eq)]
enum GtSpec {
    None,
    Valid,
    Invalid,
    Stale,
    /// solves the tip but names the all-zero key as miner
    ZeroKey,
}

#[derive(Clone, Debug)]
struct RoundSpec {
    items: Vec<Item>,
    /// a block of the second node confirms everything pooled so far (after `items`)
    peer_block: bool,
    /// the second node produces the next block from a transfer of its own making: the tip advances
    /// and the producer's pool stays as it is (after `items`)
    peer_own: bool,
    /// transactions and tickets arrive as ConsensusEvents and the block is produced by the
    /// ConsensusThread's timer event instead of direct calls of the mempool / blockchain
    via_thread: bool,
    /// a second transaction spending an input of a pooled transaction is put straight into
    /// Mempool.transactions (past the intake): Block::create's double-spend detection must fire
    inject_conflict: bool,
    /// a transaction spending an output that the next block rebroadcasts is put straight into
    /// Mempool.transactions (past the intake and the re-validation, which both refuse it):
    /// Block::create must leave it out and recompute the consensus values
    inject_aged: bool,
    /// the second chain [A', B'] on the tip's parent replaces the tip; A' spends the input of a
    /// transaction pooled just before (after `items`)
    fork: bool,
    /// pooled after the peer block / the fork
    items2: Vec<Item>,
    gt: GtSpec,
    /// offset of the bundle timestamp from the parent's timestamp (ms)
    gap: i64,
    label: String,
}

#[derive(Clone, Copy, Debug, PartialEq, Eq)]
enum Outcome {
    Panicked,
    GateClosed,
    NoStake,
    CreateFailed,
    Accepted,
    Rejected,
    Split,
}

struct RoundResult {
    outcome: Outcome,
    coq: String,
    desc: String,
    /// (what, known class or None = violation)
    findings: Vec<(String, Option<&'static str>)>,
    had_pool: bool,
}

struct Clock(AtomicU64);
impl KeepTime for Clock {
    fn get_timestamp_in_ms(&self) -> u64 {
        self.0.load(Ordering::SeqCst)
    }
}

/// A real ConsensusThread wired as saito-rust/src/main.rs does.  Its blockchain / mempool locks
/// hold placeholders; for the duration of a call the producer's Blockchain and Mempool are swapped
/// in, so the thread works on the very state the rest of the harness inspects.
struct ThreadRig {
    consensus: ConsensusThread,
    bc: Arc<RwLock<Blockchain>>,
    mp: Arc<RwLock<Mempool>>,
    clock: Arc<Clock>,
    rx_router: Receiver<RoutingEvent>,
    rx_miner: Receiver<MiningEvent>,
    rx_stat: Receiver<String>,
}

fn new_thread_rig(node: &Node, params: &Params) -> ThreadRig {
    let wallet = node.wallet_lock.clone();
    let cfg: Arc<RwLock<dyn Configuration + Send + Sync>> = Arc::new(RwLock::new(node.cfg.clone()));
    let peers = Arc::new(RwLock::new(PeerCollection::default()));
    let clock = Arc::new(Clock(AtomicU64::new(1)));
    let timer = Timer { time_reader: clock.clone(), hasten_multiplier: 1, start_time: 0 };
    let bc = Arc::new(RwLock::new(Blockchain::new(wallet.clone(), params.genesis_period, params.social_stake, params.social_stake_period)));
    let mp = Arc::new(RwLock::new(Mempool::new(wallet.clone())));
    let (tx_router, rx_router) = tokio::sync::mpsc::channel(4096);
    let (tx_miner, rx_miner) = tokio::sync::mpsc::channel(4096);
    let (tx_stat, rx_stat) = tokio::sync::mpsc::channel(4096);
    let consensus = ConsensusThread {
        mempool_lock: mp.clone(),
        blockchain_lock: bc.clone(),
        wallet_lock: wallet.clone(),
        generate_genesis_block: false,
        sender_to_router: tx_router,
        sender_to_miner: tx_miner,
        block_producing_timer: 0,
        timer: timer.clone(),
        network: Network::new(Box::new(MemIo::new(node.disk.clone())), peers, wallet.clone(), cfg.clone(), timer),
        storage: Storage::new(Box::new(MemIo::new(node.disk.clone()))),
        stats: ConsensusStats::new(tx_stat.clone()),
        txs_for_mempool: vec![],
        stat_sender: tx_stat,
        config_lock: cfg,
        produce_blocks_by_timer: true,
        delete_old_blocks: true,
    };
    ThreadRig { consensus, bc, mp, clock, rx_router, rx_miner, rx_stat }
}

struct Rig {
    rt: Rt,
    prod: Node,
    peer: Node,
    params: Params,
    keys: Vec<(SaitoPublicKey, SaitoPrivateKey)>,
    it: Interner,
    nonce: u64,
    used: BTreeSet<SaitoUTXOSetKey>,
    stats: BTreeMap<String, u64>,
    debug: bool,
    /// the longest chain, blocks as they were handed over (before add_block set in-memory flags)
    history: Vec<Block>,
    /// interned utxoset key -> block id it names
    key_blocks: BTreeMap<u64, u64>,
    /// signature of a transaction injected past the intake in this round
    injected: Option<saito_core::core::defs::SaitoSignature>,
    injected_aged: Option<saito_core::core::defs::SaitoSignature>,
    /// the last own block that both nodes accepted (as handed over) and the model's view of its parent
    last_ok: Option<(String, Block)>,
    /// the producer's ConsensusThread
    thread: ThreadRig,
    /// this round goes through the ConsensusThread (events, timer) instead of direct calls
    via_thread: bool,
}

fn ty_code(t: TransactionType) -> &'static str {
    match t {
        TransactionType::Normal => "TNormal",
        TransactionType::Fee => "TFee",
        TransactionType::GoldenTicket => "TGoldenTicket",
        TransactionType::ATR => "TATR",
        TransactionType::SPV => "TSPV",
        TransactionType::Issuance => "TIssuance",
        TransactionType::BlockStake => "TBlockStake",
        _ => "TOther",
    }
}

fn add_code(c: &AddClass) -> u64 {
    match c {
        AddClass::OnChain => 1,
        AddClass::Invalid => 0,
        other => 70 + other.code(),
    }
}

fn offset_value(pk: &SaitoPublicKey, tip_hash: &SaitoHash) -> u64 {
    let mut h: Vec<u8> = pk.to_vec();
    h.extend_from_slice(tip_hash);
    let hh = hash(&h);
    (u128::from_be_bytes(hh[16..32].try_into().unwrap()) % 5000) as u64
}

struct Atx {
    id: u64,
    sig: u64,
    coq: String,
    ty: TransactionType,
    inputs: Vec<SaitoUTXOSetKey>,
}

impl Rig {
    fn new(params: &Params, profile: u8, debug: bool) -> Rig {
        let rt = tokio::runtime::Builder::new_current_thread().enable_all().build().unwrap();
        let prod = Node::new(params, 1);
        let peer = Node::new(params, 2);
        let keys: Vec<_> = (1u8..=8).map(keypair).collect();
        let mut iss = vec![];
        match profile {
            1 => {
                // dust: one large and two tiny outputs per payer; the producer's own
                // outputs only when it has to stake
                for k in 2..6usize {
                    iss.push((keys[k].0, 1_000_000 + k as u64));
                    iss.push((keys[k].0, 2_000 + k as u64));
                    iss.push((keys[k].0, 2_100 + k as u64));
                }
                if params.social_stake > 0 {
                    for i in 0..3u64 {
                        iss.push((keys[0].0, 4 * params.social_stake + i));
                    }
                }
            }
            2 => {
                // poor producer: it can pay for two stakes, then has to wait until one unlocks
                if params.social_stake > 0 {
                    iss.push((keys[0].0, 2 * params.social_stake + 7));
                } else {
                    iss.push((keys[0].0, 2_000_000));
                }
                for k in 2..6usize {
                    for i in 0..8u64 {
                        iss.push((keys[k].0, 400_000 + 1000 * i + k as u64));
                    }
                }
            }
            _ => {
                for i in 0..8u64 {
                    iss.push((keys[0].0, 2_000_000 + i));
                }
                for k in 2..6usize {
                    for i in 0..8u64 {
                        iss.push((keys[k].0, 400_000 + 1000 * i + k as u64));
                    }
                }
            }
        }
        if params.social_stake > 0 {
            // the second node stakes for the blocks it produces
            for i in 0..6u64 {
                iss.push((keys[1].0, 4 * params.social_stake + 10 + i));
            }
        }
        let g = bo(&rt, make_genesis(&prod, 1_000_000, &iss)).unwrap();
        let thread = new_thread_rig(&prod, params);
        let mut r = Rig {
            rt,
            prod,
            peer,
            params: params.clone(),
            keys,
            it: Interner::default(),
            nonce: 0,
            used: BTreeSet::new(),
            stats: BTreeMap::new(),
            debug,
            history: vec![g.clone()],
            key_blocks: BTreeMap::new(),
            injected: None,
            injected_aged: None,
            last_ok: None,
            thread,
            via_thread: false,
        };
        let a = bo(&r.rt, r.prod.add_block(g.clone()));
        let b = bo(&r.rt, r.peer.add_block(g));
        assert!(a == AddClass::OnChain && b == AddClass::OnChain, "genesis not accepted");
        r
    }

    fn stat(&mut self, k: &str) {
        *self.stats.entry(k.to_string()).or_insert(0) += 1;
    }

    fn tip(&self) -> Block {
        self.prod.blockchain.get_latest_block().expect("tip").clone()
    }

    /// block id whose outputs the next block rebroadcasts (0 = none)
    fn rebroadcast_source(&self) -> u64 {
        let next = self.prod.blockchain.get_latest_block_id() + 1;
        let gp = self.params.genesis_period;
        if next > gp + 1 {
            next - (gp + 1)
        } else {
            0
        }
    }

    fn free(&self, owner: usize, clash_zone: bool) -> Vec<Slip> {
        let mut keys: Vec<SaitoUTXOSetKey> =
            self.prod.blockchain.utxoset.iter().filter(|(_, v)| **v).map(|(k, _)| *k).collect();
        keys.sort();
        let src = self.rebroadcast_source();
        let mut v = vec![];
        for k in keys {
            if self.used.contains(&k) {
                continue;
            }
            if let Ok(s) = Slip::parse_slip_from_utxokey(&k) {
                // outputs older than the rebroadcast source have left the window (collected as
                // fees or rebroadcast) although the utxoset may still list them: not C07's subject
                if s.block_id < src {
                    continue;
                }
                let in_zone = src > 0 && s.block_id == src;
                if in_zone != clash_zone {
                    continue;
                }
                if s.amount > 0
                    && s.public_key == self.keys[owner].0
                    && (s.slip_type == SlipType::Normal
                        || s.slip_type == SlipType::ATR
                        || s.slip_type == SlipType::MinerOutput
                        || s.slip_type == SlipType::RouterOutput)
                {
                    v.push(s);
                }
            }
        }
        v
    }

    fn hop_chain(&self, owner: usize, hops: usize) -> Vec<usize> {
        match hops {
            0 => vec![],
            1 => vec![owner, 0],
            2 => vec![owner, 6, 0],
            _ => vec![owner, 6, 7, 0],
        }
    }

    fn build_transfer(&mut self, slip: &Slip, owner: usize, fee: u64, hops: usize) -> Transaction {
        self.nonce += 1;
        let fee = fee.min(slip.amount);
        let rest = slip.amount - fee;
        let outputs: Vec<(SaitoPublicKey, u64)> = if rest > 1000 && self.nonce % 4 == 0 {
            vec![(self.keys[2 + (self.nonce as usize % 4)].0, rest / 3), (self.keys[owner].0, rest - rest / 3)]
        } else {
            vec![(self.keys[owner].0, rest)]
        };
        let mut tx = make_tx(&[slip.clone()], &outputs, &self.keys[owner].1, 5_000_000 + self.nonce);
        let chain = self.hop_chain(owner, hops);
        for w in chain.windows(2) {
            let (fpk, fsk) = self.keys[w[0]];
            tx.add_hop(&fsk, &fpk, &self.keys[w[1]].0);
        }
        tx
    }

    fn key_of(s: &Slip) -> SaitoUTXOSetKey {
        let mut c = s.clone();
        c.generate_utxoset_key();
        c.utxoset_key
    }

    // ------------------------------------------------------------ calls through the ConsensusThread
    fn thread_swap(&mut self) {
        let rt = &self.rt;
        let th = &self.thread;
        let prod = &mut self.prod;
        rt.block_on(async {
            let mut b = th.bc.write().await;
            std::mem::swap(&mut *b, &mut prod.blockchain);
            let mut m = th.mp.write().await;
            std::mem::swap(&mut *m, &mut prod.mempool);
        });
    }
    fn thread_drain(&mut self) {
        while self.thread.rx_router.try_recv().is_ok() {}
        while self.thread.rx_miner.try_recv().is_ok() {}
        while self.thread.rx_stat.try_recv().is_ok() {}
    }
    /// ConsensusEvent::NewTransaction, as the routing / verification threads deliver it
    fn thread_event(&mut self, tx: Transaction) -> Result<(), String> {
        self.thread_swap();
        let r = {
            let rt = &self.rt;
            let c = &mut self.thread.consensus;
            catch_unwind(AssertUnwindSafe(|| {
                rt.block_on(c.process_event(ConsensusEvent::NewTransaction { transaction: tx }));
            }))
        };
        self.thread_swap();
        self.thread_drain();
        r.map_err(|e| panic_text(&e))
    }
    /// ConsensusThread::bundle_block(ts, false): the replay of the queued transactions, the ticket
    /// lookup, produce_block, mempool.add_block + add_blocks_from_mempool
    fn thread_bundle(&mut self, ts: u64) -> Result<(), String> {
        self.thread_swap();
        let r = {
            let rt = &self.rt;
            let c = &mut self.thread.consensus;
            catch_unwind(AssertUnwindSafe(|| {
                rt.block_on(c.bundle_block(ts, false));
            }))
        };
        self.thread_swap();
        self.thread_drain();
        r.map_err(|e| panic_text(&e))
    }
    /// one timer event of `ms` milliseconds with the node's clock at `now`
    fn thread_tick(&mut self, now: u64, ms: u64) -> Result<(), String> {
        self.thread.clock.0.store(now, Ordering::SeqCst);
        self.thread_swap();
        let r = {
            let rt = &self.rt;
            let c = &mut self.thread.consensus;
            catch_unwind(AssertUnwindSafe(|| {
                rt.block_on(c.process_timer_event(Duration::from_millis(ms)));
            }))
        };
        self.thread_swap();
        self.thread_drain();
        r.map_err(|e| panic_text(&e))
    }

    /// submits through the real intake; returns whether the transaction is pooled afterwards
    fn submit(&mut self, tx: Transaction) -> bool {
        let sig = tx.signature;
        if self.via_thread {
            // delivered as an event, then taken in by the replay loop of ConsensusThread::bundle_block
            // (called with the tip's own timestamp, so that nothing is produced yet)
            let tip_ts = self.tip().timestamp;
            let _ = self.thread_event(tx);
            let _ = self.thread_bundle(tip_ts);
        } else {
            bo(&self.rt, self.prod.mempool.add_transaction_if_validates(tx, &self.prod.blockchain));
        }
        self.prod.mempool.transactions.contains_key(&sig)
    }

    fn apply_item(&mut self, item: &Item, rng: &mut Rng, log: &mut Vec<String>) {
        match item {
            Item::Transfer { payer, fee, hops, biggest } => {
                let mut f = self.free(*payer, false);
                if f.is_empty() {
                    log.push(format!("{{\"op\":\"transfer\",\"payer\":{},\"skipped\":\"no free output\"}}", payer));
                    return;
                }
                if *biggest {
                    f.sort_by_key(|s| std::cmp::Reverse(s.amount));
                } else {
                    let i = rng.below(f.len() as u64) as usize;
                    f.swap(0, i);
                }
                let s = f[0].clone();
                self.used.insert(Rig::key_of(&s));
                let tx = self.build_transfer(&s, *payer, *fee, *hops);
                let ok = self.submit(tx);
                self.stat(&format!("pool-item:transfer:hops={}:fee={}:{}", hops, fee_class(*fee), if ok { "pooled" } else { "refused" }));
                log.push(format!(
                    "{{\"op\":\"transfer\",\"payer\":{},\"input\":\"{}:{}:{} amount {}\",\"fee\":{},\"hops\":{},\"pooled\":{}}}",
                    payer, s.block_id, s.tx_ordinal, s.slip_index, s.amount, fee.min(&s.amount), hops, ok
                ));
            }
            Item::Conflict => {
                // an input of some pooled Normal transaction, spent again with another output
                let cand: Option<(Slip, usize)> = {
                    let mut sigs: Vec<_> = self.prod.mempool.transactions.keys().cloned().collect();
                    sigs.sort();
                    let mut found = None;
                    for sg in sigs {
                        let t = &self.prod.mempool.transactions[&sg];
                        if t.transaction_type == TransactionType::Normal && !t.from.is_empty() && t.from[0].amount > 0 {
                            if let Some(ix) = self.keys.iter().position(|(pk, _)| *pk == t.from[0].public_key) {
                                found = Some((t.from[0].clone(), ix));
                                break;
                            }
                        }
                    }
                    found
                };
                if let Some((s, owner)) = cand {
                    let tx = self.build_transfer(&s, owner, 77, 1);
                    let ok = self.submit(tx);
                    self.stat(&format!("pool-item:conflict:{}", if ok { "pooled" } else { "refused" }));
                    log.push(format!("{{\"op\":\"conflicting-spend\",\"payer\":{},\"pooled\":{}}}", owner, ok));
                }
            }
            Item::Clash { payer, fee } => {
                let f = self.free(*payer, true);
                if let Some(s) = f.first().cloned() {
                    self.used.insert(Rig::key_of(&s));
                    let tx = self.build_transfer(&s, *payer, *fee, 1);
                    let ok = self.submit(tx);
                    self.stat(&format!("pool-item:spends-output-due-for-rebroadcast:{}", if ok { "pooled" } else { "refused" }));
                    log.push(format!(
                        "{{\"op\":\"spend-output-due-for-rebroadcast\",\"payer\":{},\"input\":\"{}:{}:{} amount {}\",\"pooled\":{}}}",
                        payer, s.block_id, s.tx_ordinal, s.slip_index, s.amount, ok
                    ));
                }
            }
            Item::EdgeSpend { payer, fee, dust } => {
                let tipid = self.prod.blockchain.get_latest_block_id();
                let gp = self.params.genesis_period;
                if tipid + 1 < gp + 1 {
                    return;
                }
                let edge = tipid + 1 - gp;
                let f: Vec<Slip> = self.free(*payer, false).into_iter().filter(|s| s.block_id == edge && (s.amount < 1000) == *dust).collect();
                if let Some(sl) = f.first().cloned() {
                    self.used.insert(Rig::key_of(&sl));
                    let tx = self.build_transfer(&sl, *payer, *fee, 1);
                    let ok = self.submit(tx);
                    self.stat(&format!("pool-item:spends-oldest-spendable-output:{}", if ok { "pooled" } else { "refused" }));
                    log.push(format!(
                        "{{\"op\":\"spend-oldest-spendable-output\",\"payer\":{},\"input\":\"{}:{}:{} amount {}\",\"fee\":{},\"pooled\":{}}}",
                        payer, sl.block_id, sl.tx_ordinal, sl.slip_index, sl.amount, (*fee).min(sl.amount), ok
                    ));
                }
            }
            Item::MakeDust { payer } => {
                let mut f = self.free(*payer, false);
                f.sort_by_key(|s| std::cmp::Reverse(s.amount));
                if let Some(sl) = f.first().cloned() {
                    if sl.amount > 30_000 {
                        self.used.insert(Rig::key_of(&sl));
                        self.nonce += 1;
                        let outs = vec![(self.keys[*payer].0, 60u64), (self.keys[*payer].0, sl.amount - 60 - 20_000)];
                        let mut tx = make_tx(&[sl.clone()], &outs, &self.keys[*payer].1, 5_000_000 + self.nonce);
                        let (fpk, fsk) = self.keys[*payer];
                        tx.add_hop(&fsk, &fpk, &self.keys[0].0);
                        let ok = self.submit(tx);
                        log.push(format!("{{\"op\":\"transfer-creating-a-60-nolan-output\",\"payer\":{},\"pooled\":{}}}", payer, ok));
                    }
                }
            }
            Item::Issuance => {
                self.nonce += 1;
                let mut tx = Transaction::create_issuance_transaction(self.keys[3].0, 700_000 + self.nonce);
                tx.timestamp = 6_000_000 + self.nonce;
                tx.sign(&self.keys[3].1);
                let ok = self.submit(tx);
                self.stat(&format!("pool-item:issuance:{}", if ok { "pooled" } else { "refused" }));
                log.push(format!("{{\"op\":\"issuance-typed\",\"pooled\":{}}}", ok));
            }
            Item::ForeignStake { payer } => {
                let f = self.free(*payer, false);
                if let Some(s) = f.first().cloned() {
                    self.nonce += 1;
                    let mut tx = Transaction::default();
                    tx.transaction_type = TransactionType::BlockStake;
                    tx.timestamp = 7_000_000 + self.nonce;
                    let mut inp = s.clone();
                    inp.generate_utxoset_key();
                    tx.add_from_slip(inp);
                    let stake = self.params.social_stake.min(s.amount);
                    let mut o = Slip::default();
                    o.public_key = self.keys[*payer].0;
                    o.amount = stake;
                    o.slip_type = SlipType::BlockStake;
                    tx.add_to_slip(o);
                    if s.amount > stake {
                        let mut o2 = Slip::default();
                        o2.public_key = self.keys[*payer].0;
                        o2.amount = s.amount - stake;
                        o2.slip_type = SlipType::Normal;
                        tx.add_to_slip(o2);
                    }
                    tx.sign(&self.keys[*payer].1);
                    self.used.insert(Rig::key_of(&s));
                    let ok = self.submit(tx);
                    self.stat(&format!("pool-item:foreign-stake:{}", if ok { "pooled" } else { "refused" }));
                    log.push(format!("{{\"op\":\"blockstake-typed-from-peer\",\"payer\":{},\"pooled\":{}}}", payer, ok));
                }
            }
        }
    }

    fn apply_gt(&mut self, spec: GtSpec, log: &mut Vec<String>) {
        let tip = self.tip();
        self.nonce += 1;
        let (pk, sk) = self.keys[0];
        let gt = match spec {
            GtSpec::None => return,
            GtSpec::Valid => mine_golden_ticket(tip.hash, tip.difficulty, pk, self.nonce),
            GtSpec::Invalid => {
                if tip.difficulty == 0 {
                    log.push("{\"op\":\"golden-ticket\",\"kind\":\"invalid\",\"skipped\":\"difficulty 0\"}".to_string());
                    return;
                }
                let mut r = hash(&self.nonce.to_be_bytes());
                loop {
                    let g = GoldenTicket::create(tip.hash, r, pk);
                    if !g.validate(tip.difficulty) {
                        break g;
                    }
                    r = hash(&r);
                }
            }
            GtSpec::ZeroKey => mine_golden_ticket(tip.hash, tip.difficulty, [0; 33], self.nonce),
            GtSpec::Stale => {
                let parent = match self.prod.blockchain.get_block(&tip.previous_block_hash) {
                    Some(p) => p.clone(),
                    None => return,
                };
                mine_golden_ticket(parent.hash, parent.difficulty, pk, self.nonce)
            }
        };
        let tx = bo(&self.rt, Wallet::create_golden_ticket_transaction(gt, &pk, &sk));
        if self.via_thread {
            let _ = self.thread_event(tx);
        } else {
            bo(&self.rt, self.prod.mempool.add_golden_ticket(tx));
        }
        self.stat(&format!("golden-ticket-pooled:{:?}", spec));
        log.push(format!("{{\"op\":\"golden-ticket\",\"kind\":\"{:?}\",\"tip_difficulty\":{}}}", spec, tip.difficulty));
    }

    /// puts a transaction that spends an input of a pooled Normal transaction straight into the
    /// pub map Mempool.transactions (no validation, no reservation, no work count)
    fn do_inject(&mut self, log: &mut Vec<String>) {
        let cand: Option<(Slip, usize)> = {
            let mut sigs: Vec<_> = self.prod.mempool.transactions.keys().cloned().collect();
            sigs.sort();
            let mut found = None;
            for sg in sigs {
                let t = &self.prod.mempool.transactions[&sg];
                if t.transaction_type == TransactionType::Normal && !t.from.is_empty() && t.from[0].amount > 0 {
                    if let Some(ix) = self.keys.iter().position(|(pk, _)| *pk == t.from[0].public_key) {
                        found = Some((t.from[0].clone(), ix));
                        break;
                    }
                }
            }
            found
        };
        if let Some((sl, owner)) = cand {
            let mut tx = self.build_transfer(&sl, owner, 33, 0);
            tx.generate(&self.prod.pk, 0, 0);
            self.injected = Some(tx.signature);
            self.prod.mempool.transactions.insert(tx.signature, tx);
            self.stat("pool-item:conflicting-spend-injected-past-the-intake");
            log.push(format!("{{\"op\":\"conflicting-spend-injected-into-Mempool.transactions\",\"input\":\"{}:{}:{} amount {}\"}}", sl.block_id, sl.tx_ordinal, sl.slip_index, sl.amount));
        }
    }

    // ------------------------------------------------------------ perturbed copies of an accepted block
    /// The last accepted own block, with ONE thing changed and re-signed by the producer, is offered
    /// to a third node that holds the chain up to its parent: it must be rejected (and the model's
    /// node_accepts, evaluated on the same block with the consensus values that node computes, must
    /// reject it as well).  Finally the unchanged block must be accepted by that node.
    fn perturb_subround(&mut self, rng: &mut Rng, count: usize) -> (Vec<String>, Vec<(String, Option<&'static str>)>, Vec<String>) {
        let mut coq = vec![];
        let mut findings = vec![];
        let mut log = vec![];
        let (view, good) = match &self.last_ok {
            Some(x) => x.clone(),
            None => return (coq, findings, log),
        };
        if self.history.last().map(|b| b.hash) != Some({
            let mut g = good.clone();
            let _ = g.generate();
            g.hash
        }) {
            return (coq, findings, log);
        }
        let mut scratch = Node::new(&self.params, 9);
        for b in &self.history[..self.history.len() - 1] {
            if bo(&self.rt, scratch.add_block(b.clone())) != AddClass::OnChain {
                self.stat("perturb:replay-failed");
                return (coq, findings, log);
            }
        }
        let parent = scratch.blockchain.get_latest_block().unwrap().clone();
        let sk = self.prod.sk;
        let has = |b: &Block, t: TransactionType| b.transactions.iter().position(|x| x.transaction_type == t);
        // the catalogue: (name, edit); an edit returns false if it does not apply to this block
        let n_kinds = 58usize;
        let mut chosen: Vec<usize> = vec![];
        for _ in 0..(count * 4) {
            let k = rng.below(n_kinds as u64) as usize;
            if !chosen.contains(&k) {
                chosen.push(k);
            }
        }
        let mut done = 0usize;
        for k in chosen {
            if done >= count {
                break;
            }
            let mut b = good.clone();
            let mut txs_changed = false;
            let name: String;
            macro_rules! fields {
                ($($i:expr => $f:ident),*) => {
                    match k % 22 { $($i => { if k < 22 { b.$f = b.$f.wrapping_add(1); Some(format!("{} + 1", stringify!($f))) } else if b.$f > 0 { b.$f -= 1; Some(format!("{} - 1", stringify!($f))) } else { None } })*, _ => None }
                };
            }
            if k < 44 {
                let r = fields!(0 => total_fees, 1 => total_fees_new, 2 => total_fees_atr, 3 => total_fees_cumulative, 4 => avg_total_fees,
                    5 => avg_total_fees_new, 6 => avg_total_fees_atr, 7 => total_payout_routing, 8 => total_payout_mining,
                    9 => total_payout_treasury, 10 => total_payout_graveyard, 11 => total_payout_atr, 12 => avg_payout_routing,
                    13 => avg_payout_mining, 14 => avg_payout_treasury, 15 => avg_payout_graveyard, 16 => avg_payout_atr,
                    17 => avg_fee_per_byte, 18 => fee_per_byte, 19 => avg_nolan_rebroadcast_per_block, 20 => burnfee, 21 => difficulty);
                match r {
                    Some(nm) => name = nm,
                    None => continue,
                }
            } else {
                match k {
                    44 => {
                        b.treasury += 1;
                        name = "treasury + 1".to_string();
                    }
                    45 => {
                        b.graveyard += 1;
                        name = "graveyard + 1".to_string();
                    }
                    46 => {
                        b.previous_block_unpaid += 1;
                        name = "previous_block_unpaid + 1".to_string();
                    }
                    47 => {
                        b.id += 1;
                        name = "id + 1".to_string();
                    }
                    48 => {
                        if b.treasury == 0 {
                            continue;
                        }
                        b.treasury -= 1;
                        name = "treasury - 1".to_string();
                    }
                    49 => match has(&b, TransactionType::Fee) {
                        Some(i) => {
                            b.transactions.remove(i);
                            txs_changed = true;
                            name = "fee transaction dropped".to_string();
                        }
                        None => continue,
                    },
                    50 => match b.transactions.iter().rposition(|x| x.transaction_type == TransactionType::ATR) {
                        Some(i) => {
                            b.transactions.remove(i);
                            txs_changed = true;
                            name = "last rebroadcast dropped".to_string();
                        }
                        None => continue,
                    },
                    51 => match has(&b, TransactionType::ATR) {
                        Some(i) => {
                            b.transactions[i].to[0].amount += 1;
                            txs_changed = true;
                            name = "rebroadcast output + 1".to_string();
                        }
                        None => continue,
                    },
                    52 => match has(&b, TransactionType::Fee) {
                        Some(i) if !b.transactions[i].to.is_empty() => {
                            b.transactions[i].to[0].amount += 1;
                            txs_changed = true;
                            name = "fee transaction output + 1".to_string();
                        }
                        _ => continue,
                    },
                    53 => match has(&b, TransactionType::GoldenTicket) {
                        Some(i) => {
                            b.transactions.remove(i);
                            txs_changed = true;
                            name = "golden ticket dropped, fee transaction kept".to_string();
                        }
                        None => continue,
                    },
                    54 => {
                        // a second spend of an input the block already spends
                        let cand = b.transactions.iter().find(|x| x.transaction_type == TransactionType::Normal && !x.from.is_empty() && x.from[0].amount > 0).map(|x| x.from[0].clone());
                        match cand {
                            Some(sl) => match self.keys.iter().position(|(pk, _)| *pk == sl.public_key) {
                                Some(owner) => {
                                    let mut tx = self.build_transfer(&sl, owner, 21, 0);
                                    tx.generate(&self.prod.pk, 0, 0);
                                    let at = b.transactions.iter().position(|x| x.transaction_type == TransactionType::ATR || x.transaction_type == TransactionType::Fee).unwrap_or(b.transactions.len());
                                    b.transactions.insert(at, tx);
                                    txs_changed = true;
                                    name = "second spend of an input of the block".to_string();
                                }
                                None => continue,
                            },
                            None => continue,
                        }
                    }
                    55 => match has(&b, TransactionType::BlockStake) {
                        Some(i) if self.params.social_stake > 0 => {
                            b.transactions.remove(i);
                            txs_changed = true;
                            name = "staking transaction dropped".to_string();
                        }
                        _ => continue,
                    },
                    56 => match has(&b, TransactionType::ATR) {
                        Some(i) => {
                            let t = b.transactions[i].clone();
                            b.transactions.insert(i, t);
                            txs_changed = true;
                            name = "rebroadcast doubled".to_string();
                        }
                        None => continue,
                    },
                    _ => {
                        if b.previous_block_unpaid == 0 {
                            continue;
                        }
                        b.previous_block_unpaid -= 1;
                        name = "previous_block_unpaid - 1".to_string();
                    }
                }
            }
            if txs_changed {
                b.merkle_root = b.generate_merkle_root(false, false);
            }
            resign(&mut b, &sk);
            // what the third node computes for this block
            let mut fin = b.clone();
            let _ = fin.generate();
            let cv = bo(&self.rt, fin.generate_consensus_values(&scratch.blockchain, &scratch.storage, &scratch.cfg));
            let cv_coq = self.coq_cv(&cv);
            let abs: Vec<Atx> = fin.transactions.iter().map(|t| self.atx(t)).collect();
            let mut valid_tbl: Vec<(u64, bool)> = vec![];
            let mut gt_tbl: Vec<(u64, bool)> = vec![];
            for (t, a) in fin.transactions.iter().zip(abs.iter()) {
                if !valid_tbl.iter().any(|(i, _)| *i == a.id) {
                    valid_tbl.push((a.id, t.validate(&scratch.blockchain.utxoset, &scratch.blockchain, true)));
                }
                if a.ty == TransactionType::GoldenTicket {
                    gt_tbl.push((a.id, gt_valid(&t.data, &parent)));
                }
            }
            let ids: Vec<u64> = abs.iter().map(|a| a.id).collect();
            let mr_real = fin.generate_merkle_root(false, false);
            let mroot_tbl = format!("[({}, {})]", gal::nlist(&ids), self.it.get(&mr_real));
            let signed = saito_core::core::util::crypto::verify_signature(&fin.pre_hash, &fin.signature, &fin.creator);
            let econ = [
                fin.total_fees, fin.total_fees_new, fin.total_fees_atr, fin.total_fees_cumulative, fin.avg_total_fees,
                fin.avg_total_fees_new, fin.avg_total_fees_atr, fin.total_payout_routing, fin.total_payout_mining,
                fin.total_payout_treasury, fin.total_payout_graveyard, fin.total_payout_atr, fin.avg_payout_routing,
                fin.avg_payout_mining, fin.avg_payout_treasury, fin.avg_payout_graveyard, fin.avg_payout_atr,
                fin.avg_fee_per_byte, fin.fee_per_byte, fin.avg_nolan_rebroadcast_per_block, fin.burnfee, fin.difficulty,
            ];
            let block_coq = format!(
                "mkB {} {} {} {} {} {} {} (mkE {}) {} {} {} {} {} {}",
                fin.id,
                fin.timestamp,
                self.it.get(&fin.previous_block_hash),
                self.it.get(&fin.creator.to_vec()),
                fin.previous_block_unpaid,
                fin.treasury,
                fin.graveyard,
                econ.iter().map(|x| x.to_string()).collect::<Vec<_>>().join(" "),
                gal::list(&abs.iter().map(|a| format!("({})", a.coq)).collect::<Vec<_>>()),
                self.it.get(&fin.merkle_root),
                gal::boolean(signed),
                fin.total_work,
                fin.total_rebroadcast_slips,
                self.it.get(&fin.rebroadcast_hash)
            );
            let r = {
                let rt = &self.rt;
                let sc = &mut scratch;
                let bb = b.clone();
                catch_unwind(AssertUnwindSafe(|| rt.block_on(sc.add_block(bb)))).unwrap_or(AddClass::Panicked)
            };
            self.key_blocks.clear();
            self.stat(&format!("perturbed-block:{}", if r == AddClass::Invalid { "rejected" } else { "NOT-rejected" }));
            self.stat(&format!("perturbation:{}", name));
            log.push(format!("{{\"perturbation\":{},\"third_node\":\"{:?}\"}}", jstr(&name), r));
            if r == AddClass::Panicked {
                findings.push((format!("the third node panicked on the accepted block {} with: {}", good.id, name), None));
                return (coq, findings, log);
            }
            if r != AddClass::Invalid {
                findings.push((format!("block {} with [{}] (re-signed by its producer) was not rejected by a node holding its parent: {:?}", good.id, name, r), None));
            }
            coq.push(format!(
                "(mkVC ({}) ({}) ({}) {} {} {} {})",
                view,
                block_coq,
                cv_coq,
                gal::list(&valid_tbl.iter().map(|(i, b)| format!("({}, {})", i, gal::boolean(*b))).collect::<Vec<_>>()),
                gal::list(&gt_tbl.iter().map(|(i, b)| format!("({}, {})", i, gal::boolean(*b))).collect::<Vec<_>>()),
                mroot_tbl,
                add_code(&r)
            ));
            done += 1;
            if r != AddClass::Invalid {
                // the node moved: stop here
                return (coq, findings, log);
            }
        }
        // the unchanged block: the third node is a validator like any other
        let r = bo(&self.rt, scratch.add_block(good.clone()));
        if r != AddClass::OnChain {
            findings.push((format!("the unchanged block {} is not accepted by the third node after the perturbed copies: {:?}", good.id, r), None));
        }
        (coq, findings, log)
    }

    /// puts a transaction that spends an output of the block the next block rebroadcasts straight
    /// into Mempool.transactions
    fn do_inject_aged(&mut self, log: &mut Vec<String>) {
        for payer in 2..6usize {
            let f: Vec<Slip> = self.free(payer, true).into_iter().filter(|sl| sl.amount > 100_000).collect();
            if let Some(sl) = f.first().cloned() {
                self.used.insert(Rig::key_of(&sl));
                let mut tx = self.build_transfer(&sl, payer, 900, 1);
                tx.generate(&self.prod.pk, 0, 0);
                self.injected_aged = Some(tx.signature);
                self.prod.mempool.transactions.insert(tx.signature, tx);
                self.prod.mempool.rebuild_utxo_map();
                self.stat("pool-item:aged-spend-injected-past-the-intake");
                log.push(format!("{{\"op\":\"spend-of-output-due-for-rebroadcast-injected-into-Mempool.transactions\",\"input\":\"{}:{}:{} amount {}\"}}", sl.block_id, sl.tx_ordinal, sl.slip_index, sl.amount));
                return;
            }
        }
    }

    // ------------------------------------------------------------ blocks of other producers
    fn needs_gt(node: &Node, parent: SaitoHash) -> bool {
        !node.blockchain.is_golden_ticket_count_valid(parent, false, false, false)
    }

    /// the second node produces the next block and puts every pooled Normal transaction of the
    /// producer into it (both nodes add it): the producer's pool is emptied by somebody else's block
    fn do_peer_block(&mut self, own: bool, log: &mut Vec<String>, findings: &mut Vec<(String, Option<&'static str>)>) {
        let tip = self.tip();
        let mut txs: Vec<Transaction> = self
            .prod
            .mempool
            .transactions
            .values()
            .filter(|t| t.transaction_type == TransactionType::Normal)
            .cloned()
            .collect();
        txs.sort_by_key(|t| t.signature);
        if own {
            // a transfer the producer has never seen
            txs.clear();
            for p in 2..6usize {
                if let Some(sl) = self.free(p, false).first().cloned() {
                    self.used.insert(Rig::key_of(&sl));
                    txs.push(self.build_transfer(&sl, p, 10, 0));
                    break;
                }
            }
        }
        // transactions that collide with a rebroadcast of this block would be left out: keep it simple
        let src = self.rebroadcast_source();
        txs.retain(|t| !t.from.iter().any(|s| s.amount > 0 && src > 0 && s.block_id == src));
        if txs.is_empty() {
            return;
        }
        self.nonce += 1;
        let ts = tip.timestamp + 2 * self.params.heartbeat + 5_000;
        let with_gt = Rig::needs_gt(&self.peer, tip.hash);
        let n = txs.len();
        let b = if self.params.social_stake > 0 {
            // with staking the second node produces like any node: its own pool, ticket map and
            // bundle_block (which builds the staking transaction from its wallet)
            for t in txs {
                bo(&self.rt, self.peer.mempool.add_transaction_if_validates(t, &self.peer.blockchain));
            }
            if with_gt {
                let (pk, sk) = (self.peer.pk, self.peer.sk);
                let gttx = bo(&self.rt, golden_ticket_tx(tip.hash, tip.difficulty, &pk, &sk, self.nonce));
                bo(&self.rt, self.peer.mempool.add_golden_ticket(gttx));
            }
            let gt = self.peer.mempool.golden_tickets.get(&tip.hash).map(|(t, _)| t.clone());
            let made = {
                let rt = &self.rt;
                let peer = &mut self.peer;
                rt.block_on(peer.mempool.bundle_block(&peer.blockchain, ts, gt, &peer.cfg, &peer.storage))
            };
            match made {
                Some(b) => b,
                None => {
                    self.stat("peer-block:not-produced");
                    log.push("{\"op\":\"peer-block\",\"skipped\":\"the second node's bundle_block produced nothing\"}".to_string());
                    // leave its pool empty for the next time
                    self.peer.mempool.transactions.clear();
                    self.peer.mempool.rebuild_utxo_map();
                    return;
                }
            }
        } else {
            match bo(&self.rt, make_block(&self.peer, tip.hash, ts, txs, with_gt, self.nonce)) {
                Ok(b) => b,
                Err(e) => {
                    self.stat("peer-block:create-failed");
                    log.push(format!("{{\"op\":\"peer-block\",\"skipped\":{}}}", jstr(&e)));
                    return;
                }
            }
        };
        let r1 = bo(&self.rt, self.prod.add_block(b.clone()));
        let r2 = bo(&self.rt, self.peer.add_block(b.clone()));
        self.stat(&format!("peer-block:{:?}", r1));
        log.push(format!("{{\"op\":\"peer-block\",\"own_transactions_only\":{},\"txs\":{},\"producer\":\"{:?}\",\"second\":\"{:?}\",\"pool_after\":{},\"cached_work_after\":{}}}", own, n, r1, r2, self.prod.mempool.transactions.len(), self.prod.mempool.get_routing_work_available()));
        if r1 == AddClass::OnChain && r2 == AddClass::OnChain {
            self.history.push(b);
            if !own {
                self.used.clear();
            }
        } else if r1 != r2 {
            findings.push((format!("the two nodes disagree on a block of the second node: {:?} / {:?}", r1, r2), None));
        }
    }

    /// A transaction X of a payer is pooled; a third node that holds the chain up to the tip's
    /// parent P builds A' (spending X's input differently) and B' on it; both nodes receive A'
    /// (off chain) and B' (reorganisation): the tip is replaced and X conflicts with the EARLIER
    /// block of the new branch.
    fn do_fork(&mut self, rng: &mut Rng, log: &mut Vec<String>, findings: &mut Vec<(String, Option<&'static str>)>) {
        if self.params.social_stake > 0 || self.history.len() < 3 {
            return;
        }
        let tip = self.tip();
        let parent = self.history[self.history.len() - 2].clone();
        let hb = self.params.heartbeat;
        if tip.timestamp < parent.timestamp + 2 * hb {
            return;
        }
        // X: spends an output that exists at P and is not about to be rebroadcast at either height
        let payer = rng.range(2, 5) as usize;
        let cand: Vec<Slip> = self.free(payer, false).into_iter().filter(|s| s.block_id < tip.id).collect();
        let src_next = self.rebroadcast_source();
        let cand: Vec<Slip> = cand.into_iter().filter(|s| src_next == 0 || s.block_id > src_next).collect();
        let o = match cand.first() {
            Some(o) => o.clone(),
            None => return,
        };
        let other: Option<(usize, Slip)> = (2..6usize)
            .filter(|p| *p != payer)
            .filter_map(|p| self.free(p, false).into_iter().filter(|s| s.block_id < tip.id && (src_next == 0 || s.block_id > src_next)).next().map(|s| (p, s)))
            .next();
        let (p2, o2) = match other {
            Some(x) => x,
            None => return,
        };
        self.used.insert(Rig::key_of(&o));
        let x = self.build_transfer(&o, payer, 700, 1);
        let pooled = self.submit(x);
        let xprime = self.build_transfer(&o, payer, 900, 0);
        let y = self.build_transfer(&o2, p2, 100, 0);
        // the third node with the chain up to P
        let mut alt = Node::new(&self.params, 9);
        for b in &self.history[..self.history.len() - 1] {
            let r = bo(&self.rt, alt.add_block(b.clone()));
            if r != AddClass::OnChain {
                self.stat("fork:replay-failed");
                return;
            }
        }
        self.nonce += 1;
        let a_ts = tip.timestamp;
        let gt_a = Rig::needs_gt(&alt, parent.hash);
        let a = match bo(&self.rt, make_block(&alt, parent.hash, a_ts, vec![xprime], gt_a, self.nonce)) {
            Ok(b) => b,
            Err(_) => {
                self.stat("fork:create-failed");
                return;
            }
        };
        if bo(&self.rt, alt.add_block(a.clone())) != AddClass::OnChain {
            self.stat("fork:A-invalid");
            return;
        }
        self.nonce += 1;
        let gt_b = Rig::needs_gt(&alt, a.hash);
        let bb = match bo(&self.rt, make_block(&alt, a.hash, a_ts + 2 * hb + 5_000, vec![y], gt_b, self.nonce)) {
            Ok(b) => b,
            Err(_) => {
                self.stat("fork:create-failed");
                return;
            }
        };
        if bo(&self.rt, alt.add_block(bb.clone())) != AddClass::OnChain {
            self.stat("fork:B-invalid");
            return;
        }
        let ra1 = bo(&self.rt, self.prod.add_block(a.clone()));
        let ra2 = bo(&self.rt, self.peer.add_block(a.clone()));
        let rb1 = bo(&self.rt, self.prod.add_block(bb.clone()));
        let rb2 = bo(&self.rt, self.peer.add_block(bb.clone()));
        let adopted = rb1 == AddClass::OnChain && rb2 == AddClass::OnChain;
        self.stat(&format!("fork:{}", if adopted { "adopted" } else { "not-adopted" }));
        let still = self.prod.mempool.transactions.values().any(|t| t.from.iter().any(|s| s.amount > 0 && Rig::key_of(s) == Rig::key_of(&o)));
        log.push(format!(
            "{{\"op\":\"fork-replaces-tip\",\"pooled_tx_spends\":\"{}:{}:{} amount {}\",\"pooled\":{},\"A\":[\"{:?}\",\"{:?}\"],\"B\":[\"{:?}\",\"{:?}\"],\"conflicting_tx_still_pooled\":{}}}",
            o.block_id, o.tx_ordinal, o.slip_index, o.amount, pooled, ra1, ra2, rb1, rb2, still
        ));
        if ra1 != ra2 || rb1 != rb2 {
            findings.push((format!("the two nodes disagree on the fork blocks: A' {:?}/{:?}, B' {:?}/{:?}", ra1, ra2, rb1, rb2), None));
        }
        if adopted {
            self.history.pop();
            self.history.push(a);
            self.history.push(bb);
            self.used.clear();
        }
    }

    // ------------------------------------------------------------ abstraction
    fn atx(&mut self, tx: &Transaction) -> Atx {
        let mut c = tx.clone();
        c.generate(&self.prod.pk, 0, 0);
        let id = self.it.get(&hash(&c.serialize_for_signature()));
        let sig = self.it.get(&c.signature);
        let inputs: Vec<SaitoUTXOSetKey> = c.from.iter().filter(|s| s.amount > 0).map(|s| s.utxoset_key).collect();
        let in_ids: Vec<u64> = inputs.iter().map(|k| self.it.get(k)).collect();
        for (k, id) in inputs.iter().zip(in_ids.iter()) {
            if let Ok(sl) = Slip::parse_slip_from_utxokey(k) {
                self.key_blocks.insert(*id, sl.block_id);
            }
        }
        let atr_slips = if c.transaction_type == TransactionType::ATR {
            c.to.iter().filter(|s| s.slip_type == SlipType::ATR).count() as u64
        } else {
            0
        };
        let target = if c.transaction_type == TransactionType::GoldenTicket && c.data.len() == 97 {
            self.it.get(&c.data[0..32])
        } else {
            0
        };
        let own = c.from.iter().all(|sl| sl.public_key == self.prod.pk);
        let coq = format!(
            "mkTx {} {} {} {} {} {} {} {}",
            id,
            sig,
            ty_code(c.transaction_type),
            c.total_work_for_me,
            gal::nlist(&in_ids),
            atr_slips,
            target,
            gal::boolean(own)
        );
        Atx { id, sig, coq, ty: c.transaction_type, inputs }
    }

    fn coq_opt_tx(&mut self, t: &Option<Transaction>) -> String {
        match t {
            Some(t) => format!("(Some ({}))", self.atx(t).coq),
            None => "None".to_string(),
        }
    }

    fn coq_cv(&mut self, cv: &ConsensusValues) -> String {
        let e = [
            cv.total_fees,
            cv.total_fees_new,
            cv.total_fees_atr,
            cv.total_fees_cumulative,
            cv.avg_total_fees,
            cv.avg_total_fees_new,
            cv.avg_total_fees_atr,
            cv.total_payout_routing,
            cv.total_payout_mining,
            cv.total_payout_treasury,
            cv.total_payout_graveyard,
            cv.total_payout_atr,
            cv.avg_payout_routing,
            cv.avg_payout_mining,
            cv.avg_payout_treasury,
            cv.avg_payout_graveyard,
            cv.avg_payout_atr,
            cv.avg_fee_per_byte,
            cv.fee_per_byte,
            cv.avg_nolan_rebroadcast_per_block,
            cv.burnfee,
            cv.difficulty,
        ];
        let es: Vec<String> = e.iter().map(|x| x.to_string()).collect();
        let rb: Vec<String> = cv.rebroadcasts.iter().map(|t| format!("({})", self.atx(t).coq)).collect();
        let fee = self.coq_opt_tx(&cv.fee_transaction);
        format!(
            "mkCv (mkE {}) {} {} {} {}",
            es.join(" "),
            gal::list(&rb),
            cv.total_rebroadcast_slips,
            self.it.get(&cv.rebroadcast_hash),
            fee
        )
    }

    fn pool_obs(&mut self) -> Vec<Vec<u64>> {
        let mut sigs: Vec<u64> = {
            let keys: Vec<_> = self.prod.mempool.transactions.keys().cloned().collect();
            keys.iter().map(|s| self.it.get(s)).collect()
        };
        sigs.sort();
        let mut gts: Vec<u64> = {
            let keys: Vec<_> = self.prod.mempool.golden_tickets.keys().cloned().collect();
            keys.iter().map(|s| self.it.get(s)).collect()
        };
        gts.sort();
        vec![
            sigs,
            vec![self.prod.mempool.get_routing_work_available(), if self.prod.mempool.new_tx_added { 1 } else { 0 }],
            gts,
        ]
    }

    // ------------------------------------------------------------ one production round
    fn exec_round(&mut self, spec: &RoundSpec, rng: &mut Rng) -> RoundResult {
        let mut log: Vec<String> = vec![];
        let mut findings: Vec<(String, Option<&'static str>)> = vec![];
        self.via_thread = spec.via_thread;
        if spec.via_thread {
            self.stat("path:consensus-thread");
            log.push("{\"op\":\"round-through-ConsensusThread\"}".to_string());
        } else {
            self.stat("path:direct-calls");
        }
        for item in &spec.items {
            self.apply_item(item, rng, &mut log);
        }
        if spec.peer_block {
            self.do_peer_block(false, &mut log, &mut findings);
        }
        if spec.peer_own {
            self.do_peer_block(true, &mut log, &mut findings);
        }
        if spec.fork {
            self.do_fork(rng, &mut log, &mut findings);
        }
        for item in &spec.items2 {
            self.apply_item(item, rng, &mut log);
        }
        self.injected = None;
        if spec.inject_conflict {
            self.do_inject(&mut log);
        }
        self.injected_aged = None;
        if spec.inject_aged {
            self.do_inject_aged(&mut log);
        }
        self.apply_gt(spec.gt, &mut log);

        let tip = self.tip();
        let gp = self.params.genesis_period;
        let hb = self.params.heartbeat;
        let ts: u64 = (tip.timestamp as i64 + spec.gap).max(0) as u64;
        let gt_tx: Option<Transaction> = self.prod.mempool.golden_tickets.get(&tip.hash).map(|(t, _)| t.clone());
        // since fixes e0300b2 / 6a5c788 bundle_block goes on without a ticket that Block::validate would refuse
        let gt_eff: Option<Transaction> = match &gt_tx {
            Some(t) if gt_valid(&t.data, &tip) => Some(t.clone()),
            _ => None,
        };
        let value = offset_value(&self.prod.pk, &tip.hash);
        let gtc_with = self.prod.blockchain.is_golden_ticket_count_valid(tip.hash, true, false, false);
        let gtc_without = self.prod.blockchain.is_golden_ticket_count_valid(tip.hash, false, false, false);
        let tip_h = self.it.get(&tip.hash);
        let view = format!(
            "mkView (Some (mkPar {} {} {} {} {} {} {} false)) false {} {} {} {} {}",
            tip_h,
            tip.id,
            tip.timestamp,
            tip.treasury,
            tip.graveyard,
            tip.total_fees,
            tip.burnfee,
            self.prod.blockchain.social_stake_requirement,
            hb,
            value,
            gal::boolean(gtc_with),
            gal::boolean(gtc_without)
        );

        // ---- the pool before the bundle
        let pool_txs: Vec<Transaction> = {
            let mut v: Vec<Transaction> = self.prod.mempool.transactions.values().cloned().collect();
            v.sort_by_key(|t| t.signature);
            v
        };
        let had_pool = !pool_txs.is_empty();
        let mut valid_tbl: Vec<(u64, bool)> = vec![];
        let mut pool_coq = vec![];
        let mut pool_work_sum: u64 = 0;
        let mut pool_types: BTreeSet<&'static str> = BTreeSet::new();
        let mut pool_inputs: BTreeMap<SaitoUTXOSetKey, u64> = BTreeMap::new();
        for t in &pool_txs {
            let a = self.atx(t);
            let mut c = t.clone();
            c.generate(&self.prod.pk, 0, 0);
            pool_work_sum = pool_work_sum.wrapping_add(c.total_work_for_me);
            let ok = c.validate(&self.prod.blockchain.utxoset, &self.prod.blockchain, true);
            valid_tbl.push((a.id, ok));
            pool_types.insert(ty_code(a.ty));
            for k in &a.inputs {
                pool_inputs.insert(*k, a.id);
            }
            pool_coq.push(format!("({})", a.coq));
        }
        let cached_work = self.prod.mempool.get_routing_work_available();
        if cached_work != pool_work_sum {
            self.stat("cache:differs-from-pool-work");
        } else {
            self.stat("cache:exact");
        }
        let umap: Vec<u64> = {
            let keys: Vec<_> = self.prod.mempool.utxo_map.keys().cloned().collect();
            let mut v: Vec<u64> = keys.iter().map(|k| self.it.get(k)).collect();
            v.sort();
            v
        };
        let gts_coq: Vec<String> = {
            let mut ents: Vec<(SaitoHash, Transaction)> =
                self.prod.mempool.golden_tickets.iter().map(|(k, (t, _))| (*k, t.clone())).collect();
            ents.sort_by_key(|e| e.0);
            ents.iter().map(|(k, t)| format!("({}, {})", self.it.get(k), self.atx(t).coq)).collect()
        };
        let fresh = self.prod.mempool.new_tx_added;
        let queue_empty = self.prod.mempool.blocks_queue.is_empty();
        let pool = format!(
            "mkM {} {} {} {} {} {}",
            gal::list(&pool_coq),
            gal::nlist(&umap),
            cached_work,
            gal::boolean(fresh),
            gal::boolean(queue_empty),
            gal::list(&gts_coq)
        );

        // ---- what can_bundle_block will decide (re-computed from its inputs)
        let work_needed = BurnFee::return_routing_work_needed_to_produce_block_in_nolan(tip.burnfee, ts, tip.timestamp, hb);
        let gate_open = ts > tip.timestamp
            && queue_empty
            && had_pool
            && fresh
            && (if gt_eff.is_some() { gtc_with } else { gtc_without })
            && !(ts < tip.timestamp + value)
            && cached_work >= work_needed;

        // ---- the staking transaction bundle_block will create (dry run on a copy of the wallet)
        let stake_pred: Option<Transaction> = {
            let mut w: Wallet = bo(&self.rt, self.prod.wallet_lock.read()).clone();
            w.create_staking_transaction(
                self.prod.blockchain.social_stake_requirement,
                self.prod.blockchain.get_latest_unlocked_stake_block_id(),
                (self.prod.blockchain.get_latest_block_id() + 1).saturating_sub(gp),
            )
            .ok()
        };
        let mut stake_clash = false;
        if let Some(st) = &stake_pred {
            let a = self.atx(st);
            let mut c = st.clone();
            c.generate(&self.prod.pk, 0, 0);
            let ok = c.validate(&self.prod.blockchain.utxoset, &self.prod.blockchain, true);
            valid_tbl.push((a.id, ok));
            let src = self.rebroadcast_source();
            stake_clash = src > 0 && c.from.iter().any(|s| s.amount > 0 && s.block_id == src);
        }
        let stake_coq = self.coq_opt_tx(&stake_pred);

        let mut gt_tbl: Vec<(u64, bool)> = vec![];
        if let Some(t) = &gt_tx {
            let a = self.atx(t);
            gt_tbl.push((a.id, gt_valid(&t.data, &tip)));
        }
        let gt_zero_key = match &gt_tx {
            Some(t) => gt_solves(&t.data, &tip) && !gt_valid(&t.data, &tip),
            None => false,
        };
        // ---- causes of known classes, decided before the outcome is seen
        let gt_invalid = match &gt_tx {
            Some(t) => !gt_solves(&t.data, &tip),
            None => false,
        };
        if pool_types.contains("TIssuance") {
            // fix 716c212: the intake takes Issuance-typed transactions only while there is no chain
            self.stat("pool-holds-issuance-on-running-chain");
            findings.push((format!("an Issuance-typed transaction is pooled on a running chain (tip {})", tip.id), None));
        }
        let staked = gp.saturating_mul(tip.avg_nolan_rebroadcast_per_block);
        let multiplier = if staked > 0 { 1 + tip.treasury / staked } else { 1 };
        let src = self.rebroadcast_source();
        // inputs that Transaction::validate refuses for the next block (bb88717): block_id + gp < next id
        let aged_pool: Vec<String> = pool_txs
            .iter()
            .flat_map(|t| t.from.iter().filter(|s| s.amount > 0 && s.block_id + gp < tip.id + 1).map(|s| format!("{}:{}:{} amount {}", s.block_id, s.tx_ordinal, s.slip_index, s.amount)))
            .collect();
        if !aged_pool.is_empty() && self.injected_aged.is_none() {
            // the window invariant of the pool (intake bb88717 + re-validation df3ca14)
            self.stat("pool-holds-input-older-than-window");
            findings.push((format!("the pool holds a transaction whose input the next block {} cannot spend any more: {:?}", tip.id + 1, aged_pool), None));
        }
        let clash_pool: Vec<u64> = pool_txs
            .iter()
            .flat_map(|t| t.from.iter().filter(|s| s.amount > 0 && src > 0 && s.block_id == src).map(|s| s.amount))
            .collect();

        // ---- the real bundle_block: exactly as ConsensusThread::produce_block calls it, or -- in a
        // round through the thread -- by the thread's own timer event
        let mut thread_added = false;
        let mut thread_rejected = false;
        let bundled: Result<Option<Block>, Box<dyn std::any::Any + Send>> = if self.via_thread {
            let created0 = self.thread.consensus.stats.blocks_created.total;
            self.thread.consensus.block_producing_timer = 0;
            let mut res: Result<(), String> = Ok(());
            for k in 0..3 {
                res = self.thread_tick(ts, 400);
                if res.is_err() {
                    break;
                }
                if k < 2 && (self.thread.consensus.stats.blocks_created.total != created0 || self.prod.blockchain.get_latest_block_hash() != tip.hash) {
                    findings.push((format!("the ConsensusThread produced after {} ms of timer events (BLOCK_PRODUCING_TIMER is 1000)", 400 * (k + 1)), None));
                }
            }
            self.via_thread = false;
            match res {
                Err(msg) => Err(Box::new(msg) as Box<dyn std::any::Any + Send>),
                Ok(()) => {
                    let created = self.thread.consensus.stats.blocks_created.total - created0;
                    let new_tip = self.prod.blockchain.get_latest_block_hash();
                    if created == 0 {
                        if new_tip != tip.hash {
                            findings.push(("the tip moved although the ConsensusThread created no block".to_string(), None));
                        }
                        Ok(None)
                    } else if new_tip != tip.hash {
                        // the producer has added its block already: a clean copy (through the wire format)
                        let stored = self.prod.blockchain.get_latest_block().unwrap();
                        let raw = stored.serialize_for_net(BlockType::Full);
                        match Block::deserialize_from_net(&raw) {
                            Ok(mut clean) => {
                                let _ = clean.generate();
                                clean.cv = stored.cv.clone();
                                thread_added = true;
                                Ok(Some(clean))
                            }
                            Err(_) => {
                                findings.push(("the produced block does not decode from its own wire format".to_string(), None));
                                Ok(None)
                            }
                        }
                    } else {
                        thread_rejected = true;
                        Ok(None)
                    }
                }
            }
        } else {
            let rt = &self.rt;
            let prod = &mut self.prod;
            let gt_arg = gt_tx.clone();
            catch_unwind(AssertUnwindSafe(|| {
                rt.block_on(prod.mempool.bundle_block(&prod.blockchain, ts, gt_arg, &prod.cfg, &prod.storage))
            }))
        };
        let mut skip_model = false;

        let mut expected: Vec<Vec<u64>>;
        let mut cv_c = "mkCv econ0 [] 0 0 None".to_string();
        let mut cv_v = cv_c.clone();
        let mut hchain_tbl = "[([], 0)]".to_string();
        let mut mroot_tbl = "[]".to_string();
        let mut order: Vec<u64> = vec![];
        let mut block_hash_id = 0u64;
        let mut supply_ok = true;
        let outcome;
        let mut detail = String::new();
        match bundled {
            Err(e) => {
                let msg = e
                    .downcast_ref::<String>()
                    .cloned()
                    .or_else(|| e.downcast_ref::<&str>().map(|s| s.to_string()))
                    .unwrap_or_default();
                outcome = Outcome::Panicked;
                // since fix f62222f bundle_block declines when the timestamp is not after the tip's
                findings.push((format!("bundle_block panicked (timestamp {} / tip timestamp {}): {}", ts, tip.timestamp, msg), None));
                expected = vec![vec![999]];
                detail = format!("panic: {}", msg);
            }
            Ok(None) => {
                // which of the three ways out?
                let pool_now = self.prod.mempool.transactions.len();
                if thread_rejected {
                    // the thread produced a block and its own add_block refused it; the block is gone
                    outcome = Outcome::Rejected;
                    expected = vec![vec![77]];
                    skip_model = true;
                    let what = format!("the ConsensusThread produced a block on tip {} and rejected it itself (the block is not observable)", tip.id);
                    let mut causes: Vec<&'static str> = vec![];
                    if causes.is_empty() {
                        findings.push((what, None));
                    } else {
                        for c in causes {
                            findings.push((what.clone(), Some(c)));
                        }
                    }
                } else if !gate_open {
                    outcome = Outcome::GateClosed;
                    expected = vec![vec![1]];
                    if pool_now != pool_txs.len() {
                        findings.push(("can_bundle_block refused but the pool changed".to_string(), None));
                    }
                } else if stake_pred.is_none() {
                    outcome = Outcome::NoStake;
                    expected = vec![vec![2]];
                } else {
                    outcome = Outcome::CreateFailed;
                    expected = vec![vec![3]];
                    // the rebroadcast set of this tip, from a throw-away block of the second node
                    let mut empty = fixed_tx_map();
                    let throw = bo(
                        &self.rt,
                        Block::create(
                            &mut empty,
                            tip.hash,
                            &self.peer.blockchain,
                            ts,
                            &self.prod.pk,
                            &self.prod.sk,
                            gt_eff.clone(),
                            &self.peer.cfg,
                            &self.peer.storage,
                        ),
                    );
                    let mut atr_keys: BTreeSet<SaitoUTXOSetKey> = BTreeSet::new();
                    if let Ok(tb) = &throw {
                        let cvc = tb.cv.clone();
                        cv_c = self.coq_cv(&cvc);
                        cv_v = cv_c.clone();
                        for t in &cvc.rebroadcasts {
                            let a = self.atx(t);
                            for k in a.inputs {
                                atr_keys.insert(k);
                            }
                        }
                    }
                    let stake_keys: Vec<SaitoUTXOSetKey> = match &stake_pred {
                        Some(s) => self.atx(s).inputs,
                        None => vec![],
                    };
                    let by_pool = pool_inputs.keys().any(|k| atr_keys.contains(k));
                    let by_stake = stake_keys.iter().any(|k| atr_keys.contains(k));
                    if self.injected.is_some() {
                        // the double spend was put there by the harness: create must fail, hand the
                        // drained transactions back, and bundle_block must rebuild reservations and work
                        let mut want: BTreeSet<_> = pool_txs.iter().map(|t| t.signature).collect();
                        if let Some(st) = &stake_pred {
                            let mut c = st.clone();
                            c.generate(&self.prod.pk, 0, 0);
                            if c.validate(&self.prod.blockchain.utxoset, &self.prod.blockchain, true) {
                                want.insert(st.signature);
                            }
                        }
                        let have: BTreeSet<_> = self.prod.mempool.transactions.keys().cloned().collect();
                        // (create first leaves out what collides with a rebroadcast: such transactions -- their
                        // input belongs to the block this block rebroadcasts -- are not handed back)
                        let left_out_ok = |sig: &saito_core::core::defs::SaitoSignature| {
                            pool_txs.iter().any(|t| t.signature == *sig && t.from.iter().any(|sl| sl.amount > 0 && src > 0 && sl.block_id == src))
                        };
                        if !(have.is_subset(&want) && want.difference(&have).all(|sig| left_out_ok(sig))) {
                            findings.push((format!("Block::create failed on the injected double spend and the pool was not handed back: {} transactions before, {} after", want.len(), have.len()), None));
                        }
                        let sum: u64 = self.prod.mempool.transactions.values().fold(0u64, |a, t| a.wrapping_add(t.total_work_for_me));
                        if self.prod.mempool.get_routing_work_available() != sum {
                            findings.push((format!("after the failed create the cached routing work {} is not the work of the pool {}", self.prod.mempool.get_routing_work_available(), sum), None));
                        }
                        let keys: BTreeSet<SaitoUTXOSetKey> = self.prod.mempool.transactions.values().flat_map(|t| t.from.iter().map(|s| s.utxoset_key)).collect();
                        let map: BTreeSet<SaitoUTXOSetKey> = self.prod.mempool.utxo_map.keys().cloned().collect();
                        if keys != map {
                            findings.push((format!("after the failed create the reservations ({}) are not the inputs of the pool ({})", map.len(), keys.len()), None));
                        }
                        self.stat("create-failed:injected-double-spend");
                    } else {
                    // since fix 1214e31 create leaves colliding transactions out: a failure is a violation
                    findings.push((
                        format!(
                            "bundle_block passed can_bundle_block but returned no block: Block::create failed (pool {} -> {}; collision with a rebroadcast of block {}: pooled tx {}, staking tx {})",
                            pool_txs.len(), pool_now, src, by_pool, by_stake
                        ),
                        None,
                    ));
                    }
                    self.stat(&format!("create-failed:by_pool={}:by_stake={}", by_pool, by_stake));
                    self.used.clear();
                }
                let mut sigs: Vec<u64> = pool_txs.iter().map(|t| self.it.get(&t.signature)).collect();
                if let Some(s) = &stake_pred {
                    sigs.push(self.it.get(&s.signature));
                }
                order = sigs;
                expected.extend(self.pool_obs());
            }
            Ok(Some(block)) => {
                let pristine = block.clone();
                let mut fin = block.clone();
                let _ = fin.generate();
                block_hash_id = self.it.get(&fin.hash);
                // --- structure: gt, pool in drained order, rebroadcasts, fee
                let abs: Vec<Atx> = fin.transactions.iter().map(|t| self.atx(t)).collect();
                let ids: Vec<u64> = abs.iter().map(|a| a.id).collect();
                let start = if !abs.is_empty() && abs[0].ty == TransactionType::GoldenTicket { 1 } else { 0 };
                let mut k = start;
                while k < abs.len() && abs[k].ty != TransactionType::ATR && abs[k].ty != TransactionType::Fee {
                    k += 1;
                }
                order = abs[start..k].iter().map(|a| a.sig).collect();
                // stake prediction check
                if let Some(sp) = &stake_pred {
                    if self.prod.blockchain.social_stake_requirement != 0 {
                        if fin.transactions.iter().any(|t| t.signature == sp.signature) {
                            self.stat("stake-prediction:same");
                        } else {
                            self.stat("stake-prediction:differs");
                        }
                    }
                }
                // --- cv of the producer and of the second node
                let cvc = fin.cv.clone();
                cv_c = self.coq_cv(&cvc);
                let cvv = bo(&self.rt, fin.generate_consensus_values(&self.peer.blockchain, &self.peer.storage, &self.peer.cfg));
                cv_v = self.coq_cv(&cvv);
                // --- validity bits of every transaction of the block, on the second node
                for (t, a) in fin.transactions.iter().zip(abs.iter()) {
                    let ok = t.validate(&self.peer.blockchain.utxoset, &self.peer.blockchain, true);
                    if !valid_tbl.iter().any(|(i, _)| *i == a.id) {
                        valid_tbl.push((a.id, ok));
                    }
                    if !ok {
                        self.stat(&format!("block-tx-invalid:{}", ty_code(a.ty)));
                    }
                    if a.ty == TransactionType::GoldenTicket {
                        if !gt_tbl.iter().any(|(i, _)| *i == a.id) {
                            gt_tbl.push((a.id, gt_valid(&t.data, &tip)));
                                        }
                    }
                }
                let atr_ids: Vec<u64> = abs.iter().filter(|a| a.ty == TransactionType::ATR).map(|a| a.id).collect();
                let rbh = self.it.get(&fin.rebroadcast_hash);
                hchain_tbl = if atr_ids.is_empty() {
                    format!("[([], {})]", rbh)
                } else {
                    format!("[({}, {}); ([], 0)]", gal::nlist(&atr_ids), rbh)
                };
                // cv's hash is over its own list: the table also knows that value
                let cvc_ids: Vec<u64> = cvc.rebroadcasts.iter().map(|t| self.atx(t).id).collect();
                let _ = cvc_ids;
                let mr = self.it.get(&fin.merkle_root);
                mroot_tbl = format!("[({}, {})]", gal::nlist(&ids), mr);

                // --- field-by-field: header of the produced block vs cv on the second node
                let mut diffs: Vec<String> = vec![];
                macro_rules! cmp {
                    ($f:ident) => {
                        if cvv.$f != fin.$f {
                            diffs.push(format!("{}: header {} / recomputed {}", stringify!($f), fin.$f, cvv.$f));
                            self.stat(&format!("cv-stable:{}:differs", stringify!($f)));
                        } else {
                            self.stat(&format!("cv-stable:{}:same", stringify!($f)));
                        }
                    };
                }
                cmp!(total_fees);
                cmp!(total_fees_new);
                cmp!(total_fees_atr);
                cmp!(total_fees_cumulative);
                cmp!(avg_total_fees);
                cmp!(avg_total_fees_new);
                cmp!(avg_total_fees_atr);
                cmp!(total_payout_routing);
                cmp!(total_payout_mining);
                cmp!(total_payout_treasury);
                cmp!(total_payout_graveyard);
                cmp!(total_payout_atr);
                cmp!(avg_payout_routing);
                cmp!(avg_payout_mining);
                cmp!(avg_payout_treasury);
                cmp!(avg_payout_graveyard);
                cmp!(avg_payout_atr);
                cmp!(avg_fee_per_byte);
                cmp!(fee_per_byte);
                cmp!(avg_nolan_rebroadcast_per_block);
                cmp!(burnfee);
                cmp!(difficulty);
                cmp!(total_rebroadcast_slips);
                if cvv.rebroadcast_hash != fin.rebroadcast_hash {
                    diffs.push("rebroadcast_hash: hash over the block's rebroadcast transactions differs from the recomputed one".to_string());
                    self.stat("cv-stable:rebroadcast_hash:differs");
                } else {
                    self.stat("cv-stable:rebroadcast_hash:same");
                }
                let exp_treasury = (tip.treasury as u128 + cvv.total_payout_treasury as u128) as i128 - cvv.total_payout_atr as i128;
                if exp_treasury != fin.treasury as i128 {
                    diffs.push(format!("treasury: header {} / recomputed {}", fin.treasury, exp_treasury));
                    self.stat("cv-stable:treasury:differs");
                } else {
                    self.stat("cv-stable:treasury:same");
                }
                if tip.graveyard as u128 + cvv.total_payout_graveyard as u128 != fin.graveyard as u128 {
                    diffs.push(format!("graveyard: header {} / recomputed {}", fin.graveyard, tip.graveyard as u128 + cvv.total_payout_graveyard as u128));
                    self.stat("cv-stable:graveyard:differs");
                } else {
                    self.stat("cv-stable:graveyard:same");
                }
                // the producer's own cv against the second node's cv on the finished block
                let mut cvdiffs: Vec<String> = vec![];
                macro_rules! cmpc {
                    ($f:ident) => {
                        if cvv.$f != cvc.$f {
                            cvdiffs.push(format!("{}: create {} / validate {}", stringify!($f), cvc.$f, cvv.$f));
                        }
                    };
                }
                cmpc!(total_fees);
                cmpc!(total_fees_new);
                cmpc!(total_fees_atr);
                cmpc!(total_fees_cumulative);
                cmpc!(total_payout_atr);
                cmpc!(fee_per_byte);
                cmpc!(avg_fee_per_byte);
                cmpc!(avg_nolan_rebroadcast_per_block);
                cmpc!(total_rebroadcast_slips);
                if cvv.rebroadcast_hash != cvc.rebroadcast_hash {
                    cvdiffs.push("rebroadcast_hash (as cv computes it)".to_string());
                }
                let fee_c = cvc.fee_transaction.as_ref().map(|t| hash(&t.serialize_for_signature()));
                let fee_v = cvv.fee_transaction.as_ref().map(|t| hash(&t.serialize_for_signature()));
                if fee_c != fee_v {
                    diffs.push("fee transaction: the one appended differs from the one recomputed".to_string());
                    self.stat("cv-stable:fee_transaction:differs");
                } else {
                    self.stat("cv-stable:fee_transaction:same");
                }
                // work: gate vs block
                if fin.total_work < work_needed {
                    diffs.push(format!("total_work {} below work needed {} (cached pool work was {})", fin.total_work, work_needed, cached_work));
                    self.stat("gate-vs-block-work:short");
                } else {
                    self.stat("gate-vs-block-work:enough");
                }
                let n_stake = fin.transactions.iter().filter(|t| t.transaction_type == TransactionType::BlockStake).count();
                if self.prod.blockchain.social_stake_requirement != 0 && n_stake != 1 {
                    diffs.push(format!("staking transactions in the block: {} (exactly one is required; the wallet's staking transaction {})", n_stake, if stake_pred.is_some() { "was built" } else { "could not be built" }));
                }
                if fin.timestamp != ts {
                    diffs.push(format!("timestamp: block {} / bundle argument {}", fin.timestamp, ts));
                }
                // the ticket the block actually carries (the producer may decline the pooled one)
                let block_gt: Option<&Transaction> =
                    fin.transactions.iter().find(|t| t.transaction_type == TransactionType::GoldenTicket);
                let block_gt_invalid = match block_gt {
                    Some(t) => !gt_valid(&t.data, &tip),
                    None => false,
                };
                if gt_eff.is_some() != block_gt.is_some() {
                    findings.push((
                        format!(
                            "the pool {} a ticket for the tip that passes the screen, the produced block {} a golden ticket",
                            if gt_eff.is_some() { "holds" } else { "does not hold" },
                            if block_gt.is_some() { "carries" } else { "does not carry" }
                        ),
                        None,
                    ));
                }
                let unpaid_expected = if block_gt.is_some() { 0 } else { tip.total_fees };
                if fin.previous_block_unpaid != unpaid_expected {
                    diffs.push(format!("previous_block_unpaid: header {} / expected {}", fin.previous_block_unpaid, unpaid_expected));
                }

                let invalid_in_block: Vec<String> = fin
                    .transactions
                    .iter()
                    .filter(|t| !t.validate(&self.peer.blockchain.utxoset, &self.peer.blockchain, true))
                    .map(|t| {
                        format!(
                            "{} spending {:?}",
                            ty_code(t.transaction_type),
                            t.from.iter().filter(|s| s.amount > 0).map(|s| format!("{}:{}:{} amount {}", s.block_id, s.tx_ordinal, s.slip_index, s.amount)).collect::<Vec<_>>()
                        )
                    })
                    .collect();
                let atr_invalid_before = fin
                    .transactions
                    .iter()
                    .any(|t| t.transaction_type == TransactionType::ATR && !t.validate(&self.peer.blockchain.utxoset, &self.peer.blockchain, true));
                // --- offer to both nodes
                let mut supply_panic = [false, false];
                let r1 = if thread_added {
                    AddClass::OnChain
                } else {
                    let rt = &self.rt;
                    let prod = &mut self.prod;
                    let b = pristine.clone();
                    match catch_unwind(AssertUnwindSafe(|| rt.block_on(prod.add_block(b)))) {
                        Ok(r) => r,
                        Err(e) => {
                            supply_panic[0] = panic_text(&e).contains("invalid total supply");
                            AddClass::Panicked
                        }
                    }
                };
                let r2 = {
                    let rt = &self.rt;
                    let peer = &mut self.peer;
                    let b = pristine.clone();
                    match catch_unwind(AssertUnwindSafe(|| rt.block_on(peer.add_block(b)))) {
                        Ok(r) => r,
                        Err(e) => {
                            supply_panic[1] = panic_text(&e).contains("invalid total supply");
                            AddClass::Panicked
                        }
                    }
                };
                supply_ok = !(supply_panic[0] || supply_panic[1]);
                let types: Vec<u64> = fin.transactions.iter().map(|t| t.transaction_type as u64).collect();
                detail = format!(
                    "block {} txs(types) {:?} producer {:?} second node {:?}; atr multiplier {}; diffs {:?}; create-vs-validate cv {:?}",
                    fin.id, types, r1, r2, multiplier, diffs, cvdiffs
                );
                outcome = if r1 == AddClass::OnChain && r2 == AddClass::OnChain {
                    Outcome::Accepted
                } else if r1 == r2 {
                    Outcome::Rejected
                } else {
                    Outcome::Split
                };
                // --- the oracle
                let n_atr = atr_ids.len();
                let mut causes: Vec<&'static str> = vec![];


                // Block::create's leave-out branch: dead unless a transaction was injected past the intake
                {
                    let missing = pool_txs.iter().filter(|p| !fin.transactions.iter().any(|t| t.signature == p.signature)).count();
                    if missing > 0 && self.injected_aged.is_none() {
                        self.stat("create-left-out:without-injection");
                        findings.push((format!("Block::create left out {} pooled transaction(s) although nothing was injected past the intake (tip {})", missing, tip.id), None));
                    } else {
                        self.stat(if missing > 0 { "create-left-out:injected-only" } else { "create-left-out:nothing" });
                    }
                }
                if let Some(sig) = self.injected_aged {
                    let carried = fin.transactions.iter().any(|t| t.signature == sig);
                    self.stat(&format!("injected-aged-spend:{}", if carried { "carried" } else { "left-out" }));
                    if carried {
                        findings.push(("Block::create did not leave out a pooled spend of an output the block rebroadcasts".to_string(), None));
                    }
                }
                if outcome == Outcome::Split {
                    findings.push((format!("the two nodes disagree on the produced block: producer {:?}, second node {:?}", r1, r2), None));
                }
                if r1 == AddClass::Panicked || r2 == AddClass::Panicked {
                    {
                        findings.push(("add_block panicked on the produced block".to_string(), None));
                    }
                }
                if outcome != Outcome::Accepted && !(r1 == AddClass::Panicked && r2 == AddClass::Panicked && !supply_ok) {
                    let what = format!(
                        "own block {} on tip {} rejected (producer {:?}, second node {:?}); differences: {:?}; transactions of the block that do not validate on the parent state: {:?}",
                        fin.id, tip.id, r1, r2, diffs, invalid_in_block
                    );
                    if causes.is_empty() {
                        findings.push((what, None));
                    } else {
                        for c in &causes {
                            findings.push((what.clone(), Some(*c)));
                        }
                    }
                } else {
                    self.history.push(pristine.clone());
                    self.last_ok = Some((view.clone(), pristine.clone()));
                    if !diffs.is_empty() {
                        findings.push((format!("block accepted although header and recomputed values differ: {:?}", diffs), None));
                    }
                    if block_gt_invalid {
                        findings.push(("block with an invalid golden ticket solution accepted".to_string(), None));
                    }
                    self.used.clear();
                }
                self.stat(&format!(
                    "produced:gt={}:atr={}:fee_tx={}:{:?}",
                    block_gt.is_some(),
                    if n_atr == 0 { "0" } else if n_atr < 5 { "1-4" } else { "5+" },
                    fin.has_fee_transaction,
                    outcome
                ));
                // --- expected observation of the model round
                let mut e: Vec<Vec<u64>> = vec![vec![4]];
                e.push(ids.clone());
                e.push(vec![fin.id, fin.timestamp, self.it.get(&fin.previous_block_hash), fin.previous_block_unpaid, fin.treasury, fin.graveyard]);
                e.push(vec![
                    fin.total_fees,
                    fin.total_fees_new,
                    fin.total_fees_atr,
                    fin.total_fees_cumulative,
                    fin.avg_total_fees,
                    fin.avg_total_fees_new,
                    fin.avg_total_fees_atr,
                    fin.total_payout_routing,
                    fin.total_payout_mining,
                    fin.total_payout_treasury,
                    fin.total_payout_graveyard,
                    fin.total_payout_atr,
                    fin.avg_payout_routing,
                    fin.avg_payout_mining,
                    fin.avg_payout_treasury,
                    fin.avg_payout_graveyard,
                    fin.avg_payout_atr,
                    fin.avg_fee_per_byte,
                    fin.fee_per_byte,
                    fin.avg_nolan_rebroadcast_per_block,
                    fin.burnfee,
                    fin.difficulty,
                ]);
                e.push(vec![fin.total_work, fin.total_rebroadcast_slips, rbh, mr]);
                let code = |r: &AddClass, sp: bool| if *r == AddClass::Panicked && sp { 905 } else { add_code(r) };
                e.push(vec![code(&r1, supply_panic[0]), code(&r2, supply_panic[1])]);
                e.extend(self.pool_obs());
                expected = e;
            }
        }
        self.stat(&format!("outcome:{:?}", outcome));
        self.stat(&format!(
            "gap:{}",
            if spec.gap <= 0 {
                "<=0"
            } else if (spec.gap as u64) < value {
                "below-key-offset"
            } else if (spec.gap as u64) < hb {
                "<1hb"
            } else if (spec.gap as u64) < 2 * hb {
                "1..2hb"
            } else {
                ">=2hb"
            }
        ));
        self.stat(&format!("gt-for-tip:{}", if gt_tx.is_none() { "absent" } else if gt_invalid { "invalid-solution" } else if gt_zero_key { "zero-key" } else { "valid" }));
        self.stat(&format!("depth:{}", if tip.id + 1 <= gp + 1 { "before-window-wraps" } else if tip.id + 1 <= 2 * gp + 2 { "first-lap" } else { "later-laps" }));
        self.stat(&format!("work-needed:{}", if work_needed == 0 { "0" } else if work_needed <= cached_work { "<=pool-work" } else { ">pool-work" }));
        if !clash_pool.is_empty() {
            self.stat("pool-spends-output-due-for-rebroadcast");
        }
        if stake_clash {
            self.stat("own-stake-spends-output-due-for-rebroadcast");
        }

        if let Some(sig) = self.injected_aged.take() {
            if self.prod.mempool.transactions.remove(&sig).is_some() {
                self.prod.mempool.rebuild_utxo_map();
            }
        }
        if let Some(sig) = self.injected.take() {
            // take the injected transaction out again so that the scenario can go on
            // (the staking transaction that a failed create hands back goes with it: a pool that holds a
            // double spend is a state only the harness can make, and a second staking transaction in the
            // next block would be a consequence of it)
            let stakes: Vec<_> = self
                .prod
                .mempool
                .transactions
                .iter()
                .filter(|(_, t)| t.transaction_type == TransactionType::BlockStake)
                .map(|(k, _)| *k)
                .collect();
            let mut changed = self.prod.mempool.transactions.remove(&sig).is_some();
            for k in stakes {
                changed |= self.prod.mempool.transactions.remove(&k).is_some();
            }
            if changed {
                self.prod.mempool.rebuild_utxo_map();
            }
        }
        let key_block_tbl: Vec<(u64, u64)> = self.key_blocks.iter().map(|(k, b)| (*k, *b)).collect();
        self.key_blocks.clear();
        let coq = format!(
            "mkRC ({}) ({}) {} {} {} {} {} ({}) ({}) {} {} {} {} {} {} {} {}",
            view,
            pool,
            self.it.get(&self.prod.pk.to_vec()),
            ts,
            stake_coq,
            gal::nlist(&order),
            block_hash_id,
            cv_c,
            cv_v,
            gal::list(&valid_tbl.iter().map(|(i, b)| format!("({}, {})", i, gal::boolean(*b))).collect::<Vec<_>>()),
            gal::list(&gt_tbl.iter().map(|(i, b)| format!("({}, {})", i, gal::boolean(*b))).collect::<Vec<_>>()),
            gal::list(&key_block_tbl.iter().map(|(k, b)| format!("({}, {})", k, b)).collect::<Vec<_>>()),
            gp,
            hchain_tbl,
            mroot_tbl,
            gal::boolean(supply_ok),
            gal::nllist(&expected)
        );
        let desc = format!(
            "{{\"label\":{},\"tip\":{},\"gap_ms\":{},\"pool_ops\":[{}],\"pool_size\":{},\"cached_work\":{},\"work_needed\":{},\"gt_for_tip\":{},\"outcome\":\"{:?}\",\"detail\":{}}}",
            jstr(&spec.label),
            tip.id,
            spec.gap,
            log.join(","),
            pool_txs.len(),
            cached_work,
            work_needed,
            gt_tx.is_some(),
            outcome,
            jstr(&detail)
        );
        if self.debug {
            eprintln!("{}", desc);
        }
        RoundResult { outcome, coq: if skip_model { String::new() } else { coq }, desc, findings, had_pool }
    }
}

fn panic_text(e: &Box<dyn std::any::Any + Send>) -> String {
    e.downcast_ref::<String>().cloned().or_else(|| e.downcast_ref::<&str>().map(|s| s.to_string())).unwrap_or_default()
}

/// the solution check (Mempool::golden_ticket_solves_tip and part of Block::validate): the ticket re-created on the parent's hash
fn gt_solves(data: &[u8], parent: &Block) -> bool {
    if data.len() != 97 {
        return false;
    }
    let random: SaitoHash = data[32..64].try_into().unwrap();
    let pk: SaitoPublicKey = data[64..97].try_into().unwrap();
    GoldenTicket::create(parent.hash, random, pk).validate(parent.difficulty)
}

/// Block::validate since b8552b5: solves the tip and does not name the all-zero key
fn gt_valid(data: &[u8], parent: &Block) -> bool {
    gt_solves(data, parent) && data[64..97].iter().any(|b| *b != 0)
}

fn fee_class(fee: u64) -> &'static str {
    if fee == 0 {
        "0"
    } else if fee <= 500 {
        "small"
    } else {
        "large"
    }
}

// ---------------------------------------------------------------- scenarios
struct ScenarioOut {
    desc: String,
    coq: String,
    findings: Vec<(String, Option<&'static str>)>,
    stats: BTreeMap<String, u64>,
    nontrivial: bool,
    rounds: usize,
}

#[derive(Clone, Debug)]
struct Plan {
    kind: u64,
    seed: u64,
    gp: u64,
    stake: u64,
    hb: u64,
    profile: u8,
    target_blocks: u64,
    /// percentage of rounds with a hostile pool item / ticket / timestamp
    adversarial: u64,
    thorough: bool,
}

fn pick_fee(rng: &mut Rng) -> u64 {
    match rng.below(3) {
        0 => 0,
        1 => rng.range(1, 500),
        _ => rng.range(5_000, 50_000),
    }
}

fn benign_gap(hb: u64, rng: &mut Rng) -> i64 {
    (match rng.below(3) {
        0 => 2 * hb + 5_000,
        1 => 3 * hb + 5_000,
        _ => 2 * hb + 5_000 + rng.below(60_000),
    }) as i64
}

/// next round of a random scenario, from the state of the rig
fn random_spec(rig: &Rig, plan: &Plan, rng: &mut Rng, round: usize) -> RoundSpec {
    let tip = rig.tip();
    let hb = plan.hb;
    let value = offset_value(&rig.prod.pk, &tip.hash);
    let need_gt = !rig.prod.blockchain.is_golden_ticket_count_valid(tip.hash, false, false, false);
    let adversarial = plan.adversarial > 0 && rng.chance(plan.adversarial, 100);
    let mut items = vec![];
    if plan.profile == 1 {
        for p in 2..6usize {
            items.push(Item::Transfer { payer: p, fee: 20_000, hops: 1, biggest: true });
        }
    }
    let n = if adversarial && rng.chance(1, 8) { 0 } else { rng.range(1, 4) };
    for _ in 0..n {
        items.push(Item::Transfer { payer: rng.range(2, 5) as usize, fee: pick_fee(rng), hops: rng.below(4) as usize, biggest: false });
    }
    let mut label = "benign".to_string();
    if adversarial {
        match rng.below(6) {
            0 => {
                items.push(Item::Conflict);
                label = "conflicting-spend".to_string();
            }
            1 => {
                if rig.rebroadcast_source() > 0 {
                    items.push(Item::Clash { payer: rng.range(2, 5) as usize, fee: *rng.pick(&[500u64, 500, 60_000]) });
                    label = "rebroadcast-clash".to_string();
                }
            }
            2 => {
                items.push(Item::Issuance);
                label = "issuance".to_string();
            }
            3 => {
                items.push(Item::ForeignStake { payer: rng.range(2, 5) as usize });
                label = "foreign-stake".to_string();
            }
            _ => {}
        }
    }
    let gt = if adversarial {
        match rng.below(5) {
            0 => GtSpec::None,
            1 => GtSpec::Valid,
            2 => {
                if tip.difficulty >= 1 {
                    GtSpec::Invalid
                } else {
                    GtSpec::Valid
                }
            }
            3 => {
                if rng.chance(1, 2) {
                    GtSpec::Stale
                } else {
                    GtSpec::ZeroKey
                }
            }
            _ => {
                if need_gt {
                    GtSpec::Valid
                } else {
                    GtSpec::None
                }
            }
        }
    } else if need_gt || (tip.difficulty < 8 && rng.chance(if plan.profile == 1 { 50 } else { 35 }, 100)) {
        GtSpec::Valid
    } else {
        GtSpec::None
    };
    if gt == GtSpec::Invalid {
        label = "invalid-golden-ticket".to_string();
    }
    let gap: i64 = if adversarial || (plan.adversarial == 0 && rng.chance(1, 3)) {
        let mut opts: Vec<i64> = vec![];
        if adversarial {
            opts.extend([0i64, -5]);
        }
        opts.extend([
            1,
            value as i64 - 1,
            value as i64,
            (hb / 2) as i64,
            hb as i64,
            (2 * hb) as i64 - 1,
            (2 * hb) as i64,
            (hb + hb / 3) as i64,
            benign_gap(hb, rng),
            benign_gap(hb, rng),
        ]);
        *rng.pick(&opts)
    } else {
        benign_gap(hb, rng)
    };
    let _ = round;
    // other producers: the second node confirms the pool, or a two-block branch replaces the tip
    let inject_conflict = rng.chance(1, 40);
    let via_thread = rng.chance(1, 6);
    let inject_aged = !inject_conflict && rng.chance(1, 30);
    let mut peer_block = false;
    let mut peer_own = false;
    let mut fork = false;
    let mut items2 = vec![];
    if round >= 2 {
        match rng.below(if plan.profile == 2 { 4 } else { 16 }) {
            0 => {
                peer_block = true;
                items2.push(Item::Transfer { payer: rng.range(2, 5) as usize, fee: *rng.pick(&[0u64, 20, 300, 30_000]), hops: 1, biggest: false });
            }
            2 => {
                peer_own = true;
            }
            1 if plan.stake == 0 => {
                fork = true;
                items2.push(Item::Transfer { payer: rng.range(2, 5) as usize, fee: pick_fee(rng), hops: rng.below(3) as usize, biggest: false });
            }
            _ => {}
        }
    }
    RoundSpec { inject_aged, via_thread, inject_conflict, peer_own, peer_block, fork, items2, items, gt, gap, label }
}

fn scripted_spec(rig: &Rig, plan: &Plan, round: usize) -> Option<RoundSpec> {
    let tip = rig.tip();
    let hb = plan.hb;
    let big = (2 * hb + 5_000) as i64;
    let plain_items = vec![
        Item::Transfer { payer: 2, fee: 5_000, hops: 1, biggest: false },
        Item::Transfer { payer: 3, fee: 300, hops: 2, biggest: false },
        Item::Transfer { payer: 4, fee: 0, hops: 0, biggest: false },
    ];
    match plan.kind {
        // the payout multiplier: large fees, tiny outputs looping, ticket every other block
        0 => {
            let items = (2..6usize).map(|p| Item::Transfer { payer: p, fee: 20_000, hops: 1, biggest: true }).collect();
            Some(RoundSpec { inject_aged: false, via_thread: false, inject_conflict: false, peer_own: false, peer_block: false, fork: false, items2: vec![], items, gt: if round % 2 == 1 { GtSpec::Valid } else { GtSpec::None }, gap: big, label: "dust-profile".to_string() })
        }
        // an invalid golden ticket once the difficulty is positive
        1 => {
            let gt = if tip.difficulty >= 2 { GtSpec::Invalid } else { GtSpec::Valid };
            Some(RoundSpec { inject_aged: false, via_thread: false, inject_conflict: false, peer_own: false, peer_block: false, fork: false, items2: vec![], items: plain_items, gt, gap: big, label: if gt == GtSpec::Invalid { "invalid-golden-ticket".to_string() } else { "warm-up".to_string() } })
        }
        // issuance-typed transaction in the pool
        2 => {
            let mut items = plain_items;
            if round == 2 {
                items.push(Item::Issuance);
            }
            Some(RoundSpec { inject_aged: false, via_thread: false, inject_conflict: false, peer_own: false, peer_block: false, fork: false, items2: vec![], items, gt: if round % 2 == 1 { GtSpec::Valid } else { GtSpec::None }, gap: big, label: "issuance".to_string() })
        }
        // timestamp not after the tip's (bundle_block must decline, not panic)
        3 => {
            let gap = match round {
                2 => 0,
                3 => -1000,
                _ => big,
            };
            Some(RoundSpec { inject_aged: false, via_thread: false, inject_conflict: false, peer_own: false, peer_block: false, fork: false, items2: vec![], items: plain_items, gt: if round % 2 == 1 { GtSpec::Valid } else { GtSpec::None }, gap, label: "timestamp-order".to_string() })
        }
        // a pooled transaction spends an output that the next block rebroadcasts
        4 => {
            let mut items = plain_items;
            if rig.rebroadcast_source() > 0 && round % 3 == 0 {
                items.push(Item::Clash { payer: 5, fee: 500 });
            }
            Some(RoundSpec { inject_aged: false, via_thread: false, inject_conflict: false, peer_own: false, peer_block: false, fork: false, items2: vec![], items, gt: if round % 2 == 1 { GtSpec::Valid } else { GtSpec::None }, gap: big, label: "rebroadcast-clash".to_string() })
        }
        // staking on, window of 3: the producer's own staking transaction
        5 => Some(RoundSpec { inject_aged: false, via_thread: false, inject_conflict: false, peer_own: false, peer_block: false, fork: false, items2: vec![], items: plain_items, gt: if round % 2 == 1 { GtSpec::Valid } else { GtSpec::None }, gap: big, label: "staking".to_string() }),
        // staking on, BlockStake-typed transaction from a peer
        6 => {
            let mut items = plain_items;
            if round == 2 {
                items.push(Item::ForeignStake { payer: 5 });
            }
            Some(RoundSpec { inject_aged: false, via_thread: false, inject_conflict: false, peer_own: false, peer_block: false, fork: false, items2: vec![], items, gt: if round % 2 == 1 { GtSpec::Valid } else { GtSpec::None }, gap: big, label: "foreign-stake".to_string() })
        }
        // somebody else's block empties the pool, then a transaction with little work arrives and the
        // producer is polled inside the work-gated window
        11 => {
            if round >= 2 && round % 2 == 0 {
                Some(RoundSpec {
                    items: vec![Item::Transfer { payer: 2, fee: 50_000, hops: 1, biggest: false }, Item::Transfer { payer: 3, fee: 40_000, hops: 1, biggest: false }],
                    peer_block: true,
                    peer_own: false,
                    inject_conflict: false,
                    via_thread: false,
                    inject_aged: false,
                    fork: false,
                    items2: vec![Item::Transfer { payer: 4, fee: 30, hops: 1, biggest: false }],
                    gt: GtSpec::None,
                    gap: (hb + hb / 5) as i64,
                    label: "peer-block-empties-pool".to_string(),
                })
            } else {
                Some(RoundSpec { inject_aged: false, via_thread: false, inject_conflict: false, peer_own: false, peer_block: false, fork: false, items2: vec![], items: plain_items, gt: if round % 2 == 1 { GtSpec::Valid } else { GtSpec::None }, gap: big, label: "warm-up".to_string() })
            }
        }
        // a reorganisation whose FIRST block spends the input of a pooled transaction
        12 => {
            if round >= 2 && round % 3 == 2 {
                Some(RoundSpec {
                    items: vec![],
                    peer_block: false,
                    peer_own: false,
                    inject_conflict: false,
                    via_thread: false,
                    inject_aged: false,
                    fork: true,
                    items2: vec![Item::Transfer { payer: 2, fee: 300, hops: 1, biggest: false }],
                    gt: GtSpec::Valid,
                    gap: big,
                    label: "fork-invalidates-pooled-tx".to_string(),
                })
            } else {
                Some(RoundSpec { inject_aged: false, via_thread: false, inject_conflict: false, peer_own: false, peer_block: false, fork: false, items2: vec![], items: plain_items, gt: if round % 2 == 1 { GtSpec::Valid } else { GtSpec::None }, gap: big, label: "warm-up".to_string() })
            }
        }
        // the only routing work of the pool sits in a transaction whose input leaves the window while
        // it is pooled (another producer's block arrives): create leaves it out
        10 => {
            if tip.id + 1 > plan.gp + 1 && round % 2 == 0 {
                let items = vec![Item::EdgeSpend { payer: 2, fee: 60_000, dust: false }, Item::Transfer { payer: 4, fee: 0, hops: 0, biggest: false }];
                Some(RoundSpec { inject_aged: false, via_thread: false, inject_conflict: false, peer_own: true, peer_block: false, fork: false, items2: vec![], items, gt: GtSpec::None, gap: (hb + hb / 2) as i64, label: "pooled-input-ages-and-carried-the-work".to_string() })
            } else {
                Some(RoundSpec { inject_aged: false, via_thread: false, inject_conflict: false, peer_own: false, peer_block: false, fork: false, items2: vec![], items: plain_items, gt: if round % 2 == 1 { GtSpec::Valid } else { GtSpec::None }, gap: big, label: "warm-up".to_string() })
            }
        }
        // a tiny output is spent by a transaction that is still pooled when the output leaves the window
        13 => {
            let mut items: Vec<Item> = (2..5usize).map(|p| Item::Transfer { payer: p, fee: 20_000, hops: 1, biggest: true }).collect();
            items.push(Item::MakeDust { payer: 5 });
            if tip.id + 1 > plan.gp + 2 && round % 3 == 0 {
                items.push(Item::EdgeSpend { payer: 5, fee: 10, dust: true });
                Some(RoundSpec { inject_aged: false, via_thread: false, inject_conflict: false, peer_own: true, peer_block: false, fork: false, items2: vec![], items, gt: GtSpec::None, gap: big, label: "pooled-dust-input-ages".to_string() })
            } else {
                Some(RoundSpec { inject_aged: false, via_thread: false, inject_conflict: false, peer_own: false, peer_block: false, fork: false, items2: vec![], items, gt: if round % 2 == 1 { GtSpec::Valid } else { GtSpec::None }, gap: big, label: "warm-up".to_string() })
            }
        }
        // a double spend inside the pool (injected past the intake): Block::create must fail and
        // hand the pool back
        15 => {
            let inject = round == 2 || round == 5;
            Some(RoundSpec { inject_aged: false, via_thread: false, inject_conflict: inject, peer_own: false, peer_block: false, fork: false, items2: vec![], items: plain_items, gt: if round % 2 == 1 { GtSpec::Valid } else { GtSpec::None }, gap: big, label: if inject { "double-spend-in-pool".to_string() } else { "warm-up".to_string() } })
        }
        // every round through the ConsensusThread (events + timer), gaps on both sides of the work gate
        16 => {
            let gap = match round % 4 {
                0 => (hb / 2) as i64,
                1 => big,
                2 => (2 * hb - 1) as i64,
                _ => big,
            };
            let mut items = plain_items;
            if round == 4 {
                items.push(Item::Issuance);
            }
            Some(RoundSpec { inject_aged: false, via_thread: true, inject_conflict: false, peer_own: false, peer_block: false, fork: false, items2: vec![], items, gt: if round % 2 == 1 { GtSpec::Valid } else if round == 6 { GtSpec::Invalid } else { GtSpec::None }, gap, label: "through-the-consensus-thread".to_string() })
        }
        // a pooled transaction is left out by create (its input aged while another producer's block
        // arrived) and does NOT carry needed work: the block is built from the rest and must be valid
        18 => {
            if tip.id + 1 > plan.gp + 1 && round % 2 == 0 {
                let items = vec![Item::EdgeSpend { payer: 2, fee: 7_000, dust: false }, Item::Transfer { payer: 4, fee: 300, hops: 1, biggest: false }];
                Some(RoundSpec { inject_aged: false, via_thread: false, inject_conflict: false, peer_own: true, peer_block: false, fork: false, items2: vec![], items, gt: GtSpec::None, gap: big, label: "pooled-input-ages-and-is-left-out".to_string() })
            } else {
                Some(RoundSpec { inject_aged: false, via_thread: false, inject_conflict: false, peer_own: false, peer_block: false, fork: false, items2: vec![], items: plain_items, gt: if round % 2 == 1 { GtSpec::Valid } else { GtSpec::None }, gap: big, label: "warm-up".to_string() })
            }
        }
        // staking on: the producer stakes once, then the second node produces genesis_period blocks,
        // then the producer is asked again
        19 => {
            let k = round % (plan.gp as usize + 2);
            if k >= 1 && k <= plan.gp as usize {
                Some(RoundSpec { inject_aged: false, via_thread: false, inject_conflict: false, peer_own: true, peer_block: false, fork: false, items2: vec![], items: vec![], gt: GtSpec::None, gap: big, label: "idle-while-the-second-node-produces".to_string() })
            } else {
                Some(RoundSpec { inject_aged: false, via_thread: false, inject_conflict: false, peer_own: false, peer_block: false, fork: false, items2: vec![], items: plain_items, gt: GtSpec::Valid, gap: big, label: "producer-stakes".to_string() })
            }
        }
        // staking on and a producer that can pay for two stakes only: while its stakes are locked
        // bundle_block must decline (the second node keeps the chain moving), afterwards it stakes again
        22 => {
            if round < 2 {
                Some(RoundSpec { inject_aged: false, via_thread: false, inject_conflict: false, peer_own: false, peer_block: false, fork: false, items2: vec![], items: plain_items, gt: GtSpec::None, gap: big, label: "producer-stakes".to_string() })
            } else {
                Some(RoundSpec { inject_aged: false, via_thread: round % 3 == 1, inject_conflict: false, peer_own: true, peer_block: false, fork: false, items2: vec![], items: plain_items, gt: GtSpec::Valid, gap: big, label: "stake-may-be-locked".to_string() })
            }
        }
        // the leave-out filter of Block::create, fed by injection (no real path reaches it any more)
        20 => {
            let inj = tip.id + 1 > plan.gp + 1 && round % 2 == 0;
            Some(RoundSpec { inject_aged: inj, via_thread: false, inject_conflict: false, peer_own: false, peer_block: false, fork: false, items2: vec![], items: plain_items, gt: if round % 2 == 1 { GtSpec::Valid } else { GtSpec::None }, gap: big, label: if inj { "aged-spend-injected".to_string() } else { "warm-up".to_string() } })
        }
        // a ticket that solves the tip but names the all-zero key
        14 => {
            let gt = if round == 3 { GtSpec::ZeroKey } else if round % 2 == 1 { GtSpec::Valid } else { GtSpec::None };
            Some(RoundSpec { inject_aged: false, via_thread: false, inject_conflict: false, peer_own: false, peer_block: false, fork: false, items2: vec![], items: plain_items, gt, gap: big, label: if round == 3 { "zero-key-ticket".to_string() } else { "warm-up".to_string() } })
        }
        // dust genesis: a payer spends a tiny output in the block in which it is due
        9 => {
            let mut items: Vec<Item> = (2..6usize).map(|p| Item::Transfer { payer: p, fee: 20_000, hops: 1, biggest: true }).collect();
            if rig.rebroadcast_source() == 1 {
                items.push(Item::Clash { payer: 2, fee: 500 });
            }
            Some(RoundSpec { inject_aged: false, via_thread: false, inject_conflict: false, peer_own: false, peer_block: false, fork: false, items2: vec![], items, gt: if round % 2 == 1 { GtSpec::Valid } else { GtSpec::None }, gap: big, label: "dust-spend".to_string() })
        }
        // plain deep chain, work decided by the gate (gaps below two heartbeats)
        7 => {
            let gap = match round % 4 {
                0 => (hb / 2) as i64,
                1 => hb as i64,
                2 => (2 * hb - 1) as i64,
                _ => big,
            };
            Some(RoundSpec { inject_aged: false, via_thread: false, inject_conflict: false, peer_own: false, peer_block: false, fork: false, items2: vec![], items: plain_items, gt: if round % 2 == 1 { GtSpec::Valid } else { GtSpec::None }, gap, label: "work-gated".to_string() })
        }
        _ => None,
    }
}

fn run_scenario(plan: &Plan, debug: bool) -> ScenarioOut {
    let params = Params {
        genesis_period: plan.gp,
        heartbeat: plan.hb,
        social_stake: plan.stake,
        social_stake_period: 4,
        ..Params::default()
    };
    let mut rig = Rig::new(&params, plan.profile, debug);
    let mut rng = Rng::new(plan.seed);
    let mut coq = vec![];
    let mut descs = vec![];
    let mut findings = vec![];
    let mut nontrivial = false;
    let mut round = 0usize;
    let max_rounds = (plan.target_blocks as usize) * 2 + 6;
    let mut idle = 0;
    while round < max_rounds && rig.prod.blockchain.get_latest_block_id() < plan.target_blocks {
        let spec = if plan.kind < 100 {
            match scripted_spec(&rig, plan, round) {
                Some(s) => s,
                None => break,
            }
        } else {
            random_spec(&rig, plan, &mut rng, round)
        };
        let res = rig.exec_round(&spec, &mut rng);
        round += 1;
        if !res.coq.is_empty() {
            coq.push(format!("({})", res.coq));
        }
        descs.push(res.desc.clone());
        findings.extend(res.findings.clone());
        if res.had_pool && matches!(res.outcome, Outcome::Accepted | Outcome::Rejected | Outcome::Split | Outcome::CreateFailed) {
            nontrivial = true;
        }
        if res.desc.contains("Panicked second node") || res.desc.contains("producer Panicked") {
            break;
        }
        match res.outcome {
            Outcome::Accepted => {
                idle = 0;
            }
            Outcome::Rejected | Outcome::Split => {
                // producer liveness: the consensus thread simply tries again on the next timer
                // tick with whatever add_block_failure left in the pool
                let mut recovered = false;
                let mut last = res.outcome;
                for k in 0..3 {
                    let retry = RoundSpec { inject_aged: false, via_thread: false, inject_conflict: false, peer_own: false, peer_block: false, fork: false, items2: vec![], items: vec![], gt: GtSpec::None, gap: spec.gap.max(1) + 7 * (k + 1), label: format!("retry-{}", k + 1) };
                    let r = rig.exec_round(&retry, &mut rng);
                    round += 1;
                    if !r.coq.is_empty() {
                        coq.push(format!("({})", r.coq));
                    }
                    descs.push(r.desc.clone());
                    findings.extend(r.findings.clone());
                    last = r.outcome;
                    if r.outcome == Outcome::Accepted {
                        recovered = true;
                        break;
                    }
                    if r.outcome != Outcome::Rejected && r.outcome != Outcome::Split {
                        break;
                    }
                }
                rig.stat(&format!("after-rejection:{}", if recovered { "recovered" } else { "not-recovered" }));
                if !recovered {
                    // the failure repeats (or the pool is gone): the scenario ends here
                    let known: Vec<&'static str> = findings.iter().filter_map(|f| f.1).collect();
                    let what = format!("producer liveness: the own block was rejected and 3 further attempts ended {:?}", last);
                    if last == Outcome::Rejected || last == Outcome::Split {
                        findings.push((what, None));
                    }
                    break;
                }
            }
            _ => {
                idle += 1;
                if idle > 6 {
                    break;
                }
            }
        }
    }
    let (vcoq, vfind, vlog) = rig.perturb_subround(&mut rng, if plan.thorough { 16 } else { 8 });
    findings.extend(vfind);
    let desc = format!(
        "{{\"scenario_kind\":{},\"seed\":{},\"genesis_period\":{},\"social_stake\":{},\"heartbeat_ms\":{},\"genesis_profile\":{},\"target_blocks\":{},\"final_tip\":{},\"perturbed_copies_of_last_accepted_block\":[{}],\"rounds\":[{}]}}",
        plan.kind,
        plan.seed,
        plan.gp,
        plan.stake,
        plan.hb,
        plan.profile,
        plan.target_blocks,
        rig.prod.blockchain.get_latest_block_id(),
        vlog.join(","),
        descs.join(",")
    );
    rig.stat(&format!("config:gp={}:stake={}:hb={}:profile={}", plan.gp, if plan.stake > 0 { "on" } else { "off" }, plan.hb, plan.profile));
    ScenarioOut { desc, coq: format!("({}, {})", gal::list(&coq), gal::list(&vcoq)), findings, stats: rig.stats.clone(), nontrivial, rounds: round }
}

fn main() {
    verif_harness::common::init_log();
    let args = Args::parse();
    let debug = std::env::var("C07_DEBUG").is_ok();
    let mut summary = Summary::new("C07");
    let mut rng = Rng::new(args.seed);
    let nrandom: u64 = match std::env::var("C07_CASES") {
        Ok(v) => v.parse().unwrap(),
        Err(_) => {
            if args.tier == "thorough" {
                3000
            } else {
                400
            }
        }
    };
    let mut plans: Vec<Plan> = vec![
        Plan { kind: 0, seed: 0, gp: 3, stake: 0, hb: 10_000, profile: 1, target_blocks: 14, adversarial: 0, thorough: false },
        Plan { kind: 1, seed: 0, gp: 5, stake: 0, hb: 10_000, profile: 0, target_blocks: 8, adversarial: 0, thorough: false },
        Plan { kind: 2, seed: 0, gp: 5, stake: 0, hb: 10_000, profile: 0, target_blocks: 6, adversarial: 0, thorough: false },
        Plan { kind: 3, seed: 0, gp: 5, stake: 0, hb: 10_000, profile: 0, target_blocks: 6, adversarial: 0, thorough: false },
        Plan { kind: 4, seed: 0, gp: 3, stake: 0, hb: 10_000, profile: 0, target_blocks: 10, adversarial: 0, thorough: false },
        Plan { kind: 5, seed: 0, gp: 3, stake: 50_000, hb: 10_000, profile: 0, target_blocks: 10, adversarial: 0, thorough: false },
        Plan { kind: 6, seed: 0, gp: 5, stake: 50_000, hb: 10_000, profile: 0, target_blocks: 6, adversarial: 0, thorough: false },
        Plan { kind: 7, seed: 0, gp: 20, stake: 0, hb: 10_000, profile: 0, target_blocks: 46, adversarial: 0, thorough: false },
        Plan { kind: 7, seed: 0, gp: 8, stake: 50_000, hb: 10_000, profile: 0, target_blocks: 20, adversarial: 0, thorough: false },
        Plan { kind: 9, seed: 0, gp: 3, stake: 0, hb: 10_000, profile: 1, target_blocks: 8, adversarial: 0, thorough: false },
        Plan { kind: 10, seed: 0, gp: 3, stake: 0, hb: 10_000, profile: 0, target_blocks: 9, adversarial: 0, thorough: false },
        Plan { kind: 11, seed: 0, gp: 5, stake: 0, hb: 10_000, profile: 0, target_blocks: 12, adversarial: 0, thorough: false },
        Plan { kind: 12, seed: 0, gp: 5, stake: 0, hb: 10_000, profile: 0, target_blocks: 14, adversarial: 0, thorough: false },
        Plan { kind: 13, seed: 0, gp: 3, stake: 0, hb: 10_000, profile: 0, target_blocks: 12, adversarial: 0, thorough: false },
        Plan { kind: 14, seed: 0, gp: 5, stake: 0, hb: 10_000, profile: 0, target_blocks: 7, adversarial: 0, thorough: false },
        Plan { kind: 15, seed: 0, gp: 3, stake: 50_000, hb: 10_000, profile: 0, target_blocks: 8, adversarial: 0, thorough: false },
        Plan { kind: 16, seed: 0, gp: 5, stake: 0, hb: 10_000, profile: 0, target_blocks: 16, adversarial: 0, thorough: false },
        Plan { kind: 16, seed: 0, gp: 3, stake: 50_000, hb: 10_000, profile: 0, target_blocks: 10, adversarial: 0, thorough: false },
        Plan { kind: 18, seed: 0, gp: 3, stake: 0, hb: 10_000, profile: 0, target_blocks: 12, adversarial: 0, thorough: false },
        Plan { kind: 19, seed: 0, gp: 3, stake: 50_000, hb: 10_000, profile: 0, target_blocks: 14, adversarial: 0, thorough: false },
        Plan { kind: 19, seed: 0, gp: 5, stake: 50_000, hb: 10_000, profile: 0, target_blocks: 16, adversarial: 0, thorough: false },
        Plan { kind: 20, seed: 0, gp: 3, stake: 0, hb: 10_000, profile: 0, target_blocks: 12, adversarial: 0, thorough: false },
        Plan { kind: 22, seed: 0, gp: 8, stake: 50_000, hb: 10_000, profile: 2, target_blocks: 12, adversarial: 0, thorough: false },
    ];
    for _ in 0..nrandom {
        let gp = *rng.pick(&[3u64, 3, 5, 5, 8, 8, 20]);
        let stake = if rng.chance(1, 3) { 50_000 } else { 0 };
        let hb = *rng.pick(&[100u64, 10_000, 10_000]);
        let profile = if stake > 0 && rng.chance(1, 4) { 2 } else if rng.chance(1, 5) { 1 } else { 0 };
        let target = match rng.below(4) {
            0 => rng.range(2, gp + 1),
            1 => gp + 1 + rng.range(1, 3),
            2 => 2 * gp + rng.range(2, 5),
            _ => (3 * gp + 3).min(2 * gp + 12),
        };
        let adversarial = *rng.pick(&[0u64, 0, 8, 8, 20]);
        plans.push(Plan { kind: 100, seed: rng.next(), gp, stake, hb, profile, target_blocks: target, adversarial, thorough: args.tier == "thorough" });
    }
    if !debug {
        std::panic::set_hook(Box::new(|_| {}));
    }
    let only: Option<usize> = std::env::var("C07_ONLY").ok().map(|v| v.parse().unwrap());
    let mut coq_cases = vec![];
    let mut distinct = BTreeSet::new();
    for (idx, plan) in plans.iter().enumerate() {
        if only.is_some() && only != Some(idx) {
            continue;
        }
        let out = catch_unwind(AssertUnwindSafe(|| run_scenario(plan, debug)));
        match out {
            Ok(o) => {
                for (k, v) in &o.stats {
                    let (dim, val) = match k.split_once(':') {
                        Some((d, v)) => (d.to_string(), v.to_string()),
                        None => ("event".to_string(), k.clone()),
                    };
                    for _ in 0..*v {
                        summary.count(&dim, &val);
                    }
                }
                summary.count("rounds_per_scenario", &format!("{:02}", (o.rounds / 5) * 5));
                let mut seen = BTreeSet::new();
                for (what, class) in &o.findings {
                    match class {
                        Some(id) => {
                            summary.count("known_class", id);
                            if seen.insert(*id) {
                                summary.known_hit(id, idx, what);
                            }
                        }
                        None => summary.oracle_failure(idx, what, &o.desc),
                    }
                }
                if o.nontrivial && distinct.insert(o.coq.clone()) {
                    summary.nontrivial += 1;
                }
                if summary.samples.len() < 3 && o.rounds > 3 && idx >= 22 {
                    summary.samples.push(o.desc.clone());
                }
                summary.case_descs.push(o.desc);
                coq_cases.push(o.coq);
            }
            Err(e) => {
                let msg = e
                    .downcast_ref::<String>()
                    .cloned()
                    .or_else(|| e.downcast_ref::<&str>().map(|s| s.to_string()))
                    .unwrap_or_default();
                if debug {
                    eprintln!("PANIC in scenario {}: {}", idx, msg);
                }
                let desc = format!("{{\"plan\": {}, \"panic\": {}}}", jstr(&format!("{:?}", plan)), jstr(&msg));
                summary.oracle_failure(idx, &format!("panic while running the scenario: {}", msg), &desc);
                summary.case_descs.push(desc);
                coq_cases.push("([], [])".to_string());
            }
        }
        summary.evaluations += 1;
    }
    let header = "From Saito Require Import Base BurnFee Producer.\n\
        Definition check (c : list rcase * list vcase) : bool := check_scenario BurnFee.work_needed c.";
    let files = gal::write_shards(&format!("{}/cases", args.out), "C07", header, "list rcase * list vcase", &coq_cases, std::cmp::max(args.shards, (coq_cases.len() + 39) / 40)).unwrap();
    summary.case_files = files;
    summary.write(&args.out);
}
