//! scratch probe for C07 (not part of the check): drives bundle_block on a real node
use std::collections::BTreeSet;

use saito_core::core::consensus::block::Block;
use saito_core::core::consensus::golden_ticket::GoldenTicket;
use saito_core::core::consensus::slip::{Slip, SlipType};
use saito_core::core::consensus::transaction::{Transaction, TransactionType};
use saito_core::core::consensus::wallet::Wallet;
use saito_core::core::defs::{SaitoPrivateKey, SaitoPublicKey, SaitoUTXOSetKey};
use saito_core::core::util::crypto::hash;
use verif_harness::world::*;

struct Rig {
    prod: Node,
    peer: Node,
    keys: Vec<(SaitoPublicKey, SaitoPrivateKey)>,
    nonce: u64,
    used: BTreeSet<SaitoUTXOSetKey>,
}

impl Rig {
    async fn new(params: &Params, dust: bool) -> Rig {
        let prod = Node::new(params, 1);
        let peer = Node::new(params, 2);
        let keys: Vec<_> = (1u8..=8).map(keypair).collect();
        let mut iss = vec![];
        if dust {
            for k in 2..6usize {
                iss.push((keys[k].0, 1_000_000 + k as u64));
                iss.push((keys[k].0, 2_000 + k as u64));
                iss.push((keys[k].0, 2_100 + k as u64));
            }
        } else {
        for i in 0..8u64 {
            iss.push((keys[0].0, 2_000_000 + i));
        }
        for k in 2..6usize {
            for i in 0..8u64 {
                iss.push((keys[k].0, 400_000 + 1000 * i + k as u64));
            }
        }
        }
        let g = make_genesis(&prod, 1_000_000, &iss).await.unwrap();
        let mut r = Rig { prod, peer, keys, nonce: 0, used: BTreeSet::new() };
        let a = r.prod.add_block(g.clone()).await;
        let b = r.peer.add_block(g).await;
        println!("genesis {:?} {:?}", a, b);
        r
    }
    fn tip(&self) -> Block {
        self.prod.blockchain.get_latest_block().unwrap().clone()
    }
    fn free(&self, owner: usize) -> Vec<Slip> {
        let mut keys: Vec<SaitoUTXOSetKey> =
            self.prod.blockchain.utxoset.iter().filter(|(_, v)| **v).map(|(k, _)| *k).collect();
        keys.sort();
        let mut v = vec![];
        for k in keys {
            if self.used.contains(&k) {
                continue;
            }
            if let Ok(s) = Slip::parse_slip_from_utxokey(&k) {
                let tipid = self.prod.blockchain.get_latest_block_id();
                let gp = self.prod.params.genesis_period;
                if tipid >= gp && s.block_id == tipid - gp {
                    continue;
                }
                if s.amount > 0 && s.public_key == self.keys[owner].0 && (s.slip_type == SlipType::Normal || s.slip_type == SlipType::ATR) {
                    v.push(s);
                }
            }
        }
        v
    }
    fn transfer(&mut self, owner: usize, fee: u64, hops: usize) -> Option<Transaction> {
        let mut f = self.free(owner);
        f.sort_by_key(|s| std::cmp::Reverse(s.amount));
        let s = f.first()?.clone();
        let mut s2 = s.clone();
        s2.generate_utxoset_key();
        self.used.insert(s2.utxoset_key);
        self.nonce += 1;
        let fee = fee.min(s.amount);
        let mut tx = make_tx(&[s.clone()], &[(self.keys[owner].0, s.amount - fee)], &self.keys[owner].1, 5_000_000 + self.nonce);
        // path: owner -> r7 -> r8 -> producer
        let chain: Vec<usize> = match hops {
            0 => vec![],
            1 => vec![owner, 0],
            2 => vec![owner, 6, 0],
            _ => vec![owner, 6, 7, 0],
        };
        for w in chain.windows(2) {
            let (fpk, fsk) = self.keys[w[0]];
            tx.add_hop(&fsk, &fpk, &self.keys[w[1]].0);
        }
        Some(tx)
    }
    async fn submit(&mut self, tx: Transaction) -> bool {
        let sig = tx.signature;
        self.prod.mempool.add_transaction_if_validates(tx, &self.prod.blockchain).await;
        self.prod.mempool.transactions.contains_key(&sig)
    }
    async fn gt(&mut self, valid: bool) {
        let tip = self.tip();
        self.nonce += 1;
        let (pk, sk) = self.keys[0];
        let gt = if valid {
            mine_golden_ticket(tip.hash, tip.difficulty, pk, self.nonce)
        } else {
            let mut r = hash(&self.nonce.to_be_bytes());
            loop {
                let g = GoldenTicket::create(tip.hash, r, pk);
                if !g.validate(tip.difficulty) {
                    break g;
                }
                r = hash(&r);
            }
        };
        let tx = Wallet::create_golden_ticket_transaction(gt, &pk, &sk).await;
        self.prod.mempool.add_golden_ticket(tx).await;
    }
    async fn bundle(&mut self, gap: u64) -> Option<(AddClass, AddClass)> {
        let tip = self.tip();
        let ts = tip.timestamp + gap;
        let gt_tx = self.prod.mempool.golden_tickets.get(&tip.hash).map(|(t, _)| t.clone());
        let npool = self.prod.mempool.transactions.len();
        let work = self.prod.mempool.get_routing_work_available();
        let b = self
            .prod
            .mempool
            .bundle_block(&self.prod.blockchain, ts, gt_tx.clone(), &self.prod.cfg, &self.prod.storage)
            .await;
        match b {
            None => {
                println!(
                    "  bundle on {} at +{}: NONE (pool {} -> {}, work {}, gt {})",
                    tip.id,
                    gap,
                    npool,
                    self.prod.mempool.transactions.len(),
                    work,
                    gt_tx.is_some()
                );
                None
            }
            Some(b) => {
                let types: Vec<u8> = b.transactions.iter().map(|t| t.transaction_type as u8).collect();
                // cv on the peer
                let mut c = b.clone();
                c.generate().unwrap();
                let cv = c.generate_consensus_values(&self.peer.blockchain, &self.peer.storage, &self.peer.cfg).await;
                let mut diffs = vec![];
                macro_rules! cmp {
                    ($f:ident) => {
                        if cv.$f != c.$f {
                            diffs.push(format!("{}: header {} cv {}", stringify!($f), c.$f, cv.$f));
                        }
                    };
                }
                cmp!(total_fees);
                cmp!(total_fees_new);
                cmp!(total_fees_atr);
                cmp!(total_fees_cumulative);
                cmp!(avg_total_fees);
                cmp!(avg_total_fees_new);
                cmp!(avg_total_fees_atr);
                cmp!(total_payout_routing);
                cmp!(total_payout_mining);
                cmp!(total_payout_treasury);
                cmp!(total_payout_graveyard);
                cmp!(total_payout_atr);
                cmp!(avg_payout_routing);
                cmp!(avg_payout_mining);
                cmp!(avg_payout_treasury);
                cmp!(avg_payout_graveyard);
                cmp!(avg_payout_atr);
                cmp!(avg_fee_per_byte);
                cmp!(fee_per_byte);
                cmp!(avg_nolan_rebroadcast_per_block);
                cmp!(burnfee);
                cmp!(difficulty);
                cmp!(total_rebroadcast_slips);
                if cv.rebroadcast_hash != c.rebroadcast_hash {
                    diffs.push("rebroadcast_hash".to_string());
                }
                let r1 = self.prod.add_block(b.clone()).await;
                let r2 = self.peer.add_block(b.clone()).await;
                println!(
                    "  bundle on {} at +{}: block {} types {:?} fees {} treasury {} graveyard {} bf {} diff {} avgreb {} work {} -> {:?} {:?} {}",
                    tip.id, gap, b.id, types, b.total_fees, b.treasury, b.graveyard, b.burnfee, b.difficulty, b.avg_nolan_rebroadcast_per_block, b.total_work, r1, r2,
                    if diffs.is_empty() { String::new() } else { format!("DIFFS {:?}", diffs) }
                );
                self.used.clear();
                Some((r1, r2))
            }
        }
    }
}

#[tokio::main(flavor = "current_thread")]
async fn main() {
    verif_harness::common::init_log();
    let which: Vec<String> = std::env::args().skip(1).collect();
    let gp: u64 = which.get(0).and_then(|s| s.parse().ok()).unwrap_or(3);
    let stake: u64 = which.get(1).and_then(|s| s.parse().ok()).unwrap_or(0);
    let mode: u64 = which.get(2).and_then(|s| s.parse().ok()).unwrap_or(0);
    let params = Params { genesis_period: gp, social_stake: stake, social_stake_period: 4, heartbeat: 10_000, ..Params::default() };
    let mut r = Rig::new(&params, mode == 3).await;
    for i in 0..(3 * gp + 6) {
        let spec: Vec<(usize, u64, usize)> = if mode == 3 { vec![(2, 20000, 1), (3, 20000, 1), (4, 20000, 1), (5, 20000, 1)] } else { vec![(2usize, 5000u64, 1usize), (3, 300, 2), (4, 0, 0)] };
        for (k, fee, hops) in spec {
            if let Some(tx) = r.transfer(k, fee * (1 + i % 3), hops) {
                let ok = r.submit(tx).await;
                if !ok {
                    println!("  submit owner {} not pooled", k);
                }
            }
        }
        let with_gt = match mode {
            0 => i % 2 == 1,
            1 => i % 3 == 2,
            3 => i % 2 == 1,
            _ => true,
        };
        if mode == 4 && i == 3 {
            // invalid golden ticket on a tip with difficulty >= 1
            println!("tip difficulty {}", r.tip().difficulty);
            r.gt(false).await;
            for k in 0..4 {
                let res = r.bundle(25_000 + k).await;
                println!("   attempt {} -> {:?}; pool {} gts {} fresh {}", k, res, r.prod.mempool.transactions.len(), r.prod.mempool.golden_tickets.len(), r.prod.mempool.new_tx_added);
            }
            break;
        }
        if mode == 5 && i == 2 {
            let mut tx = Transaction::create_issuance_transaction(r.keys[3].0, 777_777);
            tx.sign(&r.keys[3].1);
            let ok = r.submit(tx).await;
            println!("issuance pooled {}", ok);
            for k in 0..3 {
                let res = r.bundle(25_000 + k).await;
                println!("   attempt {} -> {:?}; pool {} fresh {}", k, res, r.prod.mempool.transactions.len(), r.prod.mempool.new_tx_added);
            }
            break;
        }
        if mode == 6 && i == 2 {
            let res = std::panic::catch_unwind(std::panic::AssertUnwindSafe(|| ()));
            let _ = res;
            println!("bundling at ts == parent ts");
            let res = r.bundle(0).await;
            println!("-> {:?}", res);
            break;
        }
        if with_gt {
            r.gt(true).await;
        }
        let res = r.bundle(if mode == 7 { 3_000 + 2000 * (i % 8) } else { 25_000 }).await;
        if res.is_none() && (mode == 7 || stake > 0) { if !with_gt { r.gt(true).await; let res = r.bundle(26_000).await; println!("   retry with gt -> {:?}", res);} continue; }
        if res.is_none() || res != Some((AddClass::OnChain, AddClass::OnChain)) {
            println!("STOP");
            break;
        }
    }
}
