//! exploration
use verif_harness::world::*;
use saito_core::core::consensus::burnfee::BurnFee;

#[tokio::main(flavor = "current_thread")]
async fn main() {
    verif_harness::common::init_log();
    let params = Params { genesis_period: 100, heartbeat: 100, ..Params::default() };
    let mut node = Node::new(&params, 1);
    let (pka, ska) = keypair(2);
    let (pkb, skb) = keypair(3);
    let mut iss = vec![];
    for _ in 0..10 { iss.push((pka, 100_000_000u64)); }
    let g = make_genesis(&node, 1000, &iss).await.unwrap();
    println!("genesis {:?} burnfee {} txs {}", node.add_block(g.clone()).await, g.burnfee, g.transactions.len());
    // block 2: tx with fee 1000, hop A->creator
    let s0 = outputs_of(&g, 0);
    let ts2 = 1000 + 500;
    let mut tx = make_tx(&s0[0..1], &[(pka, s0[0].amount - 1000)], &ska, ts2);
    tx.add_hop(&ska, &pka, &node.pk);
    let b2 = make_block(&node, g.hash, ts2, vec![tx], false, 0).await.unwrap();
    println!("b2 work {} fees {} burnfee {} -> {:?}", b2.total_work, b2.total_fees, b2.burnfee, node.add_block(b2.clone()).await);
    for dt in [1u64, 50, 100, 199, 200] {
        println!("needed dt={} : {}", dt, BurnFee::return_routing_work_needed_to_produce_block_in_nolan(b2.burnfee, ts2 + dt, ts2, 100));
    }
    // block 3 candidate: dt = 100 -> needed 500_000
    let s1 = outputs_of(&g, 1);
    let ts3 = ts2 + 100;
    let need = BurnFee::return_routing_work_needed_to_produce_block_in_nolan(b2.burnfee, ts3, ts2, 100);
    let mut tx = make_tx(&s1[0..1], &[(pka, s1[0].amount - (need - 1))], &ska, ts3);
    tx.add_hop(&ska, &pka, &node.pk);
    let b3 = make_block(&node, b2.hash, ts3, vec![tx], false, 0).await.unwrap();
    println!("b3 short work {} need {} -> {:?}", b3.total_work, need, node.add_block(b3.clone()).await);
    println!("tip {}", node.snapshot().tip_id);
    let mut tx = make_tx(&s1[0..1], &[(pka, s1[0].amount - 2*need)], &ska, ts3);
    tx.add_hop(&ska, &pka, &pkb);
    tx.add_hop(&skb, &pkb, &node.pk);
    let b3 = make_block(&node, b2.hash, ts3, vec![tx], true, 7).await.unwrap();
    println!("b3 exact work {} need {} -> {:?}", b3.total_work, need, node.add_block(b3.clone()).await);
    println!("tip {}", node.snapshot().tip_id);
    for t in &b3.transactions { println!("tx type {:?} to {:?}", t.transaction_type, t.to.iter().map(|s| (s.public_key[1], s.amount, s.slip_type)).collect::<Vec<_>>()); }
}
